import Driver.Loop
import SquidModel.Cache.Fresh
open SquidModel SquidModel.Cache.Fresh

namespace Driver.C12

/-- nominal time of the first exchange; the scenario only fixes offsets from it (the decision is translation
invariant as long as Age values stay away from the absolute clock value, see `SquidModel.C12.shift_invariant`) -/
def t0 : Int := 1700000000

def optInt (s : String) : Option (Option Int) :=
  if s == "-" then some none else (s.toInt?).map some

def has (s : String) (c : Char) : Bool := s.toList.contains c

def ruleOf (cfg : String) : Option Rule :=
  match cfg with
  | "b" => some builtinRule
  | "d" => -- the shipped `refresh_pattern .` line (scenario URLs contain neither `?` nor `/cgi-bin/` and are not ftp)
    match SquidModel.Gen.FreshDefaults.shippedRules.find? (fun r => r.1 == ".") with
    | some (_, _, mn, pct, mx, _) => some (plainRule mn pct mx)
    | none => none
  | "o" => some { plainRule 300 20 259200 with overrideExpire := true, overrideLastmod := true }
  | "r" => some { plainRule 0 20 259200 with reloadIntoIms := true }
  | "i" => some { plainRule 0 20 259200 with ignoreReload := true }
  | _ => none

def cfgOf (cfg : String) : Config :=
  match cfg with
  | "r" | "i" => { defaultConfig with refreshNocacheHack := true }
  | _ => defaultConfig

structure Step where
  dt : Int
  q : Request

def parseReq (qma qms qmf qf : String) : Option Request :=
  let qmsv : Option (Option Int) := if qms == "any" then some (some SquidModel.Gen.FreshDefaults.maxStaleAny) else optInt qms
  match optInt qma, qmsv, optInt qmf with
  | some qma, some qms, some qmf =>
    let qHasCc := qma.isSome || qms.isSome || qmf.isSome || has qf 'n' || has qf 'o' || has qf 'c'
    some { hasCc := qHasCc, ccMaxAge := qma, ccMaxStale := qms, ccMinFresh := qmf, ccNoCache := has qf 'n',
           ccOnlyIfCached := has qf 'o', pragmaNoCache := has qf 'g' }
  | _, _, _ => none

def showOutcome (tag : String) (out : Outcome) (c : Option Cached) (now : Int) : String :=
  match out, c with
  | .hit, some c => tag ++ "=hit x=" ++ (if c.entry.timestamp ≤ now then toString (now - c.entry.timestamp) else "-")
  | .revalidate, some c => tag ++ "=reval x=" ++ toString (t0 - c.entry.lastModified)
  | .negativeHit, _ => tag ++ "=neghit x=-"
  | .miss, _ => tag ++ "=miss x=-"
  | .clientRefreshMiss, _ => tag ++ "=crmiss x=-"
  | .onlyIfCached504, _ => tag ++ "=oic504 x=-"
  | _, none => tag ++ "=bad-model x=-"

/-- the 304 the origin sends at time `now`: Date = now, optional Cache-Control / Expires -/
def parse304 (now : Int) (nsm nma nex nrf : String) : Option NotModified :=
  let exBad := nex == "bad"
  let exv : Option (Option Int) := if exBad then some none else optInt nex
  match optInt nsm, optInt nma, exv with
  | some sm, some ma, some ex =>
    some { hasDate := true, date := now,
           hasCc := sm.isSome || ma.isSome || has nrf 'm' || has nrf 'p' || has nrf 'n' || has nrf 'i' || has nrf 'u',
           sMaxAge := sm, maxAge := ma, mustRevalidate := has nrf 'm', proxyRevalidate := has nrf 'p',
           noCacheNoParams := has nrf 'n', ccPrivate := false, immutable := has nrf 'i', staleIfError := none,
           hasExpires := exBad || ex.isSome, expiresHdr := match ex with | some e => now + e | none => -1,
           hasLastModified := false, lastModified := -1, hasAge := false, ageHdr := -1 }
  | _, _, _ => none

def plain304 (now : Int) : NotModified :=
  { hasDate := true, date := now, hasCc := false, sMaxAge := none, maxAge := none, mustRevalidate := false,
    proxyRevalidate := false, noCacheNoParams := false, ccPrivate := false, immutable := false, staleIfError := none,
    hasExpires := false, expiresHdr := -1, hasLastModified := false, lastModified := -1, hasAge := false, ageHdr := -1 }

def parseReply (date age sm ma ex lm rf : String) : Option Reply :=
  let exBad := ex == "bad"
  let exv : Option (Option Int) := if exBad then some none else optInt ex
  match optInt date, optInt age, optInt sm, optInt ma, exv, optInt lm with
  | some date, some age, some sm, some ma, some ex, some lm =>
    let hasCc := sm.isSome || ma.isSome || has rf 'm' || has rf 'p' || has rf 'n' || has rf 'i' || has rf 'u'
    some { date := match date with | some d => t0 - d | none => -1,
           hasExpires := exBad || ex.isSome,
           expiresHdr := match ex with | some e => t0 + e | none => -1,
           lastModified := match lm with | some l => t0 - l | none => -1,
           ageHdr := age.getD (-1), hasCc := hasCc, sMaxAge := sm, maxAge := ma,
           mustRevalidate := has rf 'm', proxyRevalidate := has rf 'p', noCacheNoParams := has rf 'n', ccPrivate := false,
           immutable := has rf 'i', staleIfError := none, pragmaNoCache := false, hasVary := false,
           contentLength := if has rf 'z' then 0 else 2 }
  | _, _, _, _, _, _ => none

/-- line: `cfg date age smaxage maxage expires lastmod rflags dt qmaxage qmaxstale qminfresh qflags`
          `[nsmaxage nmaxage nexpires nflags dt2 qmaxage2 qmaxstale2 qminfresh2 qflags2]`
  date/lastmod: seconds before the first exchange; expires: seconds after it; `-` absent; expires `bad` unparsable
  rflags: m must-revalidate, p proxy-revalidate, n no-cache, i immutable, u public, z empty body
  qflags: n no-cache, o only-if-cached, g Pragma: no-cache, c some other Cache-Control directive
  n*: what the 304 answering a revalidation carries besides Date (expires relative to the time of the 304); then a third request -/
def handle (line : String) : String :=
  match Driver.words line with
  | cfg :: date :: age :: sm :: ma :: ex :: lm :: rf :: dt :: qma :: qms :: qmf :: qf :: rest =>
    match ruleOf cfg, parseReply date age sm ma ex lm rf, dt.toInt?, parseReq qma qms qmf qf with
    | some R, some r, some dt, some q =>
      let c := cfgOf cfg
      let cached0 := admitCached c R t0 r 0
      let now1 := t0 + dt
      let out1 := lookup c R now1 (cached0.map (·.entry)) q
      let s1 := showOutcome "B" out1 cached0 now1
      match rest with
      | [] => s1
      | [nsm, nma, nex, nrf, dt2, qma2, qms2, qmf2, qf2] =>
        match parse304 now1 nsm nma nex nrf, dt2.toInt?, parseReq qma2 qms2 qmf2 qf2 with
        | some n, some dt2, some q2 =>
          let cached1 := afterRequest c now1 cached0 out1 n
          let now2 := now1 + dt2
          let out2 := lookup c R now2 (cached1.map (·.entry)) q2
          s1 ++ " " ++ showOutcome "C" out2 cached1 now2
        | _, _, _ => "bad-op"
      | _ => "bad-op"
    | _, _, _, _ => "bad-op"
  | _ => "bad-op"

end Driver.C12

def main : IO UInt32 := Driver.runPure Driver.C12.handle
