import Driver.Loop
import SquidModel.ClpMap.Model
open SquidModel SquidModel.ClpMap
open SquidModel.Gen.ClpMapConsts

namespace Driver.C51

def parseNat (s : String) : Option Nat :=
  if s.isEmpty || s.length > 20 then none
  else if s.toList.all Char.isDigit then some (s.toList.foldl (fun a c => a * 10 + (c.toNat - 48)) 0) else none

def parseU64 (s : String) : Option Nat :=
  match parseNat s with
  | some n => if n ≤ u64Max then some n else none
  | none => none

def parseInt (s : String) : Option Int :=
  match s.toList with
  | '-' :: r => (parseNat (String.ofList r)).map (fun n => - (n : Int))
  | _ => (parseNat s).map (fun n => (n : Int))

def parseI64 (s : String) : Option Int :=
  match parseInt s with
  | some n => if -timeMax - 1 ≤ n ∧ n ≤ timeMax then some n else none
  | none => none

def parseTtl (s : String) : Option Int :=
  match parseInt s with
  | some n => if ttlMin ≤ n ∧ n ≤ ttlMax then some n else none
  | none => none

def parseOp (tok : String) : Option Op :=
  match tok.splitOn ":" with
  | ["a", k, kl, v, vs, ttl] =>
    match parseU64 k, parseU64 kl, parseI64 v, parseU64 vs, parseTtl ttl with
    | some k, some kl, some v, some vs, some ttl => some (.add k kl v vs ttl)
    | _, _, _, _, _ => none
  | ["b", k, kl, v, vs] =>
    match parseU64 k, parseU64 kl, parseI64 v, parseU64 vs with
    | some k, some kl, some v, some vs => some (.addDefault k kl v vs)
    | _, _, _, _ => none
  | ["g", k] => (parseU64 k).map .get
  | ["x", k] => (parseU64 k).map .del
  | ["l", n] => (parseU64 n).map .setLimit
  | ["T", t] => (parseI64 t).map .setClock
  | _ => none

def parseOps : List String → Option (List Op)
  | [] => some []
  | t :: r =>
    match parseOp t, parseOps r with
    | some o, some os => some (o :: os)
    | _, _ => none

def showRes : Res → String
  | .none => "-"
  | .added true => "1"
  | .added false => "0"
  | .got none => "n"
  | .got (some v) => "v" ++ toString v

def showEntry (e : Entry) : String :=
  toString e.key ++ "=" ++ toString e.value ++ "@" ++ toString e.expires ++ "#" ++ toString e.memCounted

def showObs (o : Obs) : String :=
  showRes o.res ++ "/" ++ toString o.used ++ "/" ++ toString o.limit ++ "/" ++ toString o.count ++ "/" ++
    (if o.items.isEmpty then "-" else ",".intercalate (o.items.map showEntry))

def showFault : Fault → String
  | .dangling => "abort:dangling-iterator"
  | .assertTrimLimit => "abort:assert-trim-limit"
  | .assertTrimEmpty => "abort:assert-trim-empty"
  | .assertEraseMem => "abort:assert-erase-mem"
  | .assertAddOverflow => "abort:assert-add-overflow"
  | .assertDefaultTtl => "reject:default-ttl"
  | .diverged => "abort:trim-diverged"

/-- like `ClpMap.run`, printing; a fault replaces the whole line (as a crash of the harness does) -/
def runShow : State → Int → List Op → List String → String
  | _, _, [], acc => " ".intercalate acc.reverse
  | s, now, op :: rest, acc =>
    match step s now op with
    | .error f => showFault f
    | .ok (s', now', r) => runShow s' now' rest (showObs (observe r s') :: acc)

def handle (line : String) : String :=
  match Driver.words line with
  | lim :: dttl :: clk :: ops =>
    match parseU64 lim, parseI64 clk, parseOps ops with
    | some lim, some clk, some ops =>
      let d : Option (Option Int) := if dttl == "x" then some none else (parseTtl dttl).map some
      match d with
      | none => "bad-op"
      | some d =>
        match init lim d clk with
        | .error f => showFault f
        | .ok s => runShow s clk ops [showObs (observe .none s)]
    | _, _, _ => "bad-op"
  | _ => "bad-op"

end Driver.C51

def main : IO UInt32 := Driver.runPure Driver.C51.handle
