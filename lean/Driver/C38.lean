import Driver.Loop
import SquidModel.Proxyp.IpText
open SquidModel SquidModel.Proxyp

namespace Driver.C38

def errSlug : Err → String
  | .badMagic => "invalid-magic"
  | .v1MalformedHeader => "v1-malformed-header"
  | .v1MissingSp => "v1-missing-sp-after-the-magic-sequence"
  | .v1BadProto => "v1-invalid-inet-protocol-or-family"
  | .v1BadFamily => "v1-missing-or-invalid-ip-address-family"
  | .v1FamilySp => "v1-missing-sp-after-the-ip-address-family"
  | .v1MalformedIp => "v1-malformed-ip-address"
  | .v1GarbageAfterIp => "v1-garbage-after-ip-address"
  | .v1InvalidIp _ => "v1-invalid-ip-address"
  | .v1FamilyMismatch => "v1-declared-and-or-actual-ip-address-families-mismatch"
  | .v1MalformedPort => "v1-malformed-port"
  | .v1GarbageAfterPort => "v1-garbage-after-port"
  | .v1InvalidPort => "v1-invalid-port"
  | .v1TrailingGarbage => "v1-garbage-after-port"
  | .v2Version v => "v2-invalid-version-" ++ toString v
  | .v2Command c => "v2-invalid-command-" ++ toString c
  | .v2Family f => "v2-invalid-address-family-" ++ toString f
  | .v2Proto p => "v2-invalid-transport-protocol-" ++ toString p
  | .truncated => "check-failed-expectmore"
  | .unreachable => "check-failed-false"

def b01 (b : Bool) : String := if b then "1" else "0"

def addrStr (a : IpAddr) : String := Bytes.toHex a.bytes ++ ":" ++ toString a.port

def tlvsStr (l : List Tlv) : String :=
  if l.isEmpty then "-" else ",".intercalate (l.map fun t => toString t.type ++ ":" ++ Bytes.toHex t.value)

/-- the canonical one-token observation of a parsing attempt -/
def outcome : Res → String
  | .more => "more"
  | .ub => "ub"
  | .reject e =>
    "reject:" ++ errSlug e ++
      (match e with
       | .v1InvalidIp tok => if Gen.Proxyp.resolvesNames then ";dns=" ++ Bytes.toHex tok else ""
       | _ => "")
  | .ok h n =>
    "ok;size=" ++ toString n ++ ";ver=" ++ toString h.version ++ ";cmd=" ++ toString h.command ++
    ";addrs=" ++ b01 h.hasAddresses ++ ";fwd=" ++ b01 h.hasForwardedAddresses ++
    ";src=" ++ addrStr h.src ++ ";dst=" ++ addrStr h.dst ++ ";tlvs=" ++ tlvsStr h.tlvs

def run (b : Bytes) : String := outcome (parse IpText.numeric b)

/-- run-length compressed outcomes of all prefixes: `lo-hi:outcome` -/
def allPrefixes (b : Bytes) : String :=
  let outs := (List.range (b.length + 1)).map fun k => run (b.take k)
  let rec go (k : Nat) (l : List String) (cur : Option (Nat × String)) (acc : List String) : List String :=
    match l with
    | [] =>
      (match cur with
       | some (lo, o) => acc ++ [toString lo ++ "-" ++ toString (k - 1) ++ ":" ++ o]
       | none => acc)
    | o :: r =>
      match cur with
      | some (lo, o') =>
        if o = o' then go (k + 1) r cur acc
        else go (k + 1) r (some (k, o)) (acc ++ [toString lo ++ "-" ++ toString (k - 1) ++ ":" ++ o'])
      | none => go (k + 1) r (some (k, o)) acc
  " ".intercalate (go 0 outs none [])

def cutsOf (s : String) : Option (List Nat) :=
  (s.splitOn ",").foldr (fun x acc => match x.toNat?, acc with
    | some n, some l => some (n :: l)
    | _, _ => none) (some [])

def handle (line : String) : String :=
  match Driver.words line with
  | ["p", h] =>
    match Bytes.ofHex h with
    | some b => run b
    | none => "bad-op"
  | ["a", h] =>
    match Bytes.ofHex h with
    | some b => allPrefixes b
    | none => "bad-op"
  | ["s", cuts, h] =>
    match cutsOf cuts, Bytes.ofHex h with
    | some ks, some b => " ".intercalate (ks.map fun k => toString k ++ ":" ++ run (b.take k))
    | _, _ => "bad-op"
  | ["i", h] =>
    match Bytes.ofHex h with
    | some b =>
      (match IpText.numeric b with
       | some a => "ip " ++ Bytes.toHex a
       | none => "none")
    | none => "bad-op"
  | _ => "bad-op"

end Driver.C38

def main : IO UInt32 := Driver.runPure Driver.C38.handle
