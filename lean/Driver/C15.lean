import Driver.Loop
import SquidModel.RangePack.Respond
open SquidModel SquidModel.RangePack

namespace Driver.C15

def fnv (b : Bytes) : UInt64 :=
  b.foldl (fun h x => (h ^^^ x.toUInt64) * 0x100000001b3) 0xcbf29ce484222325

def hex64 (x : UInt64) : String :=
  String.ofList ((List.range 16).map fun i => Bytes.hexDigit ((x.toNat >>> (4 * (15 - i))) % 16))

def ctypes : Nat → Option (Option Bytes)
  | 0 => some none
  | 1 => some (some "text/plain".toUTF8.toList)
  | 2 => some (some "application/x-verif; charset=utf-8; note=\"a b\"".toUTF8.toList)
  | _ => none

def parseMode : String → Option Mode
  | "miss" => some .miss | "mem" => some .mem | "disk" => some .disk | "fwd" => some .fwd | _ => none

def parseIfr : String → Option (Option ETag)
  | "-" => some none
  | "match" => some (some objTag)
  | "other" => some (some ⟨false, [122, 122]⟩)
  | "weak" => some (some ⟨true, [118, 49]⟩)
  | _ => none

def asText (b : Bytes) : String := String.ofList (b.map fun x => Char.ofNat x.toNat)

def showCr (v : Option Bytes) : String :=
  match v with
  | none => "-"
  | some b => asText (b.drop 6)

def keyX : Bytes := List.replicate 32 88

/-- the store delivery schedule used for the prediction (the theorems make the result independent of it) -/
def sched (seed : Nat) (i : Nat) : Nat := if seed % 2 = 0 then 4096 else 1 + (seed * 131 + i * 977) % 4096

/-- line: `<mode> <method> <n> <seed> <ct> <olen> <range-hex|-> <ifr> <ka> <seg>` -/
def handle (line : String) : String :=
  match Driver.words line with
  | [mode, method, n, seed, ct, olen, rng, ifr, ka, seg] =>
    match parseMode mode, n.toNat?, seed.toNat?, ct.toNat?.bind ctypes, (if rng == "-" then some none else (Bytes.ofHex rng).map some), parseIfr ifr, ka.toNat?, seg.toNat? with
    | some mode, some n, some seed, some ctype, some range, some ifRange, some ka, some seg =>
      if (method != "GET" && method != "HEAD") || (olen != "cl" && olen != "chunked") || ka > 1 || seg < 1 || seg > 3 || n > 1048576 || seed ≥ 251 then "bad-op"
      else if method == "HEAD" && (mode == .fwd || olen == "chunked") then "bad-op"
      else if (match range with | some r => r.any (fun c => c == 13 || c == 10 || c == 0) | none => false) then "bad-op"
      else
        let sc : Scenario := { mode := mode, isHead := method == "HEAD", n := n, seed := seed, ctype := ctype, lenKnown := olen == "cl", range := range, ifRange := ifRange }
        match respond sc keyX 0 (sched seed) with
        | .error e => "model-error:" ++ e
        | .ok r =>
          let src := match mode with | .miss => "TCP_MISS" | .mem => "TCP_MEM_HIT" | .disk => "TCP_HIT" | .fwd => "TCP_MISS"
          let ctHex := match sc.ctype with | some c => c.toHex | none => "-"
          let partStr (c : CSpec) := s!"{c.off}-{c.off + c.len - 1}/{n}:" ++ (if r.multi then ctHex else "-") ++ ":eq"
          let parts := if r.status != 206 || sc.isHead || r.parts.isEmpty then "-" else ";".intercalate (r.parts.map partStr)
          let origin := match r.originSaw with
            | none => "0:-"
            | some none => "1:-"
            | some (some v) => "1:" ++ v.toHex
          s!"{r.status} src={src} cr={showCr r.contRange} cl=" ++ (match r.contentLength with | some k => toString k | none => "-") ++
            " te=" ++ (if r.chunked then "chunked" else "-") ++
            " ct=" ++ (if r.multi then "multi" else match r.ctype with | some c => c.toHex | none => "-") ++
            s!" body={r.body.length}:{hex64 (fnv r.body)} parts={parts} frame=" ++ (if r.multi && !sc.isHead then "exact" else "none") ++
            " trail=" ++ (if ka == 1 then (if r.closeDelimited then "closed" else "ok") else "-") ++
            " skew=-" ++
            " origin=" ++ origin
    | _, _, _, _, _, _, _, _ => "bad-op"
  | _ => "bad-op"

end Driver.C15

def main : IO UInt32 := Driver.runPure Driver.C15.handle
