import Driver.Loop
import SquidModel.Auth.Basic
open SquidModel SquidModel.Auth

namespace Driver.C46

def parseNat (s : String) : Option Nat :=
  if s.isEmpty || s.length > 9 then none else
  s.toList.foldl (fun acc c => match acc with
    | none => none
    | some n => if '0' ≤ c ∧ c ≤ '9' then some (n * 10 + (c.toNat - 48)) else none) (some 0)

/-- the honest helper of the check: the password of user u is "pw-" ++ u -/
def honest (u : Name) (p : Pw) : Bool := p == [112, 119, 45] ++ u

def logName : Option Name → String
  | none => "-"
  | some u => Bytes.toHex u

def showOut : Out → Option String
  | .decoded _ how => some (if how = 1 then "same" else if how = 2 then "swap" else "new")
  | .submit id u p _ => some s!"sub{id}:{Bytes.toHex u}:{Bytes.toHex p}"
  | .queued _ => some "q"
  | .tooLong _ => some "toolong,n407/-"
  | .forward _ u _ => some s!"f200/{Bytes.toHex u}"
  | .challenge _ lg => some s!"n407/{logName lg}"
  | .verdict .. => none

def outTag : Out → Option Nat
  | .submit _ _ _ r => some r.tag
  | .queued r => some r.tag
  | .tooLong r => some r.tag
  | .forward r _ _ => some r.tag
  | .challenge r _ => some r.tag
  | _ => none

def showResumed (outs : List Out) : String :=
  ",".intercalate (outs.filterMap fun o => match outTag o, showOut o with
    | some t, some s => some s!"{t}={s}"
    | _, _ => none)

def waiting (s : St) : List Nat :=
  let inQueues := (List.range s.nrec).flatMap fun i => (s.recs i).queue.map (·.tag)
  (s.lookups.map (·.req.tag) ++ inQueues).mergeSort

def parseCfg (tok : String) : Option Cfg :=
  if !tok.startsWith "c" then none else
  match ((tok.drop 1).toString.splitOn ":").map parseNat with
  | [some ttl, some gcTtl] =>
    some { Cfg.default with ttl := if ttl = 0 then Gen.AuthBasic.defaultCredentialsTTL else ttl,
                            authTtl := if gcTtl = 0 then Gen.AuthBasic.defaultAuthTtl else gcTtl }
  | _ => none

/-- one step token → new state and the token of the observation; `none` = malformed -/
def stepTok (cfg : Cfg) (s : St) (tok : String) : Option (St × String) :=
  if tok.startsWith "a" then
    match (tok.drop 1).toString.splitOn ":" with
    | [t, _conn, h] =>
      match parseNat t, (if h == "." then some none else (Bytes.ofHex h).map some) with
      | some tag, some hdr =>
        let r : Req := { tag := tag, creds := classify cfg.caseSensitive hdr }
        let res := arrive cfg s r
        some (res.1, s!"a{tag}:" ++ ",".intercalate (res.2.filterMap showOut))
      | _, _ => none
    | _ => none
  else if tok.startsWith "r" then
    match parseNat (tok.drop 1).toString with
    | none => none
    | some k =>
      match s.lookups.find? (fun l => l.id = k) with
      | none => some (s, s!"r{k}:skip")
      | some l =>
        let ok := honest (s.recs l.ri).user l.pw
        let res := reply cfg s k ok
        some (res.1, s!"r{k}:{if ok then "o" else "e"}[{showResumed res.2}]")
  else if tok.startsWith "t" then
    match parseNat (tok.drop 1).toString with
    | some d => some ({ s with now := s.now + d }, tok)
    | none => none
  else if tok == "g" then
    let gone := (List.range s.nrec).filter fun i =>
      s.cache (s.recs i).user == some i && decide ((s.recs i).expire + cfg.authTtl ≤ s.now)
    let names := (gone.map fun i => Bytes.toHex (s.recs i).user).mergeSort (fun a b => decide (a ≤ b))
    some (gc cfg s, "g[" ++ ",".intercalate names ++ "]")
  else none

def runToks (cfg : Cfg) : St → List String → Option (St × List String)
  | s, [] => some (s, [])
  | s, t :: ts =>
    match stepTok cfg s t with
    | none => none
    | some (s1, o) => match runToks cfg s1 ts with
      | none => none
      | some (s2, os) => some (s2, o :: os)

/-- line: `c<ttl>:<authTtl> <step> <step> ...` (0 = the built-in default)
steps: `a<tag>:<conn>:<hex header value | . >`, `r<k>` (answer lookup k honestly), `t<seconds>`, `g` -/
def handle (line : String) : String :=
  match Driver.words line with
  | c :: toks =>
    match parseCfg c with
    | none => "bad-op"
    | some cfg =>
      match runToks cfg St.init toks with
      | none => "bad-op"
      | some (s, outs) =>
        let w := waiting s
        " ".intercalate outs ++ (if w.isEmpty then "" else " wait=" ++ ",".intercalate (w.map toString))
  | [] => "bad-op"

end Driver.C46

def main : IO UInt32 := Driver.runPure Driver.C46.handle
