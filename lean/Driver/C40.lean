import Driver.Loop
import SquidModel.Ftp.Addr
import SquidModel.Ftp.Listing
import SquidModel.Ftp.Epsv
open SquidModel SquidModel.Ftp

namespace Driver.C40

/-- 16 address bytes as 32 hex digits -/
def ipHex (ip : Nat) : String :=
  String.ofList ((List.range 32).map fun i => Bytes.hexDigit ((ip / 16 ^ (31 - i)) % 16))

def hexNat (s : String) : Option Nat :=
  s.toList.foldl (fun acc c => match acc, Bytes.hexVal c with
    | some a, some v => some (a * 16 + v)
    | _, _ => none) (some 0)

/-- `<iptext hex>=<32 hex|x>`: what libc's getaddrinfo(AI_NUMERICHOST) says about one IP text -/
def parseHint (w : String) : Option (Bytes × Option Nat) :=
  match w.splitOn "=" with
  | [t, v] =>
    match Bytes.ofHex t with
    | some tb => if v == "x" then some (tb, none) else (hexNat v).map fun n => (tb, some n)
    | none => none
  | _ => none

/-- the model's `ipParse` parameter for one line: the hinted texts, canonical dotted quads otherwise -/
def ipParseOf (hints : List (Bytes × Option Nat)) (t : Bytes) : Option Nat :=
  match hints.find? (fun h => h.1 == t) with
  | some h => h.2
  | none => strictQuad t

def showAddr : AddrResult → String
  | .reject => "reject"
  | .ok ip port => s!"ok {ipHex ip} {port}"

def optHex (w : String) : Option (Option Bytes) :=
  if w == "-" then some none else (Bytes.ofHex w).map some

def noNul (b : Bytes) : Bool := !b.contains 0

def showOpt : Option Bytes → String
  | none => "none"
  | some b => Bytes.toHex b

def handle (line : String) : String :=
  match Driver.words line with
  | "p" :: sanity :: force :: pre :: buf :: hints =>
    match optHex force, optHex pre, Bytes.ofHex buf with
    | some f, some p, some b =>
      if (sanity != "0" && sanity != "1") || !noNul b || !(f.getD []).all (· != 0) || !(p.getD []).all (· != 0) then "bad-op" else
      let ipParse := ipParseOf (hints.filterMap parseHint)
      let addr0 := match p with | none => 0 | some t => assignIp ipParse 0 t
      showAddr (parseIpPort ipParse (sanity == "1") f addr0 b)
    | _, _, _ => "bad-op"
  | "e" :: sanity :: pre :: buf :: hints =>
    match optHex pre, Bytes.ofHex buf with
    | some p, some b =>
      if (sanity != "0" && sanity != "1") || !noNul b || !(p.getD []).all (· != 0) then "bad-op" else
      if b.isEmpty then "reject:empty" else
      let ipParse := ipParseOf (hints.filterMap parseHint)
      let addr0 := match p with | none => 0 | some t => assignIp ipParse 0 t
      showAddr (parseProtoIpPort ipParse (sanity == "1") addr0 b)
    | _, _ => "bad-op"
  | ["l", flags, h] =>
    match flags.toList, Bytes.ofHex h with
    | [n, s], some b =>
      if !noNul b then "bad-op" else
      match listParseParts (n == '1') (s == '1') b with
      | .oob => "model-oob"
      | .null => "null"
      | .parts p => s!"T={p.type.toNat} S={p.size} D={showOpt p.date} N={showOpt p.name} L={showOpt p.link}"
    | _, _ => "bad-op"
  | ["v", sanity, h] =>
    match Bytes.ofHex h with
    | some b =>
      if (sanity != "0" && sanity != "1") || !noNul b then "bad-op" else
      match parseEpsv (sanity == "1") b with
      | .reject => "reject"
      | .ok p => s!"ok {p}"
      | .indeterminate p => s!"indeterminate {p}"
    | none => "bad-op"
  | ["u", h] =>
    match Bytes.ofHex h with
    | some b => if !noNul b then "bad-op" else Bytes.toHex (unescapeDoubleQuoted b)
    | none => "bad-op"
  | _ => "bad-op"

end Driver.C40

def main : IO UInt32 := Driver.runPure Driver.C40.handle
