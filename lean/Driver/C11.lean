import Driver.Loop
import SquidModel.Cache.ReusableNotModified
open SquidModel SquidModel.Cache

namespace Driver.C11

def hexList (s : String) : Option (List Bytes) :=
  if s == "." then some [] else (s.splitOn ",").mapM Bytes.ofHex

def optHex (s : String) : Option (Option Bytes) :=
  if s == "." then some none else (Bytes.ofHex s).map some

/-- `x` = absent, `b` = present but unparsable, else a signed offset in seconds from "now" -/
def timeField (s : String) : Option TimeField :=
  if s == "x" then some .absent
  else if s == "b" then some .bad
  else s.toInt?.map .offset

def optNat (s : String) : Option (Option Nat) :=
  if s == "x" then some none else s.toNat?.map some

def parseCfg : String → Option Cfg
  | "d" => some .default | "n" => some .negativeTtl | "o" => some .overrides | _ => none

def parseSecond : String → Option Second
  | "P" => some .plain | "A" => some .sameAuth | "S" => some .identical | _ => none

def answerName : Answer → String
  | .reuseNot => "reuseNot" | .cachePositively => "cachePositively"
  | .cacheNegatively => "cacheNegatively" | .doNotCacheButShare => "doNotCacheButShare"

def kindName : Kind → String
  | .hit => "hit" | .reval => "reval" | .miss => "miss"

def parseScenario : List String → Option Scenario
  | [cfg, method, auth, reqcc, status, respcc, ctype, date, exp, lm, age, clen, pragma, second] =>
    match parseCfg cfg, hexList reqcc, status.toNat?, hexList respcc, optHex ctype, timeField date, timeField exp, timeField lm,
          optNat age, clen.toNat?, parseSecond second with
    | some cfg, some reqcc, some status, some respcc, some ctype, some date, some exp, some lm, some age, some clen, some second =>
      if !(auth == "0" || auth == "1" || auth == "2") || !(pragma == "0" || pragma == "1") || date == .bad || lm == .bad then none else
      some { cfg := cfg, method := method, authHeader := auth == "1", userInfo := auth == "2", reqCc := reqcc,
             status := status, respCc := respcc, contentType := ctype, date := date, expires := exp, lastModified := lm,
             age := age, contentLength := clen, pragmaNoCache := pragma == "1", second := second }
    | _, _, _, _, _, _, _, _, _, _, _ => none
  | _ => none

def showDecision (d : Decision) : String := "d=" ++ answerName d.answer ++ "|" ++ d.reason.replace " " "_"

/-- line: `<cfg> <method> <auth> <reqcc> <status> <respcc> <ctype> <date> <exp> <lm> <age> <clen> <pragma> <second>`,
    or `R` + the same 14 fields + `<cc of the 304>` for the three-request scenario -/
def handle (line : String) : String :=
  match Driver.words line with
  | "R" :: rest =>
    if rest.length != 15 then "bad-op" else
    match parseScenario (rest.take 14), hexList (rest.getD 14 "") with
    | some sc, some nmcc =>
      let ks := observeNotModified sc nmcc
      showDecision sc.decision ++ " k=" ++ kindName ks.1 ++ " k3=" ++ kindName ks.2 ++ " b=" ++ (match ks.2 with | .miss => "3" | _ => "1")
    | _, _ => "bad-op"
  | ws =>
    match parseScenario ws with
    | some sc =>
      let o := observe sc
      showDecision o.decision ++ " k=" ++ kindName o.kind ++ " b=" ++ toString o.seq
    | none => "bad-op"

end Driver.C11

def main : IO UInt32 := Driver.runPure Driver.C11.handle
