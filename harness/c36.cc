// C36 harness: base64 coding (two implementations) and the Basic credentials split, real code from the stage.
//
// <I> is L (lib/base64.cc compiled with HAVE_NETTLE_BASE64_H undefined, ASan/UBSan instrumented, exact-size
// heap buffers) or N (libnettle through include/base64.h, as the squid binary uses it; not instrumented, so
// every destination buffer is followed by a canary zone that is checked after each call).
//
//   e <I> <hex> <chunks>            init, one encode_update per chunk, final
//        -> <hex of output> n=<count per update>;<count of final> st=<word>/<bits>   (state before final)
//   r <I> <hex>                     base64_encode_raw           -> <hex>
//   g <I> <uint32>                  base64_encode_group         -> <hex>
//   c <I> <word> <bits> <hexbyte>   base64_encode_single from the given context -> <hex> st=<word>/<bits>
//   d <I> <hex> <chunks>            init, one decode_update per chunk (stop at the first failure), final
//        -> ok <hex> st=<word>/<bits>/<padding> | reject:update@<k> <hex of earlier chunks> st=.. | reject:final <hex> st=..
//   s <I> <word> <bits> <padding> <hexbyte>   base64_decode_single from the given context -> <rc> <hexbyte|-> st=..
//   t <I> <hex> <chunks> <chunks>   encode with the first chunking, decode the result with the second -> as d
//   x <I> <n> <lo> <hi>             every byte string of length n whose first byte is in [lo,hi]: every chunking of
//        the encoder must equal the harness' own RFC 4648 encoder, and one-shot / bytewise decoding of that must
//        return the string -> count=<k> bad=<m> digest=<fnv1a64 of all encodings>
//   b|B <c|i> <hex header>          Auth::Basic::Config::decode() with casesensitive on (c) / off (i), utf8 off
//        -> none | user=<hex> pass=<hex|null> deny=<nopass|empty|-> type=<basic|broken>
//   --dump-tables                   decode table, alphabet, length macros and pad limit of both implementations
// <chunks>: "-" = one chunk with everything, else comma separated lengths (the remainder, if any, is a last chunk).
// Any canary damage or a count beyond the size the API promises is reported as a leading "OVF ".
#include "squid.h"
#include "base64.h"
#include "auth/basic/Config.h"
#include "auth/basic/User.h"
#include "auth/basic/UserRequest.h"
#include "auth/CredentialsCache.h"
#include "auth/UserRequest.h"

#define C36_IMPL c36_nettle
#define C36_EXACT false
#include "c36_impl.inc"

#include <cstdio>
#include <cstring>
#include <iostream>
#include <sstream>
#include <string>
#include <vector>

// Link-time stand-ins for two functions of squid (helper.cc, acl/Acl.cc) whose real objects would drag the helper
// and ACL frameworks into the link: helper start-up is never reached; ~Auth::User flushes its (here always empty)
// proxy_match_cache list.
#include "helper.h"
#include "acl/Gadgets.h"
Helper::Client::Pointer Helper::Client::Make(const char *) { abort(); }
void aclCacheMatchFlush(dlink_list *cache) { if (cache->head) abort(); }

static std::string unhex(const std::string &h, bool &ok) {
    std::string r;
    ok = true;
    if (h == "-") return r;
    if (h.size() % 2) { ok = false; return r; }
    for (size_t i = 0; i + 1 < h.size(); i += 2) {
        int v = 0;
        for (int k = 0; k < 2; ++k) {
            const char c = h[i + k];
            v <<= 4;
            if (c >= '0' && c <= '9') v |= c - '0';
            else if (c >= 'a' && c <= 'f') v |= c - 'a' + 10;
            else if (c >= 'A' && c <= 'F') v |= c - 'A' + 10;
            else { ok = false; return r; }
        }
        r.push_back(static_cast<char>(v));
    }
    return r;
}
static std::string hex(const std::string &s) {
    if (s.empty()) return "-";
    static const char *d = "0123456789abcdef";
    std::string r;
    for (unsigned char c : s) { r.push_back(d[c >> 4]); r.push_back(d[c & 15]); }
    return r;
}
static bool parseNum(const std::string &s, unsigned long &v) {
    if (s.empty() || s.size() > 10) return false;
    v = 0;
    for (char c : s) { if (c < '0' || c > '9') return false; v = v * 10 + (c - '0'); }
    return true;
}
static bool splitChunks(const std::string &spec, const std::string &data, std::vector<std::string> &out) {
    out.clear();
    if (spec == "-") { out.push_back(data); return true; }
    size_t pos = 0;
    std::stringstream ss(spec);
    std::string tok;
    while (std::getline(ss, tok, ',')) {
        unsigned long n;
        if (!parseNum(tok, n)) return false;
        const size_t take = std::min<size_t>(n, data.size() - pos);
        out.push_back(data.substr(pos, take));
        pos += take;
    }
    if (pos < data.size()) out.push_back(data.substr(pos));
    return true;
}

/// destination buffer of exactly the promised size; for uninstrumented code a canary zone follows
class Dst {
public:
    Dst(size_t promised, bool exact): n(promised), guard(exact ? 0 : 64) {
        p = static_cast<unsigned char *>(malloc(n + guard ? n + guard : 1));
        memset(p, 0xEE, n + guard);
        for (size_t i = 0; i < guard; ++i) p[n + i] = static_cast<unsigned char>(0xA5 ^ i);
    }
    ~Dst() { free(p); }
    bool intact() const { for (size_t i = 0; i < guard; ++i) if (p[n + i] != static_cast<unsigned char>(0xA5 ^ i)) return false; return true; }
    unsigned char *p;
    size_t n, guard;
};
/// exact-size heap copy of the source (over-reads of instrumented code are seen by ASan)
class Src {
public:
    explicit Src(const std::string &s): n(s.size()) { p = static_cast<unsigned char *>(malloc(n ? n : 1)); memcpy(p, s.data(), n); }
    ~Src() { free(p); }
    unsigned char *p;
    size_t n;
};

static bool encodeChunks(const C36Impl &I, const std::vector<std::string> &chunks, std::string &out, std::string &counts, std::string &st) {
    bool fine = true;
    I.enc_init();
    out.clear(); counts.clear();
    for (const auto &c : chunks) {
        Dst d(I.encode_length(c.size()), I.exact);
        Src s(c);
        const size_t done = I.enc_update(reinterpret_cast<char *>(d.p), s.n, s.p);
        if (done > d.n || !d.intact()) { fine = false; }
        out.append(reinterpret_cast<char *>(d.p), std::min(done, d.n));
        counts += std::to_string(done) + ",";
    }
    if (!counts.empty()) counts.pop_back();
    unsigned w, b;
    I.enc_get(w, b);
    st = std::to_string(w) + "/" + std::to_string(b);
    Dst d(I.final_length, I.exact);
    const size_t done = I.enc_final(reinterpret_cast<char *>(d.p));
    if (done > d.n || !d.intact()) fine = false;
    out.append(reinterpret_cast<char *>(d.p), std::min(done, d.n));
    counts += ";" + std::to_string(done);
    return fine;
}

static std::string decState(const C36Impl &I) {
    unsigned w, b, p;
    I.dec_get(w, b, p);
    return "st=" + std::to_string(w) + "/" + std::to_string(b) + "/" + std::to_string(p);
}

/// -> result line (without OVF prefix); decoded bytes in `bytes` when ok
static std::string decodeChunks(const C36Impl &I, const std::vector<std::string> &chunks, bool &fine, std::string *bytes = nullptr) {
    fine = true;
    I.dec_init();
    std::string out;
    size_t k = 0;
    for (const auto &c : chunks) {
        Dst d(I.decode_length(c.size()), I.exact);
        Src s(c);
        size_t done = 0;
        const int rc = I.dec_update(&done, d.p, s.n, reinterpret_cast<const char *>(s.p));
        if (!d.intact()) fine = false;
        if (!rc)
            return "reject:update@" + std::to_string(k) + " " + hex(out) + " " + decState(I);
        if (done > d.n) fine = false;
        out.append(reinterpret_cast<char *>(d.p), std::min(done, d.n));
        ++k;
    }
    if (!I.dec_final())
        return "reject:final " + hex(out) + " " + decState(I);
    if (bytes) *bytes = out;
    return "ok " + hex(out) + " " + decState(I);
}

// the harness' own encoder, written from RFC 4648 section 4 (bit string cut into sextets)
static std::string refEncode(const std::string &s) {
    static const char *abc = "ABCDEFGHIJKLMNOPQRSTUVWXYZabcdefghijklmnopqrstuvwxyz0123456789+/";
    std::string r;
    unsigned long acc = 0; int nbits = 0;
    for (unsigned char c : s) {
        acc = (acc << 8) | c; nbits += 8;
        while (nbits >= 6) { nbits -= 6; r.push_back(abc[(acc >> nbits) & 63]); }
    }
    if (nbits) r.push_back(abc[(acc << (6 - nbits)) & 63]);
    while (r.size() % 4) r.push_back('=');
    return r;
}

static void compositions(size_t n, std::vector<std::vector<size_t>> &out) {
    // all ways to write n as an ordered sum of positive parts
    out.clear();
    if (n == 0) { out.push_back({}); return; }
    for (unsigned mask = 0; mask < (1u << (n - 1)); ++mask) {
        std::vector<size_t> parts;
        size_t cur = 1;
        for (size_t i = 0; i + 1 < n; ++i) {
            if (mask & (1u << i)) { parts.push_back(cur); cur = 1; } else ++cur;
        }
        parts.push_back(cur);
        out.push_back(parts);
    }
}

static std::string bulk(const C36Impl &I, unsigned long n, unsigned long lo, unsigned long hi) {
    if (n > 3 || lo > hi || hi > 255) return "bad-op";
    unsigned long long count = 0, bad = 0, digest = 14695981039346656037ULL;
    std::vector<std::vector<size_t>> comps;
    compositions(n, comps);
    const unsigned long total = n == 0 ? 1 : (hi - lo + 1) << (8 * (n - 1));
    for (unsigned long idx = 0; idx < total; ++idx) {
        std::string x(n, '\0');
        if (n) {
            unsigned long v = idx;
            for (size_t k = n - 1; k >= 1; --k) { x[k] = static_cast<char>(v & 255); v >>= 8; }
            x[0] = static_cast<char>(lo + v);
        }
        const std::string want = refEncode(x);
        bool ok = true;
        std::string enc0;
        for (size_t ci = 0; ci < comps.size(); ++ci) {
            std::vector<std::string> chunks;
            size_t pos = 0;
            for (size_t len : comps[ci]) { chunks.push_back(x.substr(pos, len)); pos += len; }
            std::string enc, counts, st;
            if (!encodeChunks(I, chunks, enc, counts, st)) ok = false;
            if (enc != want) ok = false;
            if (ci == 0) enc0 = enc;
        }
        // decode what the encoder produced: one update, and one update per character
        bool fine = true;
        std::string got;
        if (decodeChunks(I, {enc0}, fine, &got).compare(0, 3, "ok ") != 0 || got != x || !fine) ok = false;
        std::vector<std::string> single;
        for (char c : enc0) single.push_back(std::string(1, c));
        got.clear();
        if (decodeChunks(I, single, fine, &got).compare(0, 3, "ok ") != 0 || got != x || !fine) ok = false;
        // and the one-shot raw encoder
        {
            Dst d(I.raw_length(x.size()), I.exact);
            Src s(x);
            I.enc_raw(reinterpret_cast<char *>(d.p), s.n, s.p);
            if (!d.intact() || std::string(reinterpret_cast<char *>(d.p), d.n) != want) ok = false;
        }
        for (unsigned char c : enc0) { digest ^= c; digest *= 1099511628211ULL; }
        digest ^= 0xff; digest *= 1099511628211ULL;
        ++count;
        if (!ok) ++bad;
    }
    char buf[128];
    snprintf(buf, sizeof(buf), "count=%llu bad=%llu digest=%016llx", count, bad, digest);
    return buf;
}

static std::string basic(bool caseSensitive, const std::string &hdr) {
    if (hdr.find('\0') != std::string::npos) return "reject:nul";
    static Auth::Basic::Config *cfg = nullptr;
    if (!cfg) cfg = new Auth::Basic::Config;
    cfg->casesensitive = caseSensitive ? 1 : 0;
    cfg->utf8 = 0;
    // exact-size heap copy so that ASan sees any over-read of the header
    char *in = static_cast<char *>(malloc(hdr.size() + 1));
    memcpy(in, hdr.data(), hdr.size());
    in[hdr.size()] = 0;
    std::string res;
    {
        Auth::UserRequest::Pointer r = cfg->decode(in, nullptr, nullptr);
        if (r == nullptr) res = "null-request";
        else if (r->user() == nullptr) res = "none";
        else {
            const auto *u = dynamic_cast<const Auth::Basic::User *>(r->user().getRaw());
            if (!u) res = "not-basic-user";
            else {
                const char *deny = r->getDenyMessage();
                std::string d = "-";
                if (deny && strstr(deny, "no password was present")) d = "nopass";
                else if (deny && strstr(deny, "empty password")) d = "empty";
                else if (deny && *deny) d = "other";
                res = std::string("user=") + (u->username() ? hex(u->username()) : "null") +
                      " pass=" + (u->passwd ? hex(u->passwd) : "null") + " deny=" + d +
                      " type=" + (u->auth_type == Auth::AUTH_BASIC ? "basic" : u->auth_type == Auth::AUTH_BROKEN ? "broken" : "other");
            }
        }
    }
    Auth::Basic::User::Cache()->reset(); // every line starts from an empty credentials cache
    free(in);
    return res;
}

// Size of the cleartext allocation of decodeCleartext, observed through ASan's allocation hooks: the header carries a
// 400 character payload, so the buffer is BASE64_DECODE_LENGTH(400) = 300 bytes plus whatever slack the code adds; no
// other allocation of the call has a size in [300, 364] (the header copy is 401 bytes). The payload is rejected at its
// first character, so nothing is stored and the probe itself cannot overflow a buffer that is too small.
extern "C" int __sanitizer_install_malloc_and_free_hooks(void (*malloc_hook)(const volatile void *, size_t), void (*free_hook)(const volatile void *));
static size_t hookMin = 0;
static bool hookOn = false;
static void mallocHook(const volatile void *, size_t n) { if (hookOn && n >= 300 && n <= 364 && (!hookMin || n < hookMin)) hookMin = n; }
static void freeHook(const volatile void *) {}
static long cleartextAlloc() {
    if (!__sanitizer_install_malloc_and_free_hooks(mallocHook, freeHook)) return -1;
    const std::string hdr = "Basic " + std::string(400, '*');
    hookOn = true;
    (void)basic(true, hdr);
    hookOn = false;
    return hookMin ? static_cast<long>(hookMin) - 300 : -1;
}

static void dumpTables() {
    const C36Impl *impls[2] = {&c36_local, &c36_nettle};
    const char *names[2] = {"local", "nettle"};
    for (int k = 0; k < 2; ++k) {
        const C36Impl &I = *impls[k];
        printf("%s decode", names[k]);
        const signed char *t = I.dec_table();
        for (int i = 0; i < 256; ++i) printf(" %d", t[i]);
        printf("\n%s alphabet", names[k]);
        const char *a = I.alphabet();
        for (int i = 0; i < 64; ++i) printf(" %d", static_cast<unsigned char>(a[i]));
        printf("\n%s decode_length", names[k]);
        for (size_t n = 0; n <= 100; ++n) printf(" %zu", I.decode_length(n));
        printf("\n%s encode_length", names[k]);
        for (size_t n = 0; n <= 100; ++n) printf(" %zu", I.encode_length(n));
        printf("\n%s raw_length", names[k]);
        for (size_t n = 0; n <= 100; ++n) printf(" %zu", I.raw_length(n));
        printf("\n%s final_length %zu\n", names[k], I.final_length);
        // number of pad characters after which another one is refused: '=' offered with bits = 2, word = 0, padding = p
        unsigned lim = 0;
        for (; lim < 8; ++lim) {
            I.dec_init();
            I.dec_set(0, 2, lim);
            uint8_t b = 0;
            if (I.dec_single(&b, '=') != 0) break;
        }
        printf("%s pad_limit %u\n", names[k], lim);
    }
    printf("basic cleartext_extra %ld\n", cleartextAlloc());
}

int main(int argc, char **argv) {
    if (argc > 1 && !strcmp(argv[1], "--dump-tables")) { dumpTables(); return 0; }
    std::string line;
    while (std::getline(std::cin, line)) {
        std::vector<std::string> w;
        { std::stringstream ss(line); std::string t; while (ss >> t) w.push_back(t); }
        std::string res = "bad-op";
        do {
            if (w.size() < 2) break;
            const std::string &op = w[0];
            if (op == "b" || op == "B") { // B: routed to the executable whose Config.cc is compiled against lib/base64.cc
                if (w.size() != 3 || (w[1] != "c" && w[1] != "i")) break;
                bool ok; const std::string h = unhex(w[2], ok);
                if (!ok) break;
                res = basic(w[1] == "c", h);
                break;
            }
            const C36Impl *Ip = w[1] == "L" ? &c36_local : w[1] == "N" ? &c36_nettle : nullptr;
            if (!Ip) break;
            const C36Impl &I = *Ip;
            bool ok = true;
            if (op == "e" && w.size() == 4) {
                const std::string x = unhex(w[2], ok); if (!ok) break;
                std::vector<std::string> chunks; if (!splitChunks(w[3], x, chunks)) break;
                std::string out, counts, st;
                const bool fine = encodeChunks(I, chunks, out, counts, st);
                res = std::string(fine ? "" : "OVF ") + hex(out) + " n=" + counts + " st=" + st;
            } else if (op == "r" && w.size() == 3) {
                const std::string x = unhex(w[2], ok); if (!ok) break;
                Dst d(I.raw_length(x.size()), I.exact);
                Src s(x);
                I.enc_raw(reinterpret_cast<char *>(d.p), s.n, s.p);
                res = std::string(d.intact() ? "" : "OVF ") + hex(std::string(reinterpret_cast<char *>(d.p), d.n));
            } else if (op == "g" && w.size() == 3) {
                unsigned long g; if (!parseNum(w[2], g) || g > 0xffffffffUL) break;
                Dst d(4, I.exact);
                I.enc_group(reinterpret_cast<char *>(d.p), static_cast<uint32_t>(g));
                res = std::string(d.intact() ? "" : "OVF ") + hex(std::string(reinterpret_cast<char *>(d.p), 4));
            } else if (op == "c" && w.size() == 5) {
                unsigned long word, bits; if (!parseNum(w[2], word) || !parseNum(w[3], bits) || word > 65535 || bits > 9) break;
                const std::string x = unhex(w[4], ok); if (!ok || x.size() != 1) break;
                I.enc_init();
                I.enc_set(word, bits);
                Dst d(2, I.exact);
                const size_t done = I.enc_single(reinterpret_cast<char *>(d.p), static_cast<uint8_t>(x[0]));
                unsigned w2, b2; I.enc_get(w2, b2);
                res = std::string(d.intact() && done <= 2 ? "" : "OVF ") + hex(std::string(reinterpret_cast<char *>(d.p), std::min<size_t>(done, 2))) +
                      " st=" + std::to_string(w2) + "/" + std::to_string(b2);
            } else if (op == "d" && w.size() == 4) {
                const std::string x = unhex(w[2], ok); if (!ok) break;
                std::vector<std::string> chunks; if (!splitChunks(w[3], x, chunks)) break;
                bool fine;
                const std::string r = decodeChunks(I, chunks, fine);
                res = std::string(fine ? "" : "OVF ") + r;
            } else if (op == "s" && w.size() == 6) {
                unsigned long word, bits, pad;
                if (!parseNum(w[2], word) || !parseNum(w[3], bits) || !parseNum(w[4], pad) || word > 65535 || bits > 14 || pad > 255) break;
                const std::string x = unhex(w[5], ok); if (!ok || x.size() != 1) break;
                I.dec_init();
                I.dec_set(word, bits, pad);
                Dst d(1, I.exact);
                const int rc = I.dec_single(d.p, x[0]);
                res = std::string(d.intact() ? "" : "OVF ") + std::to_string(rc) + " " + (rc == 1 ? hex(std::string(reinterpret_cast<char *>(d.p), 1)) : "-") + " " + decState(I);
            } else if (op == "t" && w.size() == 5) {
                const std::string x = unhex(w[2], ok); if (!ok) break;
                std::vector<std::string> chunks; if (!splitChunks(w[3], x, chunks)) break;
                std::string out, counts, st;
                bool fine = encodeChunks(I, chunks, out, counts, st);
                std::vector<std::string> dchunks; if (!splitChunks(w[4], out, dchunks)) break;
                bool fine2;
                const std::string r = decodeChunks(I, dchunks, fine2);
                res = std::string(fine && fine2 ? "" : "OVF ") + r;
            } else if (op == "x" && w.size() == 5) {
                unsigned long n, lo, hi;
                if (!parseNum(w[2], n) || !parseNum(w[3], lo) || !parseNum(w[4], hi)) break;
                res = bulk(I, n, lo, hi);
            }
        } while (false);
        puts(res.c_str());
        fflush(stdout);
    }
    return 0;
}
