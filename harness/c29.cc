// C29 harness: the real HttpHdrCc::parse / HttpHdrCc::packInto from the staged tree (ASan/UBSan).
//   p <hex>      -> "<state> pack=<hex> || <state of the re-parsed packed text>"
//                   the field value is given to parse() as a String (exact-size heap copy, NUL-free),
//                   the result is read through the HttpHdrCc accessors only, then packInto() into a MemBuf,
//                   then a fresh HttpHdrCc parses the packed text.
//   i <hex>      -> items of strListGetItem(value, ','): "<n> <hex item> ..."  (splitter alone)
//   n <hex>      -> httpHeaderParseInt on the C string:   "ok <int>" | "fail"
//   q <len> <hex>-> httpHeaderParseQuotedString(start=C string, len): "ok <hex>" | "fail"
//   --dump       -> directive table (ccTypeByName on every spelling), enum order and integer constants
// <state> = ok=<0|1> flags=<comma list|-> ma=<n|-> sm=<n|-> ms=<n|-> mf=<n|-> sie=<n|-> priv=<hex|~> nc=<hex|~> other=<hex>
#include "squid.h"
#include "HttpHdrCc.h"
#include "HttpHeader.h"
#include "HttpHeaderTools.h"
#include "MemBuf.h"
#include "SquidConfig.h"
#include "SquidString.h"
#include "StrList.h"
#include "mem/forward.h"

#include <climits>
#include <cstdio>
#include <cstring>
#include <iostream>
#include <sstream>
#include <string>
#include <vector>

class SquidConfig Config; // the link recipe's test program defines it

static std::string unhex(const std::string &h, bool &ok) {
    std::string r;
    ok = true;
    if (h == "-") return r;
    if (h.size() % 2) { ok = false; return r; }
    for (size_t i = 0; i + 1 < h.size(); i += 2) {
        int v = 0;
        for (int k = 0; k < 2; ++k) {
            const char c = h[i + k];
            int d;
            if (c >= '0' && c <= '9') d = c - '0';
            else if (c >= 'a' && c <= 'f') d = c - 'a' + 10;
            else if (c >= 'A' && c <= 'F') d = c - 'A' + 10;
            else { ok = false; return r; }
            v = v * 16 + d;
        }
        r.push_back(static_cast<char>(v));
    }
    return r;
}
static std::string hex(const char *p, size_t n) {
    if (!n) return "-";
    static const char *d = "0123456789abcdef";
    std::string r;
    for (size_t i = 0; i < n; ++i) { const unsigned char c = p[i]; r.push_back(d[c >> 4]); r.push_back(d[c & 15]); }
    return r;
}
static std::string hex(const std::string &s) { return hex(s.data(), s.size()); }
static std::string hexS(const String &s) { return hex(s.rawBuf(), s.size()); }

struct FlagName { HttpHdrCcType id; const char *name; };
static const FlagName AllTypes[] = {
    {HttpHdrCcType::CC_PUBLIC, "public"}, {HttpHdrCcType::CC_PRIVATE, "private"}, {HttpHdrCcType::CC_NO_CACHE, "no-cache"},
    {HttpHdrCcType::CC_NO_STORE, "no-store"}, {HttpHdrCcType::CC_NO_TRANSFORM, "no-transform"},
    {HttpHdrCcType::CC_MUST_REVALIDATE, "must-revalidate"}, {HttpHdrCcType::CC_PROXY_REVALIDATE, "proxy-revalidate"},
    {HttpHdrCcType::CC_MAX_AGE, "max-age"}, {HttpHdrCcType::CC_S_MAXAGE, "s-maxage"}, {HttpHdrCcType::CC_MAX_STALE, "max-stale"},
    {HttpHdrCcType::CC_MIN_FRESH, "min-fresh"}, {HttpHdrCcType::CC_ONLY_IF_CACHED, "only-if-cached"},
    {HttpHdrCcType::CC_STALE_IF_ERROR, "stale-if-error"}, {HttpHdrCcType::CC_IMMUTABLE, "immutable"},
    {HttpHdrCcType::CC_OTHER, "other"},
};

// the observable state, through the accessors only
static std::string describe(const HttpHdrCc &cc, const bool ok) {
    std::ostringstream o;
    o << "ok=" << (ok ? 1 : 0) << " flags=";
    bool any = false;
    for (const auto &t : AllTypes) {
        // (the CC_OTHER bit is bookkeeping, not a directive: the unknown directives are observed through `other`)
        if (t.id != HttpHdrCcType::CC_OTHER && cc.isSet(t.id)) { o << (any ? "," : "") << t.name; any = true; }
    }
    if (!any) o << "-";
    int32_t v = 0;
    o << " ma="; if (cc.hasMaxAge(&v)) o << v; else o << "-";
    o << " sm="; if (cc.hasSMaxAge(&v)) o << v; else o << "-";
    o << " ms="; if (cc.hasMaxStale(&v)) o << v; else o << "-";
    o << " mf="; if (cc.hasMinFresh(&v)) o << v; else o << "-";
    o << " sie="; if (cc.hasStaleIfError(&v)) o << v; else o << "-";
    const String *s = nullptr;
    o << " priv="; if (cc.hasPrivate(&s)) o << hexS(*s); else o << "~";
    s = nullptr;
    o << " nc="; if (cc.hasNoCache(&s)) o << hexS(*s); else o << "~";
    o << " other=" << hexS(cc.other);
    return o.str();
}

// String over an exact-size heap copy, so that ASan sees every read past the terminator
static String exactString(const std::string &bytes) {
    char *in = new char[bytes.size() + 1];
    memcpy(in, bytes.data(), bytes.size());
    in[bytes.size()] = 0;
    String s;
    s.assign(in, bytes.size());
    delete[] in;
    return s;
}

static std::string doParsePack(const std::string &bytes) {
    const String value = exactString(bytes);
    HttpHdrCc cc;
    const bool ok = cc.parse(value);
    std::string out = describe(cc, ok);
    MemBuf mb;
    mb.init();
    cc.packInto(&mb);
    const std::string packed(mb.content(), mb.contentSize());
    mb.clean();
    out += " pack=" + hex(packed) + " || ";
    if (packed.find('\0') != std::string::npos)
        return out + "packed-nul";
    const String again = exactString(packed);
    HttpHdrCc cc2;
    const bool ok2 = cc2.parse(again);
    out += describe(cc2, ok2);
    return out;
}

static std::string doItems(const std::string &bytes) {
    const String value = exactString(bytes);
    const char *pos = nullptr, *item = nullptr;
    int ilen = 0;
    std::vector<std::string> items;
    while (strListGetItem(&value, ',', &item, &ilen, &pos)) {
        items.push_back(hex(item, ilen));
        if (items.size() > 100000) break;
    }
    std::string out = std::to_string(items.size());
    for (const auto &i : items) out += " " + i;
    return out;
}

static std::string doInt(const std::string &bytes) {
    char *in = new char[bytes.size() + 1];
    memcpy(in, bytes.data(), bytes.size());
    in[bytes.size()] = 0;
    int v = -12345;
    const int ok = httpHeaderParseInt(in, &v);
    delete[] in;
    return ok ? "ok " + std::to_string(v) : std::string("fail");
}

static std::string doQuoted(const long len, const std::string &bytes) {
    if (len < 0 || static_cast<size_t>(len) > bytes.size())
        return "bad-op";
    char *in = new char[bytes.size() + 1];
    memcpy(in, bytes.data(), bytes.size());
    in[bytes.size()] = 0;
    String val;
    const int ok = httpHeaderParseQuotedString(in, static_cast<int>(len), &val);
    delete[] in;
    return ok ? "ok " + hexS(val) : std::string("fail");
}

// ccTypeByName is file-static: observe it through parse() of a single bare directive
// (numeric directives are only recorded with a value: second attempt with "=1")
static int typeOfName(const std::string &name) {
    for (const char *suffix : {"", "=1"}) {
        HttpHdrCc cc;
        cc.parse(exactString(name + suffix));
        for (const auto &t : AllTypes)
            if (t.id != HttpHdrCcType::CC_OTHER && cc.isSet(t.id))
                return static_cast<int>(t.id);
        if (cc.other.size())
            return static_cast<int>(HttpHdrCcType::CC_OTHER);
    }
    return -1;
}

static void dump() {
    // enum order
    for (const auto &t : AllTypes)
        printf("enum %s %d\n", t.name, static_cast<int>(t.id));
    printf("enum_end %d\n", static_cast<int>(HttpHdrCcType::CC_ENUM_END));
    // the name each type is packed under (packInto of a single set flag) and what that name parses to
    for (const auto &t : AllTypes) {
        if (t.id == HttpHdrCcType::CC_OTHER) continue;
        const int got = typeOfName(t.name);
        std::string upper(t.name);
        for (auto &c : upper) c = toupper(c);
        printf("name %s %d upper %d\n", t.name, got, typeOfName(upper));
    }
    printf("name Other %d\n", typeOfName("Other"));
    printf("const MAX_STALE_ANY %d\n", HttpHdrCc::MAX_STALE_ANY);
    printf("const MAX_AGE_UNKNOWN %d\n", HttpHdrCc::MAX_AGE_UNKNOWN);
    printf("const S_MAXAGE_UNKNOWN %d\n", HttpHdrCc::S_MAXAGE_UNKNOWN);
    printf("const MAX_STALE_UNKNOWN %d\n", HttpHdrCc::MAX_STALE_UNKNOWN);
    printf("const STALE_IF_ERROR_UNKNOWN %d\n", HttpHdrCc::STALE_IF_ERROR_UNKNOWN);
    printf("const MIN_FRESH_UNKNOWN %d\n", HttpHdrCc::MIN_FRESH_UNKNOWN);
    printf("const INT_MAX %d\n", INT_MAX);
    printf("const INT_BITS %d\n", static_cast<int>(sizeof(int) * CHAR_BIT));
    printf("const LONG_BITS %d\n", static_cast<int>(sizeof(long) * CHAR_BIT));
    printf("const LONG_MAX %ld\n", LONG_MAX);
    // the C-locale classes the code relies on
    printf("isspace");
    for (int c = 1; c < 256; ++c) if (xisspace(c)) printf(" %d", c);
    printf("\nisdigit");
    for (int c = 1; c < 256; ++c) if (xisdigit(c)) printf(" %d", c);
    printf("\n");
}

int main(int argc, char **argv) {
    Mem::Init();
    if (argc > 1 && !strcmp(argv[1], "--dump")) {
        dump();
        return 0;
    }
    std::string line;
    while (std::getline(std::cin, line)) {
        std::istringstream is(line);
        std::string op, a, b;
        is >> op >> a >> b;
        bool ok = true;
        std::string out;
        if (op == "p" || op == "i" || op == "n") {
            const std::string bytes = unhex(a, ok);
            if (!ok || a.empty()) out = "bad-op";
            else if (bytes.find('\0') != std::string::npos) out = "reject:nul";
            else out = op == "p" ? doParsePack(bytes) : op == "i" ? doItems(bytes) : doInt(bytes);
        } else if (op == "q") {
            const std::string bytes = unhex(b, ok);
            char *endp = nullptr;
            const long len = strtol(a.c_str(), &endp, 10);
            if (!ok || a.empty() || b.empty() || *endp) out = "bad-op";
            else if (bytes.find('\0') != std::string::npos) out = "reject:nul";
            else out = doQuoted(len, bytes);
        } else {
            out = "bad-op";
        }
        puts(out.c_str());
        fflush(stdout);
    }
    return 0;
}
