"""C11 end-to-end harness: the rebuilt squid between a raw client and a counting origin.

One scenario line (see props/C11.py for the fields) = two requests for one fresh URL:
  request 1 (method, Authorization / userinfo, Cache-Control fields as given) is answered by the origin with the scripted response;
  request 2 (plain / same credentials / identical) follows when request 1 is complete.
The origin answers a conditional request 2 with 304 (so a stored copy would be served again) and anything else with the scripted
response again; every full origin response carries `X-Seq: <n>` (its arrival number), a 304 does not.

A line starting with `R` carries one more field (the Cache-Control field lines of the origin's 304) and a third, plain request
follows request 2; its observation is `d=... k=<request 2> k3=<request 3> b=<X-Seq seen by request 3>`.

Observation (one line): `d=<answer>|<reason> k=<hit|reval|miss> b=<n>`
  d  the decision HttpStateData::haveParsedReplyHeaders logged for request 1 (`decided: ...` at debug level 11,3), `none` if absent
  k  what reached the origin for request 2: nothing (hit), a conditional request (reval), an unconditional request (miss)
  b  the X-Seq of the response the client received for request 2 (1 = the stored first response was served)
Each worker thread owns one squid (sequential scenarios, so the log lines of a scenario are the new lines of its own cache.log);
all squids are started up front from the main thread: six with the default configuration, one each for the variants n and o.
"""
import os, re, threading, time, queue
from concurrent.futures import ThreadPoolExecutor
from vf.util import unhx
from e2e import rig

ANSWERS = {
    "do not cache and do not share": "reuseNot",
    "cache positively and share": "cachePositively",
    "cache negatively and share": "cacheNegatively",
    "do not cache but share": "doNotCacheButShare",
}

AUTH_VALUE = "Basic dmVyaWY6c2VjcmV0"   # verif:secret
START_LOCK = threading.Lock()
PROBLEM = re.compile(r"(assertion failed[^\n]*|FATAL[^\n]*|ERROR: AddressSanitizer[^\n]*|runtime error:[^\n]*|BUG[^\n]*)")


def stock_refresh_patterns(stage):
    """the refresh_pattern lines of the default configuration (src/cf.data.pre CONFIG_START block)"""
    text = stage.read("src/cf.data.pre")
    m = re.search(r"^NAME: refresh_pattern\b.*?^CONFIG_START\n(.*?)^CONFIG_END", text, flags=re.S | re.M)
    return "\n".join(l for l in m.group(1).splitlines() if l.startswith("refresh_pattern")) + "\n"


def conf_for(stage, cfg):
    base = "debug_options ALL,1 11,3\n"
    pats = stock_refresh_patterns(stage)
    if cfg == "d":
        return base + pats
    if cfg == "n":
        return base + "negative_ttl 3600 seconds\n" + pats
    if cfg == "o":   # HTTP-violation overrides on the catch-all rule: the property is not claimed here, the model follows
        return base + re.sub(r"(?m)^(refresh_pattern\s+\.\s.*)$", r"\1 ignore-no-store ignore-private", pats)
    raise ValueError(cfg)


class Worker:
    """one squid with one configuration; scenarios run on it one after the other"""

    def __init__(self, stage, origin, wid, cfg):
        self.stage, self.origin, self.wid, self.cfg = stage, origin, wid, cfg
        self.sq = None
        self.n = 0

    def start(self):
        """called from the main thread only (fork + preexec_fn from worker threads can deadlock the child)"""
        err = None
        for attempt in range(4):      # the free port found by the rig can be taken by another process before squid binds it
            try:
                self.sq = rig.Squid(self.stage, conf=conf_for(self.stage, self.cfg)).start(wait=30.0)
                self.sq.log_pos = 0
                return self
            except RuntimeError as e:
                err = e
                time.sleep(0.3 * (attempt + 1))
        raise err

    def squid(self, cfg):
        if cfg != self.cfg:
            raise RuntimeError("scenario for configuration %s routed to a %s squid" % (cfg, self.cfg))
        if self.sq is None or not self.sq.alive():
            with START_LOCK:
                self.start()
        return self.sq

    def new_log(self, s):
        path = os.path.join(s.dir, "cache.log")
        try:
            with open(path, "rb") as f:
                f.seek(s.log_pos)
                data = f.read()
        except OSError:
            return ""
        s.log_pos += len(data)
        return data.decode("latin-1")

    def new_stderr(self, s):
        try:
            with open(os.path.join(s.dir, "stderr.log"), "rb") as f:
                f.seek(getattr(s, "err_pos", 0))
                data = f.read()
        except OSError:
            return ""
        s.err_pos = getattr(s, "err_pos", 0) + len(data)
        return data.decode("latin-1")

    def one(self, line):
        f = line.split(" ")
        three = bool(f) and f[0] == "R"
        nmcc = []
        if three:
            if len(f) != 16:
                return "bad-op"
            try:
                nmcc = [] if f[15] == "." else [unhx(x) for x in f[15].split(",")]
            except ValueError:
                return "bad-op"
            if any(b"\r" in v or b"\n" in v or b"\0" in v for v in nmcc):
                return "bad-op"
            f = f[1:15]
        if len(f) != 14:
            return "bad-op"
        try:
            cfg, method, auth, reqcc, status, respcc, ctype, date, exp, lm, age, clen, pragma, second = f
            reqcc = [] if reqcc == "." else [unhx(x) for x in reqcc.split(",")]
            respcc = [] if respcc == "." else [unhx(x) for x in respcc.split(",")]
            ctype = None if ctype == "." else unhx(ctype)
            status, clen = int(status), int(clen)
            if cfg not in ("d", "n", "o") or auth not in ("0", "1", "2") or second not in ("P", "A", "S") or not re.fullmatch(r"[A-Z-]+", method):
                return "bad-op"
            for v in reqcc + respcc + ([ctype] if ctype else []):
                if b"\r" in v or b"\n" in v or b"\0" in v:
                    return "bad-op"
            offs = {}
            for k, v in (("date", date), ("exp", exp), ("lm", lm)):
                offs[k] = None if v == "x" else ("bad" if v == "b" else int(v))
            age = None if age == "x" else int(age)
        except ValueError:
            return "bad-op"
        sq = self.squid(cfg)
        self.n += 1
        sid = "w%dn%d" % (self.wid, self.n)
        body = b"x" * clen

        def respond(req):
            seq = req["n"] + 1
            cond = rig.hget(req["hdrs"], "if-modified-since") is not None or rig.hget(req["hdrs"], "if-none-match") is not None
            now = time.time()
            h = ["HTTP/1.1 %d %s" % ((304, "Not Modified") if cond else (status, "Scripted"))]
            if offs["date"] is not None:
                h.append("Date: " + rig.date_now(offs["date"]))
            if cond:
                for v in nmcc:
                    h.append("Cache-Control: " + v.decode("latin-1"))
            if not cond:
                for v in respcc:
                    h.append("Cache-Control: " + v.decode("latin-1"))
                if offs["exp"] is not None:
                    h.append("Expires: " + ("0" if offs["exp"] == "bad" else rig.date_now(offs["exp"])))
                if offs["lm"] is not None:
                    h.append("Last-Modified: " + rig.date_now(offs["lm"]))
                if age is not None:
                    h.append("Age: %d" % age)
                if ctype is not None:
                    h.append("Content-Type: " + ctype.decode("latin-1"))
                if pragma == "1":
                    h.append("Pragma: no-cache")
            if not cond:
                h.append("X-Seq: %d" % seq)     # a 304 must not overwrite the stored X-Seq when squid merges its headers
            nobody = cond or method == "HEAD" or status in (204, 304) or status // 100 == 1
            if not cond and status not in (204, 304):
                h.append("Content-Length: %d" % clen)
            data = ("\r\n".join(h) + "\r\n\r\n").encode("latin-1") + (b"" if nobody else body)
            return [("send", data)]

        self.origin.on(sid, respond)
        cred = "verif:secret@" if auth == "2" else ""
        url = "http://%s127.0.0.1:%d/s%s/p" % (cred, self.origin.port, sid)

        def request(with_auth, ccs):
            head = ["%s %s HTTP/1.1" % (method, url), "Host: 127.0.0.1:%d" % self.origin.port]
            if with_auth and auth == "1":
                head.append("Authorization: " + AUTH_VALUE)
            head += ["Cache-Control: " + v.decode("latin-1") for v in ccs]
            if method not in ("GET", "HEAD"):
                head.append("Content-Length: 0")
            head += ["Connection: close", "", ""]
            c = rig.Client(sq.port)
            c.send("\r\n".join(head).encode("latin-1"))
            r = c.response(head_request=(method == "HEAD"))
            c.close()
            return r

        self.new_log(sq)
        r1 = request(True, reqcc)
        log1 = self.new_log(sq)
        if r1 is None:
            return "abort:squid-died" if not sq.alive() else "no-response-1"
        n1 = len(self.origin.requests(sid))
        if n1 != 1:
            return "first-arrivals=%d status=%d" % (n1, r1["status"])
        r2 = request(second in ("A", "S"), reqcc if second == "S" else [])
        if r2 is None:
            return "abort:squid-died" if not sq.alive() else "no-response-2"
        reqs = self.origin.requests(sid)
        dec = re.findall(r"decided: (.*?) because (.*?); HTTP status (\d+)", log1)
        if len(dec) == 1 and dec[0][0] in ANSWERS:
            d = "%s|%s" % (ANSWERS[dec[0][0]], dec[0][1].replace(" ", "_"))
        else:
            d = "none" if not dec else "many"
        def kind(before, after):
            if len(after) == len(before):
                return "hit"
            if len(after) == len(before) + 1:
                q = after[-1]["hdrs"]
                return "reval" if (rig.hget(q, "if-modified-since") is not None or rig.hget(q, "if-none-match") is not None) else "miss"
            return "arrivals=%d" % (len(after) - len(before))
        k = kind(reqs[:1], reqs)
        b = rig.hget(r2["hdrs"], "x-seq", "none")
        if three:
            r3 = request(False, [])
            if r3 is None:
                return "abort:squid-died" if not sq.alive() else "no-response-3"
            reqs3 = self.origin.requests(sid)
            k = "%s k3=%s" % (k, kind(reqs, reqs3))
            b = rig.hget(r3["hdrs"], "x-seq", "none")
        # assertion failures / FATAL / sanitizer reports, looked for in the part of the logs this scenario produced only
        probs = PROBLEM.findall(log1 + self.new_log(sq) + self.new_stderr(sq))
        if probs:
            return "abort:" + re.sub(r"\s+", "_", probs[0])[:160]
        return "d=%s k=%s b=%s" % (d, k, b)

    def close(self):
        if self.sq is not None:
            self.sq.stop()


class Harness:
    LAYOUT = ["d"] * 6 + ["n", "o"]      # six squids with the default configuration, one each for the two variants

    def __init__(self, stage):
        self.stage = stage
        self.origin = rig.Origin()
        self.workers = [Worker(stage, self.origin, i, cfg).start() for i, cfg in enumerate(self.LAYOUT)]
        self.crashes = 0

    def run(self, lines):
        out = [None] * len(lines)
        queues = {"d": queue.Queue(), "n": queue.Queue(), "o": queue.Queue()}
        for i, l in enumerate(lines):
            f = l.split(" ")
            cfg = f[1] if f and f[0] == "R" and len(f) > 1 else (f[0] if f else "")
            if cfg in queues:
                queues[cfg].put((i, l))
            else:
                out[i] = "bad-op"

        def loop(w):
            q = queues[w.cfg]
            while True:
                try:
                    i, l = q.get_nowait()
                except queue.Empty:
                    return
                try:
                    o = w.one(l)
                    if o.startswith(("no-response", "first-arrivals", "abort", "d=none", "d=many")) or "arrivals=" in o:
                        o2 = w.one(l)       # flake guard: such outcomes must repeat
                        if o2 != o:
                            o = w.one(l)
                except Exception as e:   # harness trouble is reported, never hidden
                    o = "abort:harness:%s:%s" % (type(e).__name__, re.sub(r"\s+", "_", str(e))[-300:])
                if o.startswith("abort"):
                    self.crashes += 1
                out[i] = o

        with ThreadPoolExecutor(max_workers=len(self.workers)) as ex:
            list(ex.map(loop, self.workers))
        return out

    def close(self):
        for w in self.workers:
            w.close()
        self.origin.close()
