"""C07 end-to-end rig pieces: a fault-scripted origin, a tiny DNS stub (several A records per name) and the scenario runner.

Scenario line (see props/C07.py):  <cfg> <method> <body> <addrs> <prime> <faults>
  cfg     squid instance: d (defaults) | t (forward_max_tries 2) | p (server_pconn_for_nonretriable allow all) | e (retry_on_error on)
  method  request method token
  body    n (no body headers) | z (Content-Length: 0) | b<k> (k body bytes) | c<k> (chunked, k bytes) | w<k> (Content-Length k, body withheld by the client)
  addrs   the A records of the origin host name in DNS answer order, one digit each: 1..3 = 127.107.0.x where the origin listens,
          4..6 = 127.107.0.x where nothing listens (connection refused); e.g. 12, 412, 3
  prime   0 | 1: a persistent connection to the first address (which must listen) is left idle in squid's pool beforehand
          (a refusing address tried by the priming request may or may not get its ipcache "bad" mark, depending on whether the
          AAAA answer arrived before the refusal: ipcacheMarkBadAddr() only finds entries that are already in the table)
  faults  comma list, one per arrival (connection on which the request's first line became readable), then `ok`:
          ok | pk (close before reading; RST) | hd (close after reading the head) | fr (read whole request, FIN) | rs (read whole request, RST)
          | hf<k> / hr<k> (send k bytes of a reply head, then FIN / RST) | bf<status> / br<status> (whole head, Content-Length 100, 10 body bytes, then FIN / RST)
          | st<status> (complete reply with that status)
Observation:  st=<client status|none> arr=<a1,a2,...|.> m=<method token of the first arrival|->
              with a_i = <address index>[r]  (r = arrived on a reused connection)
"""
import os, re, socket, select, struct, threading, time
from e2e import rig

SLOW = rig.VERIF_SLOW
DOMAIN = "c07.test"
NET = "127.107.0."      # A records handed out by the stub: NET+digit
LIVE = (1, 2, 3)        # the origin listens on NET+1..3; NET+4..6 refuse connections


def addr_index(ip):
    try:
        return int(ip.split(".")[3])
    except (IndexError, ValueError):
        return 0


# ------------------------------------------------------------------------------------------------ DNS stub

class DnsStub:
    """answers A queries for k<K>a<digits>.c07.test with one record 127.107.0.<digit> per digit (in that order); AAAA and others: empty NOERROR"""

    def __init__(self):
        self.sock = None
        pid = os.getpid()
        last = None
        for i in range(200):
            cand = "127.53.%d.%d" % ((pid + i) % 250 + 1, (pid // 250 + i) % 250 + 1)
            s = socket.socket(socket.AF_INET, socket.SOCK_DGRAM)
            try:
                s.bind((cand, 53))
                self.sock, self.addr = s, cand
                break
            except OSError as e:
                last = e
                s.close()
        if self.sock is None:
            raise RuntimeError("cannot bind a DNS stub address: %s" % last)
        self.running = True
        self.queries = 0
        threading.Thread(target=self._loop, daemon=True).start()

    def _loop(self):
        while self.running:
            try:
                data, peer = self.sock.recvfrom(4096)
            except OSError:
                return
            try:
                rep = self._answer(data)
            except Exception:
                rep = None
            if rep:
                try:
                    self.sock.sendto(rep, peer)
                except OSError:
                    pass

    def _answer(self, q):
        if len(q) < 12:
            return None
        tid, flags, qd = struct.unpack(">HHH", q[:6])
        if qd != 1:
            return None
        pos = 12
        labels = []
        while True:
            n = q[pos]
            pos += 1
            if n == 0:
                break
            labels.append(q[pos:pos + n].decode("latin-1").lower())
            pos += n
        qtype, qclass = struct.unpack(">HH", q[pos:pos + 4])
        question = q[12:pos + 4]
        self.queries += 1
        answers = b""
        count = 0
        rcode = 0
        m = re.fullmatch(r"k\d+a([1-6]{1,6})", labels[0]) if labels else None
        if m and ".".join(labels[1:]) == DOMAIN:
            if qtype == 1:
                for i in m.group(1):
                    answers += b"\xc0\x0c" + struct.pack(">HHIH", 1, 1, 3600, 4) + socket.inet_aton(NET + i)
                    count += 1
        else:
            rcode = 3
        hdr = struct.pack(">HHHHHH", tid, 0x8580 | rcode, 1, count, 0, 0)
        return hdr + question + answers

    def close(self):
        self.running = False
        try:
            self.sock.close()
        except OSError:
            pass


# ------------------------------------------------------------------------------------------------ fault-scripted origin

class Scn:
    def __init__(self, sid, faults):
        self.sid = sid
        self.faults = faults
        self.arrivals = []
        self.lock = threading.Lock()


def reply(status, body, extra=(), cl=None):
    reason = {200: "OK", 403: "Forbidden", 500: "Internal Server Error", 501: "Not Implemented", 502: "Bad Gateway", 503: "Service Unavailable", 504: "Gateway Timeout"}.get(status, "Status")
    h = ["HTTP/1.1 %d %s" % (status, reason), "Date: " + rig.date_now(), "Cache-Control: no-store"]
    h += list(extra)
    h.append("Content-Length: %d" % (len(body) if cl is None else cl))
    return ("\r\n".join(h) + "\r\n\r\n").encode() + body


class FaultOrigin:
    def __init__(self):
        self.socks = []
        last = None
        for attempt in range(50):
            socks = []
            try:
                port = 0
                for i in LIVE:
                    s = socket.socket()
                    socks.append(s)
                    s.setsockopt(socket.SOL_SOCKET, socket.SO_REUSEADDR, 1)
                    s.bind((NET + str(i), port))
                    s.listen(512)
                    port = s.getsockname()[1]
                self.socks, self.port = socks, port
                break
            except OSError as e:
                last = e
                for s in socks:
                    s.close()
        if not self.socks:
            raise RuntimeError("cannot bind the origin addresses: %s" % last)
        self.scns = {}
        self.lock = threading.Lock()
        self.running = True
        for s in self.socks:
            threading.Thread(target=self._accept, args=(s,), daemon=True).start()

    def register(self, scn):
        with self.lock:
            self.scns[scn.sid] = scn

    def forget(self, sid):
        with self.lock:
            self.scns.pop(sid, None)

    def _accept(self, sock):
        while self.running:
            try:
                c, _ = sock.accept()
            except OSError:
                return
            threading.Thread(target=self._serve, args=(c,), daemon=True).start()

    @staticmethod
    def _peek_line(c, idle):
        """waits until a whole first line is readable without consuming it -> bytes or None (EOF / reset / idle timeout)"""
        t0 = time.time()
        while time.time() - t0 < idle:
            r, _, _ = select.select([c], [], [], 0.5)
            if not r:
                continue
            try:
                d = c.recv(8192, socket.MSG_PEEK)
            except OSError:
                return None
            if not d:
                return None
            if b"\r\n" in d:
                return d
            time.sleep(0.002)
        return None

    @staticmethod
    def _rst(c):
        try:
            c.setsockopt(socket.SOL_SOCKET, socket.SO_LINGER, struct.pack("ii", 1, 0))
        except OSError:
            pass
        c.close()

    def _serve(self, c):
        served = 0
        try:
            ai = addr_index(c.getsockname()[0])
            while True:
                d = self._peek_line(c, 90 * SLOW)
                if d is None:
                    break
                first = d.split(b"\r\n", 1)[0].decode("latin-1")
                m = re.search(r" /s([A-Za-z0-9_]+)/(\S*)", first)
                sid, path = (m.group(1), m.group(2)) if m else ("?", "")
                with self.lock:
                    scn = self.scns.get(sid)
                if scn is None or path.startswith("prime"):
                    head, rest = rig.read_head(c, b"", timeout=10)
                    if head is None:
                        break
                    _, hdrs = rig.parse_head(head)
                    rig.read_body(c, hdrs, rest)
                    c.sendall(reply(200, b"primed"))
                    served += 1
                    continue
                with scn.lock:
                    j = len(scn.arrivals)
                    fault = scn.faults[j] if j < len(scn.faults) else "ok"
                    rec = {"addr": ai, "reused": served > 0, "fault": fault, "first": first, "body": None, "complete": None}
                    scn.arrivals.append(rec)
                if fault == "pk":
                    c.close()       # unread request bytes: the kernel answers with RST
                    return
                head, rest = rig.read_head(c, b"", timeout=10)
                if head is None:
                    break
                _, hdrs = rig.parse_head(head)
                if fault == "hd":
                    has_body = rig.hget(hdrs, "transfer-encoding") or (rig.hget(hdrs, "content-length") or "0").strip() not in ("0", "")
                    if has_body and not rest:
                        select.select([c], [], [], 0.3 * SLOW)    # let some body bytes arrive (then the close resets), if any are coming
                    c.close()
                    return
                body, rest, complete, framing = rig.read_body(c, hdrs, rest, timeout=3)
                rec["body"], rec["complete"] = body, complete
                kind, arg = fault[:2], fault[2:]
                if kind == "ok" or (kind == "st" and arg.isdigit()):
                    status = 200 if kind == "ok" else int(arg)
                    c.sendall(reply(status, b"reply-%d-to-arrival-%d" % (status, j)))
                    served += 1
                    if not complete:
                        break
                    continue
                if kind == "fr":
                    c.close()
                    return
                if kind == "rs":
                    self._rst(c)
                    return
                if kind in ("hf", "hr") and arg.isdigit():
                    whole = reply(200, b"x" * 20)
                    c.sendall(whole[:int(arg)])
                elif kind in ("bf", "br") and arg.isdigit():
                    c.sendall(reply(int(arg), b"0123456789", cl=100))
                else:
                    c.close()
                    return
                if kind in ("hr", "br"):
                    time.sleep(0.15 * SLOW)     # let squid read the partial reply before the reset discards it
                    self._rst(c)
                else:
                    c.close()
                return
        except OSError:
            pass
        finally:
            try:
                c.close()
            except OSError:
                pass

    def close(self):
        self.running = False
        for s in self.socks:
            try:
                s.close()
            except OSError:
                pass


# ------------------------------------------------------------------------------------------------ scenario runner

CONFS = {
    "d": "",
    "t": "forward_max_tries 2\n",
    "p": "acl all_of_them src all\nserver_pconn_for_nonretriable allow all_of_them\n",
    "e": "retry_on_error on\n",
}
FAULT_RE = re.compile(r"ok|pk|hd|fr|rs|h[fr]\d{1,3}|b[fr]\d{3}|st\d{3}")
METHOD_RE = re.compile(r"[A-Za-z][A-Za-z0-9_-]{0,15}")
BODY_RE = re.compile(r"n|z|[bcw]\d{1,4}")


def parse_line(line):
    p = line.split(" ")
    if len(p) != 6:
        return None
    cfg, method, body, addrs, prime, faults = p
    fl = [] if faults == "." else faults.split(",")
    if cfg not in CONFS or not METHOD_RE.fullmatch(method) or not BODY_RE.fullmatch(body) or not re.fullmatch(r"[1-6]{1,4}", addrs) or prime not in ("0", "1"):
        return None
    if any(not FAULT_RE.fullmatch(f) for f in fl) or len(fl) > 8:
        return None
    if method in ("CONNECT", "PURGE", "PRI"):
        return None
    if len(set(addrs)) != len(addrs) or (prime == "1" and addrs[0] not in "123"):
        return None
    return cfg, method, body, addrs, int(prime), fl


class Runner:
    def __init__(self, stage, cfgs=("d", "t", "p", "e")):
        self.dns = DnsStub()
        self.origin = FaultOrigin()
        self.stage = stage
        self.sq = {}
        self.base = base = ("cache deny all\ndns_nameservers %s\ndns_timeout 10 seconds\nconnect_timeout 20 seconds\nread_timeout 60 seconds\n"
                "request_timeout 60 seconds\nclient_lifetime 10 minutes\n" % self.dns.addr) + os.environ.get("C07_EXTRA_CONF", "")
        self.restart(cfgs)
        self.n = 0
        self.lock = threading.Lock()
        self.crashes = 0

    def restart(self, keys):
        """(re)start the instances `keys`; main thread only (rig.Squid.start forks)"""
        for k in keys:
            old = self.sq.pop(k, None)
            if old is not None:
                try:
                    old.stop(kill=True)
                except Exception:
                    pass
            for attempt in range(4):
                try:
                    self.sq[k] = rig.Squid(self.stage, conf=self.base + CONFS[k]).start(wait=90)
                    break
                except RuntimeError:
                    if attempt == 3:
                        raise

    def squids(self):
        return list(self.sq.values())

    def one(self, line):
        sc = parse_line(line)
        if sc is None:
            return "bad-op"
        cfg, method, body, addrs, prime, faults = sc
        if cfg not in self.sq:
            return "bad-op"
        sq = self.sq[cfg]
        with self.lock:
            self.n += 1
            k = self.n
        sid = "q%d" % k
        host = "k%da%s.%s:%d" % (k, addrs, DOMAIN, self.origin.port)
        scn = Scn(sid, faults)
        self.origin.register(scn)
        try:
            if prime:
                ok = False
                for _ in range(2):
                    c = rig.Client(sq.port, timeout=20)
                    c.send(("GET http://%s/s%s/prime HTTP/1.1\r\nHost: %s\r\n\r\n" % (host, sid, host)).encode())
                    r = c.response()
                    c.close()
                    if r is not None and r["status"] == 200 and r["body"] == b"primed":
                        ok = True
                        break
                if not ok:
                    return "abort:prime-failed" if sq.alive() else "abort:squid-died"
            head = ["%s http://%s/s%s/t HTTP/1.1" % (method, host, sid), "Host: " + host]
            payload = b""
            kind, num = body[0], int(body[1:] or 0)
            if kind == "z":
                head.append("Content-Length: 0")
            elif kind == "b":
                payload = bytes(65 + i % 26 for i in range(num))
                head.append("Content-Length: %d" % num)
            elif kind == "w":
                head.append("Content-Length: %d" % num)
            elif kind == "c":
                data = bytes(97 + i % 26 for i in range(num))
                payload = (b"%x\r\n" % num + data + b"\r\n" if num else b"") + b"0\r\n\r\n"
                head.append("Transfer-Encoding: chunked")
            head.append("Connection: close")
            c = rig.Client(sq.port, timeout=25)
            c.send(("\r\n".join(head) + "\r\n\r\n").encode() + payload)
            r = c.response(head_request=(method == "HEAD"))
            c.close()
            if not sq.alive():
                return "abort:squid-died"
            time.sleep(0.02 * SLOW)
            with scn.lock:
                arr = list(scn.arrivals)
        finally:
            self.origin.forget(sid)
        st = "none" if r is None else str(r["status"])
        seen = arr[0]["first"].split(" ")[0] if arr else "-"
        return "st=%s arr=%s m=%s" % (st, ",".join("%d%s" % (a["addr"], "r" if a["reused"] else "") for a in arr) if arr else ".", seen)

    def close(self):
        for s in self.sq.values():
            s.stop()
        self.origin.close()
        self.dns.close()
