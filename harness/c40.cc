// C40 harness: the real Ftp::ParseIpPort / Ftp::ParseProtoIpPort (src/ftp/Parsing.cc, compiled from the stage with
// ASan/UBSan) and the real ftpListParseParts (file-static in src/clients/FtpGateway.cc; its text is extracted from the
// staged source by props/C40.py into c40_listparts.inc, which this file includes).
//
//   p <sanity 0|1> <force hex|-> <pre hex|-> <buf hex> [hint ...]   Ftp::ParseIpPort(buf, force, addr)
//   e <sanity 0|1> <pre hex|-> <buf hex> [hint ...]                 Ftp::ParseProtoIpPort(buf, addr)
//        pre  = IP text loaded into `addr` before the call ('-' = default-constructed Ip::Address, what every caller passes)
//        hint = <iptext hex>=<32 hex|x>: what libc says about an IP text (used by the Lean driver only; ignored here)
//        ->  ok <32 hex of the 16 address bytes> <port>   |   reject   |   reject:empty (caller-guarded precondition)
//   l <n 0|1><s 0|1> <line hex>                                      ftpListParseParts(line, flags{tried_nlst=n, skip_whitespace=s})
//        ->  null | T=<type byte> S=<size> D=<date hex> N=<name hex> L=<link hex|none>
//   v <sanity 0|1> <reply hex>                                       the port extraction of Ftp::Client::handleEpsvReply (statements cut
//        out of src/clients/FtpClient.cc into c40_epsv.inc)  ->  ok <port> | reject
//   u <hex>                                                          Ftp::UnescapeDoubleQuoted -> hex
//   --dump                                                           constants used by the model (MAX_IPSTRLEN, w_space, ...)
//
// Every C string handed to the code under test lives in an exact-size heap block, so any read past the terminator is an
// ASan report.
#include "squid.h"
#include "ftp/Parsing.h"
#include "ip/Address.h"
#include "MemBuf.h"
#include "SquidConfig.h"
#include "debug/Stream.h"

#include <climits>
#include <cstdio>
#include <cstdlib>
#include <cstring>
#include <ctime>
#include <iostream>
#include <regex.h>
#include <string>
#include <vector>

// ---- the extracted listing parser -------------------------------------------------------------------------------
#include "c40_listparts.inc"

// ---- the extracted EPSV reply scan ---------------------------------------------------------------------------------
namespace c40epsv {
struct FakeConn { const char *remote = "peer"; };
struct FakeCtrl { FakeConn *conn; char *last_reply; };
/// the statements of Ftp::Client::handleEpsvReply between the strcspn() line and `remoteAddr = ...`, unedited;
/// `return sendPassive();` (= the reply is not used) becomes `return false`
static bool scan(FakeCtrl &ctrl, long &outPort) {
    auto sendPassive = []() { return false; };
    char *buf = nullptr;
#include "c40_epsv.inc"
    outPort = port;
    return true;
}
}

// ---- helpers -----------------------------------------------------------------------------------------------------
static bool unhex(const std::string &h, std::string &r) {
    r.clear();
    if (h == "-") return true;
    if (h.size() % 2) return false;
    for (size_t i = 0; i + 1 < h.size(); i += 2) {
        int v = 0;
        for (int k = 0; k < 2; ++k) {
            const char c = h[i + k];
            int d;
            if (c >= '0' && c <= '9') d = c - '0';
            else if (c >= 'a' && c <= 'f') d = c - 'a' + 10;
            else if (c >= 'A' && c <= 'F') d = c - 'A' + 10;
            else return false;
            v = v * 16 + d;
        }
        r.push_back(static_cast<char>(v));
    }
    return true;
}
static std::string hex(const char *s, size_t n) {
    if (!n) return "-";
    static const char *d = "0123456789abcdef";
    std::string r;
    for (size_t i = 0; i < n; ++i) { const unsigned char c = s[i]; r.push_back(d[c >> 4]); r.push_back(d[c & 15]); }
    return r;
}
static std::string hex(const char *s) { return hex(s, strlen(s)); }

/// exact-size NUL-terminated heap copy
struct CStr {
    char *p;
    explicit CStr(const std::string &s) : p(new char[s.size() + 1]) { memcpy(p, s.data(), s.size()); p[s.size()] = 0; }
    ~CStr() { delete[] p; }
};

static std::vector<std::string> words(const std::string &line) {
    std::vector<std::string> w;
    size_t i = 0;
    while (i < line.size()) {
        while (i < line.size() && line[i] == ' ') ++i;
        size_t j = i;
        while (j < line.size() && line[j] != ' ') ++j;
        if (j > i) w.push_back(line.substr(i, j - i));
        i = j;
    }
    return w;
}

static std::string showAddr(const Ip::Address &a) {
    struct in6_addr in6;
    a.getInAddr(in6);
    return "ok " + hex(reinterpret_cast<const char *>(in6.s6_addr), 16) + " " + std::to_string(a.port());
}

static bool preload(const std::string &preHex, Ip::Address &addr) {
    if (preHex == "-") return true;
    std::string t;
    if (!unhex(preHex, t) || t.find('\0') != std::string::npos) return false;
    CStr c(t);
    addr = c.p;
    return true;
}

static std::string doPasv(const std::vector<std::string> &w) {
    if (w.size() < 5 || (w[1] != "0" && w[1] != "1")) return "bad-op";
    std::string force, buf;
    if (!unhex(w[2], force) || !unhex(w[4], buf)) return "bad-op";
    if (force.find('\0') != std::string::npos || buf.find('\0') != std::string::npos) return "bad-op";
    Config.Ftp.sanitycheck = (w[1] == "1");
    Ip::Address addr;
    if (!preload(w[3], addr)) return "bad-op";
    CStr b(buf);
    bool ok;
    if (w[2] == "-") {
        ok = Ftp::ParseIpPort(b.p, nullptr, addr);
    } else {
        CStr f(force);
        ok = Ftp::ParseIpPort(b.p, f.p, addr);
    }
    return ok ? showAddr(addr) : "reject";
}

static std::string doEprt(const std::vector<std::string> &w) {
    if (w.size() < 4 || (w[1] != "0" && w[1] != "1")) return "bad-op";
    std::string buf;
    if (!unhex(w[3], buf) || buf.find('\0') != std::string::npos) return "bad-op";
    if (buf.empty()) return "reject:empty"; // Ftp::Server::handleEprtRequest answers 501 before calling the parser
    Config.Ftp.sanitycheck = (w[1] == "1");
    Ip::Address addr;
    if (!preload(w[2], addr)) return "bad-op";
    CStr b(buf);
    return Ftp::ParseProtoIpPort(b.p, addr) ? showAddr(addr) : "reject";
}

static std::string doList(const std::vector<std::string> &w) {
    if (w.size() != 3 || w[1].size() != 2) return "bad-op";
    std::string line;
    if (!unhex(w[2], line) || line.find('\0') != std::string::npos) return "bad-op";
    Ftp::GatewayFlags flags;
    memset(&flags, 0, sizeof(flags));
    flags.tried_nlst = (w[1][0] == '1');
    flags.skip_whitespace = (w[1][1] == '1');
    CStr b(line);
    ftpListParts *p = ftpListParseParts(b.p, flags);
    if (!p) return "null";
    std::string r = "T=" + std::to_string(static_cast<unsigned char>(p->type));
    r += " S=" + std::to_string(static_cast<long long>(p->size));
    r += " D=" + (p->date ? hex(p->date) : std::string("none"));
    r += " N=" + (p->name ? hex(p->name) : std::string("none"));
    r += " L=" + (p->link ? hex(p->link) : std::string("none"));
    ftpListPartsFree(&p);
    return r;
}

static std::string doEpsv(const std::vector<std::string> &w) {
    if (w.size() != 3 || (w[1] != "0" && w[1] != "1")) return "bad-op";
    std::string reply;
    if (!unhex(w[2], reply) || reply.find('\0') != std::string::npos) return "bad-op";
    Config.Ftp.sanitycheck = (w[1] == "1");
    CStr b(reply);
    c40epsv::FakeConn conn;
    c40epsv::FakeCtrl ctrl{&conn, b.p};
    long port = -1;
    if (!c40epsv::scan(ctrl, port)) return "reject";
    return "ok " + std::to_string(port);
}

static std::string doUnescape(const std::vector<std::string> &w) {
    if (w.size() != 2) return "bad-op";
    std::string s;
    if (!unhex(w[1], s) || s.find('\0') != std::string::npos) return "bad-op";
    CStr b(s);
    const char *r = Ftp::UnescapeDoubleQuoted(b.p);
    return r ? hex(r) : "null";
}

int main(int argc, char **argv) {
    setenv("TZ", "UTC", 1);
    tzset();
    if (argc > 1 && !strcmp(argv[1], "--dump")) {
        printf("MAX_IPSTRLEN %d\n", static_cast<int>(MAX_IPSTRLEN));
        printf("LONG_MAX %ld\n", LONG_MAX);
        printf("INT_BITS %d\n", static_cast<int>(sizeof(int) * 8));
        printf("LLONG_MAX %lld\n", LLONG_MAX);
        printf("W_SPACE %s\n", hex(w_space).c_str());
        printf("MAX_TOKENS %d\n", static_cast<int>(MAX_TOKENS));
        for (int i = 0; i < 12; ++i)
            printf("MONTH %s\n", hex(Month[i]).c_str());
        time_t zero = 0;
        std::string ct = ctime(&zero);
        printf("CTIME0 %s\n", hex(ct.c_str()).c_str());
        std::string sp;
        for (int c = 1; c < 256; ++c)
            if (isspace(c)) sp.push_back(static_cast<char>(c));
        printf("ISSPACE %s\n", hex(sp.c_str()).c_str());
        return 0;
    }
    std::string line;
    while (std::getline(std::cin, line)) {
        const auto w = words(line);
        std::string out;
        if (w.empty()) out = "bad-op";
        else if (w[0] == "p") out = doPasv(w);
        else if (w[0] == "e") out = doEprt(w);
        else if (w[0] == "l") out = doList(w);
        else if (w[0] == "v") out = doEpsv(w);
        else if (w[0] == "u") out = doUnescape(w);
        else out = "bad-op";
        puts(out.c_str());
        fflush(stdout);
    }
    return 0;
}
