// C41 harness: the real ACLDomainData (src/acl/DomainData.cc: parse -> Acl::SplayInserter<char*>::Merge -> Splay<char*>,
// match -> Splay::find with aclHostDomainCompare) and the real matchDomainName (src/anyp/Uri.cc), compiled from the stage with
// ASan/UBSan, fed through the real ConfigParser::strtokFile.
//
//   d <val>,<val>,...|~  <host>,<host>,...|~
//        values: hex byte strings (the ACL parameters in configuration order); hosts: hex byte strings, "-" = the empty host.
//        The harness joins the values with single spaces into one configuration line, seeds ConfigParser with it and calls
//        ACLDomainData::parse(); then ACLDomainData::match(host) for every host in order (match() splays the tree).
//     -> ok <events>|~ <shape> <bits>|~ <shape>
//        events = what Merge reported while parsing, in order, joined with ',':
//                 n<new>/<old>  "Ignoring <new> because it is already covered by <old>"
//                 o<old>/<new>  "Ignoring earlier <old> because it is covered by <new>"
//                 c<new>/<old>  "Merging overlapping ..." (MakeCombinedValue; cannot be printed: it asserts first)
//        shape  = the splay tree after parse() / after the last match(): node = '(' left hex(value) right ')', nil = '' ,
//                 the empty tree = "~"; bits = one 0/1 per host.
//     -> reject:exception:<partial-overlap|multi-dot|other>   parse() threw (Assure in MakeCombinedValue / a tree with the
//                               candidate fix refusing a value that begins with two dots)
//     -> reject:harness-token   a value that ConfigParser would not hand to parse() verbatim
//     -> the process dies with a sanitizer report (the framework turns that into abort:<summary>) or with exit 87
//        "hang" when one line takes longer than 120 s (Merge never terminates)
//   m <flags> <host> <domain>  -> the int matchDomainName(host, domain, flags) returns (hex or "-" = empty)
//   --dump-tolower             -> 256 lines "<byte> <xtolower(byte)>" (table used by the model)
#include "squid.h"
#include "acl/DomainData.h"
#include "acl/Acl.h"
#include "acl/Gadgets.h"
#include "anyp/Uri.h"
#include "cache_cf.h"
#include "ConfigParser.h"
#include "debug/Stream.h"
#include "sbuf/SBuf.h"
#include "wordlist.h"
#include "Parsing.h"
#include "compat/xis.h"

#include <cctype>
#include <climits>
#include <csignal>
#include <cstdio>
#include <cstring>
#include <iostream>
#include <sstream>
#include <string>
#include <unistd.h>
#include <vector>

// ---- cache_cf.cc surface (what tests/stub_cache_cf.o provides), with a throwing self_destruct ----------------
const char *cfg_directive = nullptr;
const char *cfg_filename = nullptr;
int config_lineno = 0;
char config_input_line[BUFSIZ] = {};
struct SelfDestruct {};
void self_destruct(void) { throw SelfDestruct(); }
static void notNeeded(const char *what) { fprintf(stderr, "harness: unexpected call of %s\n", what); abort(); }
void parse_int(int *) { notNeeded("parse_int"); }
void parse_onoff(int *) { notNeeded("parse_onoff"); }
void parse_eol(char *volatile *) { notNeeded("parse_eol"); }
void parse_wordlist(wordlist **) { notNeeded("parse_wordlist"); }
void requirePathnameExists(const char *, const char *) {}
void parse_time_t(time_t *) { notNeeded("parse_time_t"); }
void ConfigParser::ParseUShort(unsigned short *) { notNeeded("ParseUShort"); }
void ConfigParser::ParseWordList(wordlist **) { notNeeded("ParseWordList"); }
void parseBytesOptionValue(size_t *, const char *, char const *) { notNeeded("parseBytesOptionValue"); }
void dump_acl_access(StoreEntry *, const char *, acl_access *) { notNeeded("dump_acl_access"); }
void dump_acl_list(StoreEntry *, ACLList *) { notNeeded("dump_acl_list"); }

// ---- debug sink (what tests/stub_debug.o provides) that remembers the important messages ----------------------
static std::string LastMessages;
char *Debug::debugOptions;
char *Debug::cache_log = nullptr;
int Debug::rotateNumber = 0;
int Debug::Levels[MAX_DEBUG_SECTIONS];
int Debug::override_X = 0;
bool Debug::log_syslog = false;
void Debug::ForceAlert() {}
void ResyncDebugLog(FILE *) {}
FILE *DebugStream() { return stderr; }
void _db_rotate_log(void) {}
void Debug::FormatStream(std::ostream &buf)
{
    const static std::ostringstream cleanStream;
    buf.flags(cleanStream.flags() | std::ios::fixed);
    buf.width(cleanStream.width());
    buf.precision(2);
    buf.fill(' ');
}
void Debug::LogMessage(const Context &context)
{
    if (context.level > DBG_IMPORTANT)
        return;
    LastMessages += context.buf.str();
    LastMessages += "\n";
}
std::ostream &Debug::Extra(std::ostream &os) { FormatStream(os); os << "\n    "; return os; }
bool Debug::StderrEnabled() { return false; }
void Debug::PrepareToDie() {}
void Debug::parseOptions(char const *) {}
Debug::Context *Debug::Current = nullptr;
Debug::Context::Context(const int aSection, const int aLevel):
    section(aSection), level(aLevel), sectionLevel(Levels[aSection]), upper(Current), forceAlert(false)
{
    FormatStream(buf);
}
std::ostringstream &Debug::Start(const int section, const int level)
{
    Current = new Context(section, level);
    return Current->buf;
}
void Debug::Finish()
{
    if (Current) {
        LogMessage(*Current);
        delete Current;
        Current = nullptr;
    }
}
std::ostream &ForceAlert(std::ostream &s) { return s; }

// ---- line protocol ---------------------------------------------------------------------------------------
static bool unhex(const std::string &h, std::string &out)
{
    out.clear();
    if (h == "-") return true;
    if (h.empty() || h.size() % 2) return false;
    for (size_t i = 0; i < h.size(); i += 2) {
        int v = 0;
        for (int k = 0; k < 2; ++k) {
            const char c = h[i + k];
            int d;
            if (c >= '0' && c <= '9') d = c - '0';
            else if (c >= 'a' && c <= 'f') d = c - 'a' + 10;
            else return false;
            v = v * 16 + d;
        }
        out.push_back(static_cast<char>(v));
    }
    return true;
}

static std::string hex(const std::string &s)
{
    if (s.empty()) return "-";
    static const char *d = "0123456789abcdef";
    std::string r;
    for (const unsigned char c : s) { r.push_back(d[c >> 4]); r.push_back(d[c & 15]); }
    return r;
}

static std::vector<std::string> splitOn(const std::string &s, char sep)
{
    std::vector<std::string> r;
    size_t p = 0;
    for (;;) {
        const size_t q = s.find(sep, p);
        if (q == std::string::npos) { r.push_back(s.substr(p)); break; }
        r.push_back(s.substr(p, q - p));
        p = q + 1;
    }
    return r;
}

/// whether ConfigParser::strtokFile() (default mode) hands this byte string to the caller unchanged, as one token
static bool verbatimToken(const std::string &t)
{
    if (t.empty()) return false;
    if (t[0] == '#' || t[0] == '"' || t[0] == '\'') return false;
    for (const char c : t)
        if (c == '\0' || c == ' ' || c == '\t' || c == '\n' || c == '\r') return false;
    return true;
}

static void shapeOf(const SplayNode<char *> *n, std::string &out)
{
    if (!n) return;
    out += '(';
    shapeOf(n->left, out);
    out += hex(n->data);
    shapeOf(n->right, out);
    out += ')';
}

static std::string shape(const ACLDomainData &acl)
{
    if (!acl.domains.head) return "~";   // harness is compiled with -fno-access-control
    std::string s;
    shapeOf(acl.domains.head, s);
    return s;
}

/// the Merge() warnings squid logged, as events
static std::string eventsOf(const std::string &log)
{
    std::string ev;
    std::istringstream is(log);
    std::string l;
    while (std::getline(is, l)) {
        std::istringstream ws(l);
        std::vector<std::string> w;
        std::string x;
        while (ws >> x) w.push_back(x);
        std::string e;
        // WARNING: Ignoring earlier <old> because it is covered by <new>
        if (w.size() >= 10 && w[0] == "WARNING:" && w[1] == "Ignoring" && w[2] == "earlier" && w[4] == "because" && w[7] == "covered")
            e = "o" + hex(w[3]) + "/" + hex(w[9]);
        // WARNING: Ignoring <new> because it is already covered by <old>
        else if (w.size() >= 10 && w[0] == "WARNING:" && w[1] == "Ignoring" && w[3] == "because" && w[6] == "already")
            e = "n" + hex(w[2]) + "/" + hex(w[9]);
        else if (w.size() >= 6 && w[0] == "WARNING:" && w[1] == "Merging")
            e = "c" + hex(w[3]) + "/" + hex(w[5]);
        if (!e.empty()) {
            if (!ev.empty()) ev += ',';
            ev += e;
        }
    }
    return ev.empty() ? "~" : ev;
}

static std::string handleD(const std::string &vals, const std::string &hostsField)
{
    std::vector<std::string> tokens;
    if (vals != "~") {
        for (const auto &h : splitOn(vals, ',')) {
            std::string t;
            if (h == "-" || !unhex(h, t)) return "bad-op";
            tokens.push_back(t);
        }
    }
    std::vector<std::string> hosts;
    if (hostsField != "~") {
        for (const auto &h : splitOn(hostsField, ',')) {
            std::string t;
            if (!unhex(h, t)) return "bad-op";
            if (t.find('\0') != std::string::npos) return "bad-op";
            hosts.push_back(t);
        }
    }
    for (const auto &t : tokens)
        if (!verbatimToken(t)) return "reject:harness-token";
    ConfigParser::RecognizeQuotedValues = ConfigParser::StrictMode = false;

    std::string cfg;
    for (size_t i = 0; i < tokens.size(); ++i) {
        if (i) cfg += ' ';
        cfg += tokens[i];
    }
    // exact-size heap buffer so that ASan sees over-reads; ConfigParser keeps pointers into it only during parse()
    char *buf = new char[cfg.size() + 1];
    memcpy(buf, cfg.c_str(), cfg.size() + 1);
    ConfigParser::SetCfgLine(buf);
    LastMessages.clear();

    ACLDomainData acl;
    std::string result;
    try {
        acl.parse();
    } catch (const SelfDestruct &) {
        result = "reject:self-destruct";
    } catch (const std::exception &e) {
        // Assure() in MakeCombinedValue throws a TextException
        result = std::string("reject:exception:") + (strstr(e.what(), "cannot partially overlap") ? "partial-overlap" :
                                                     strstr(e.what(), "two dots") ? "multi-dot" : "other");
    }
    ConfigParser::SetCfgLine(nullptr); // frees the token copies the parser made
    delete[] buf;
    if (!result.empty())
        return result;

    const std::string events = eventsOf(LastMessages);
    const std::string shape1 = shape(acl);
    if (acl.empty() != (shape1 == "~"))
        return "harness-inconsistency:empty()";
    std::string bits;
    for (const auto &h : hosts) {
        // exact-size heap copy of the host so that ASan sees any over/under-read of matchDomainName
        char *hb = new char[h.size() + 1];
        memcpy(hb, h.c_str(), h.size() + 1);
        bits += acl.match(hb) ? '1' : '0';
        delete[] hb;
    }
    if (bits.empty()) bits = "~";
    return "ok " + events + " " + shape1 + " " + bits + " " + shape(acl);
}

static std::string handleM(const std::string &flags, const std::string &hh, const std::string &dh)
{
    std::string h, d;
    if (!unhex(hh, h) || !unhex(dh, d)) return "bad-op";
    if (h.find('\0') != std::string::npos || d.find('\0') != std::string::npos) return "bad-op";
    if (flags.size() != 1 || flags[0] < '0' || flags[0] > '3') return "bad-op";
    char *hb = new char[h.size() + 1];
    memcpy(hb, h.c_str(), h.size() + 1);
    char *db = new char[d.size() + 1];
    memcpy(db, d.c_str(), d.size() + 1);
    const int r = matchDomainName(hb, db, static_cast<MatchDomainNameFlags>(flags[0] - '0'));
    delete[] hb;
    delete[] db;
    return std::to_string(r);
}

static std::string handle(const std::string &line)
{
    std::istringstream is(line);
    std::string op, a, b, c, extra;
    if (!(is >> op)) return "bad-op";
    if (op == "d") {
        if (!(is >> a >> b) || (is >> extra)) return "bad-op";
        return handleD(a, b);
    }
    if (op == "m") {
        if (!(is >> a >> b >> c) || (is >> extra)) return "bad-op";
        return handleM(a, b, c);
    }
    return "bad-op";
}

static void onAlarm(int)
{
    static const char msg[] = "harness: line takes longer than 120 s (hang)\n";
    (void)!write(2, msg, sizeof(msg) - 1);
    _exit(87);
}

int main(int argc, char **argv)
{
    if (argc > 1 && !strcmp(argv[1], "--dump-tolower")) {
        for (int c = 0; c < 256; ++c)
            printf("%d %d\n", c, static_cast<int>(xtolower(static_cast<char>(c))));
        return 0;
    }
    for (auto &l : Debug::Levels) l = DBG_IMPORTANT; // Merge() warnings are logged at level 1
    signal(SIGALRM, onAlarm);
    std::string line;
    while (std::getline(std::cin, line)) {
        std::string out;
        alarm(120);
        try {
            out = handle(line);
        } catch (const std::exception &e) {
            out = std::string("exception:") + e.what();
        }
        alarm(0);
        puts(out.c_str());
        fflush(stdout);
    }
    return 0;
}
