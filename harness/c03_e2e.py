"""C03 end-to-end half: a recording origin that delimits what Squid sends with the strict reference parser, and the
scenario runner that pushes one client byte stream through the staged squid binary.

Scenario templates address the origin as 127.0.0.1:54321 and carry the scenario id as the 8 characters SSSSSSSS in every
request target (/c03/SSSSSSSS/<tag>); both are substituted (same lengths) before the bytes are sent, so offsets computed on
the template are offsets of the bytes on the wire.
"""
import socket, threading, time, re
from e2e import rig
from harness.c03_ref import ref_message, adler

FAKE_AUTH = b"127.0.0.1:54321"
FAKE_SID = b"SSSSSSSS"


class RawOrigin:
    """Accepts connections, records every byte, delimits complete requests with the strict reference parser and answers each
    with a small 200. Requests are attributed to scenarios by the id in their target."""

    def __init__(self):
        while True:
            self.sock = socket.socket()
            self.sock.setsockopt(socket.SOL_SOCKET, socket.SO_REUSEADDR, 1)
            self.sock.bind(("127.0.0.1", 0))
            self.port = self.sock.getsockname()[1]
            if 10000 <= self.port <= 99999:
                break
            self.sock.close()
        self.sock.listen(512)
        self.lock = threading.Lock()
        self.seen = {}        # sid -> list of records
        self.order = 0
        self.running = True
        threading.Thread(target=self._accept, daemon=True).start()

    def authority(self):
        return b"127.0.0.1:%d" % self.port

    def records(self, sid):
        with self.lock:
            return list(self.seen.get(sid, []))

    def _accept(self):
        while self.running:
            try:
                c, _ = self.sock.accept()
            except OSError:
                return
            threading.Thread(target=self._serve, args=(c,), daemon=True).start()

    def _note(self, sid, rec):
        with self.lock:
            self.order += 1
            rec["order"] = self.order
            self.seen.setdefault(sid, []).append(rec)

    def _serve(self, c):
        buf = b""
        pos = 0
        sid = None
        c.settimeout(20 * rig.VERIF_SLOW)
        try:
            while True:
                if sid is None:      # attribute the connection to its scenario even when nothing on it can be parsed
                    ms = re.search(rb"/c03/([A-Za-z0-9]{8})/", buf)
                    if ms:
                        sid = ms.group(1).decode()
                # delimit as many complete requests as the buffer holds
                while pos < len(buf):
                    r = ref_message(buf, pos)
                    if r[0] == "incomplete":
                        break
                    if r[0] == "reject":
                        self._note(sid or "?", {"junk": r[1], "raw": buf[pos:pos + 200]})
                        return
                    m = r[1]
                    mt = re.search(rb"/c03/([A-Za-z0-9]{8})/([A-Za-z0-9]+)", m.target)
                    if mt:
                        sid = mt.group(1).decode()
                    ncl = sum(1 for n, v in m.fields if n == b"content-length")
                    nte = sum(1 for n, v in m.fields if n == b"transfer-encoding")
                    self._note(sid or "?", {"method": m.method, "target": m.target, "tag": mt.group(2).decode() if mt else "?",
                                            "body": m.body, "tol": sorted(set(m.tol)), "ncl": ncl, "nte": nte, "framing": m.framing,
                                            "head": buf[m.start:m.head_end]})
                    pos = m.end
                    if r[0] == "connect":
                        return
                    body = b"" if m.method == b"HEAD" else b"ok"
                    c.sendall(b"HTTP/1.1 200 OK\r\nDate: " + rig.date_now().encode() + b"\r\nContent-Length: 2\r\nCache-Control: no-store\r\n\r\n" + body)
                try:
                    d = c.recv(65536)
                except (socket.timeout, OSError):
                    d = b""
                if not d:
                    if pos < len(buf):
                        self._note(sid or "?", {"junk": "incomplete-at-eof", "raw": buf[pos:pos + 200]})
                    return
                buf += d
        except OSError:
            pass
        finally:
            try:
                c.close()
            except OSError:
                pass

    def close(self):
        self.running = False
        try:
            self.sock.close()
        except OSError:
            pass


def substitute(template, authority, sid):
    assert len(authority) == len(FAKE_AUTH) and len(sid) == len(FAKE_SID)
    return template.replace(FAKE_AUTH, authority).replace(FAKE_SID, sid)


def run_scenario(squid_port, origin, sid, template, cuts, sentinel_tag, timeout=6.0):
    """-> observation string: F=<method hex>:<tag>:<body length>:<adler>,... J=<junk notes> R=<statuses> E=<closed|open|timeout>
    A=<origin port> S=<scenario id>   (checksums are over the bytes on the wire: the oracle substitutes A and S into the template)"""
    data = substitute(template, origin.authority(), sid.encode())
    c = socket.create_connection(("127.0.0.1", squid_port), timeout=timeout * rig.VERIF_SLOW)
    got = bytearray()
    closed = [False]

    def reader():
        c.settimeout(0.25)
        while True:
            try:
                d = c.recv(65536)
            except socket.timeout:
                if closed[0]:
                    return
                continue
            except OSError:
                closed[0] = True
                return
            if not d:
                closed[0] = True
                return
            got.extend(d)
    th = threading.Thread(target=reader, daemon=True)
    th.start()
    pos = 0
    try:
        for a in list(cuts) + [len(data)]:
            a = min(a, len(data))
            if a > pos:
                c.sendall(data[pos:a])
                pos = a
                if a < len(data):
                    time.sleep(0.004 * rig.VERIF_SLOW)
    except OSError:
        pass
    deadline = time.time() + timeout * rig.VERIF_SLOW
    settled = False
    while time.time() < deadline:
        recs = origin.records(sid)
        if closed[0]:
            settled = True
            break
        if sentinel_tag is not None and any(r.get("tag") == sentinel_tag for r in recs):
            settled = True
            # the sentinel reached the origin: everything before it has been processed; let its response come back
            t1 = time.time() + 1.0 * rig.VERIF_SLOW
            want = got.count(b"HTTP/1.")
            while time.time() < t1 and not closed[0]:
                time.sleep(0.01)
                if got.count(b"HTTP/1.") > want or got.endswith(b"ok"):
                    break
            break
        time.sleep(0.01)
    # settle: allow in-flight origin records to land
    time.sleep(0.03 * rig.VERIF_SLOW)
    end = "closed" if closed[0] else ("open" if settled else "timeout")
    closed[0] = True
    try:
        c.close()
    except OSError:
        pass
    recs = sorted(origin.records(sid), key=lambda r: r["order"])
    fw, junk = [], []
    for r in recs:
        if "junk" in r:
            junk.append(r["junk"] + "/" + r["raw"][:24].hex())
            continue
        notes = ""
        if r["ncl"] > 1 or (r["ncl"] and r["nte"]) or r["nte"] > 1:
            notes = "!framing-fields-cl%d-te%d" % (r["ncl"], r["nte"])
        elif r["tol"]:
            notes = "!" + "+".join(r["tol"])
        fw.append("%s:%s:%d:%d%s" % (r["method"].hex(), r["tag"], len(r["body"]), adler(r["body"]), notes))
    statuses = re.findall(rb"HTTP/1\.[01] (\d{3})", bytes(got))
    return "F=%s J=%s R=%s E=%s A=%d S=%s" % (",".join(fw) or "-", ",".join(junk) or "-", ",".join(s.decode() for s in statuses) or "-", end,
                                              origin.port, sid)
