// C14 in-process harness: the real StoreEntry::hasOneOfEtags / modifiedSince (src/store.cc), etagParseInit /
// etagIs*Equal (src/ETag.cc), strListGetItem / strListIsMember (src/StrList.cc), HttpHeader::parse / getList / getETag
// (src/HttpHeader.cc) from the staged tree, built with ASan/UBSan and linked like tests/testRock (which links the real
// store.cc; HttpRequest is a stub there, so hasIfMatchEtag / hasIfNoneMatchEtag are replayed as their two lines:
// getList(id) + hasOneOfEtags(list, allowWeak) with allowWeak = false resp. !ranged && (GET || HEAD); the harness is
// compiled with -fno-access-control to reach the private hasOneOfEtags).
//
//   c <etag> <lm> <ts> <method> <ranged> <inm> <im> <ims>
//       etag: n | hex value of the reply's ETag field      lm: n | seconds (Last-Modified as time_t)   ts: entry timestamp
//       method: G | H | P      ranged: 0 | 1      inm, im: n | comma separated hex field values (one header line each)
//       ims: n | seconds
//   -> im=<0|1|-> inm=<0|1|-> mod=<0|1|->      ('-' = header absent; mod = StoreEntry::modifiedSince(ims))
//   -> reject:header   when HttpHeader::parse refuses the request or reply header block
#include "squid.h"
#include "ETag.h"
#include "HttpHeader.h"
#include "HttpReply.h"
#include "MemObject.h"
#include "SquidConfig.h"
#include "Store.h"
#include "StrList.h"
#include "http/ContentLengthInterpreter.h"
#include "mem/forward.h"

#include <cstdio>
#include <cstring>
#include <iostream>
#include <sstream>
#include <string>
#include <vector>

static bool unhex(const std::string &h, std::string &r) {
    r.clear();
    if (h == "-") return true;
    if (h.size() % 2) return false;
    for (size_t i = 0; i + 1 < h.size(); i += 2) {
        int v = 0;
        for (int k = 0; k < 2; ++k) {
            const char c = h[i + k];
            int d;
            if (c >= '0' && c <= '9') d = c - '0';
            else if (c >= 'a' && c <= 'f') d = c - 'a' + 10;
            else return false;
            v = v * 16 + d;
        }
        r.push_back(static_cast<char>(v));
    }
    return true;
}

static bool fields(const std::string &tok, const char *name, std::string &block, bool &present) {
    present = tok != "n";
    if (!present) return true;
    std::stringstream ss(tok);
    std::string item, v;
    while (std::getline(ss, item, ',')) {
        if (!unhex(item, v)) return false;
        for (const char c : v) if (c == '\r' || c == '\n' || c == '\0') return false;
        block += name;
        block += ": ";
        block += v;
        block += "\r\n";
    }
    return true;
}

static std::string handle(const std::string &line) {
    std::stringstream ss(line);
    std::string op, etag, lm, ts, method, ranged, inm, im, ims;
    if (!(ss >> op >> etag >> lm >> ts >> method >> ranged >> inm >> im >> ims) || op != "c") return "bad-op";
    std::string rest;
    if (ss >> rest) return "bad-op";

    // the cached reply
    std::string repBlock;
    bool hasEtag = false;
    if (!fields(etag, "ETag", repBlock, hasEtag)) return "bad-op";
    const HttpReplyPointer rep(new HttpReply);
    rep->sline.set(Http::ProtocolVersion(1, 1), Http::scOkay, nullptr);
    if (!repBlock.empty()) {
        Http::ContentLengthInterpreter interp;
        if (!rep->header.parse(repBlock.data(), repBlock.size(), interp)) return "reject:header";
    }
    StoreEntry *e = new StoreEntry();
    e->createMemObject("http://verif.test/c14", "http://verif.test/c14", Http::METHOD_GET);
    e->mem().replaceBaseReply(rep);
    char *end = nullptr;
    e->timestamp = static_cast<time_t>(strtoll(ts.c_str(), &end, 10));
    e->lastModified(lm == "n" ? -1 : static_cast<time_t>(strtoll(lm.c_str(), &end, 10)));

    // the request header
    HttpHeader reqHdr(hoRequest);
    const bool isGetOrHead = method == "G" || method == "H";
    const bool isRanged = ranged == "1";
    std::string reqBlock;
    bool hasInm = false, hasIm = false;
    if (!fields(inm, "If-None-Match", reqBlock, hasInm) || !fields(im, "If-Match", reqBlock, hasIm)) return "bad-op";
    if (!reqBlock.empty()) {
        Http::ContentLengthInterpreter interp;
        if (!reqHdr.parse(reqBlock.data(), reqBlock.size(), interp)) return "reject:header";
    }
    // header.has() is what processConditional asks
    hasInm = reqHdr.has(Http::HdrType::IF_NONE_MATCH);
    hasIm = reqHdr.has(Http::HdrType::IF_MATCH);

    std::string out = "im=";
    out += hasIm ? (e->hasOneOfEtags(reqHdr.getList(Http::HdrType::IF_MATCH), false) ? "1" : "0") : "-";
    out += " inm=";
    out += hasInm ? (e->hasOneOfEtags(reqHdr.getList(Http::HdrType::IF_NONE_MATCH), !isRanged && isGetOrHead) ? "1" : "0") : "-";
    out += " mod=";
    if (ims == "n")
        out += "-";
    else
        out += e->modifiedSince(static_cast<time_t>(strtoll(ims.c_str(), &end, 10))) ? "1" : "0";

    reqHdr.clean();
    e->destroyMemObject();
    delete e;
    return out;
}

int main(int, char **) {
    Mem::Init();
    std::string line;
    while (std::getline(std::cin, line)) {
        std::cout << handle(line) << "\n";
        std::cout.flush();
    }
    return 0;
}
