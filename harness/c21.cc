// C21/C22 harness: the real Http1::RequestParser from the staged tree (ASan/UBSan), driven the way
// ConnStateData::parseHttpRequest() drives it: `parse(inBuf); inBuf = remaining();`, new bytes appended to inBuf.
//
//   p <relaxed 0|1> <limit> <seg-hex>...   -> "<incremental outcome> | <one-shot outcome>"
//        incremental: one parser, segments appended one by one until the parser is done (then the rest is not fed);
//        one-shot: a fresh parser given the concatenation of all segments in a single call.
//        outcome:  more st=<N|F|M> c=<consumed>
//                  ok m=<method image hex> g=<is GET 0|1> u=<uri hex> v=<major>.<minor> h=<mime block hex> c=<consumed>
//                  rej s=<status> c=<consumed>
//   l <relaxed 0|1> <hex>                  -> what the parser made of the first line of <hex> (limit 1 MiB):
//                  incomplete | reject:<status> | accept m=<hex> g=<0|1> u=<hex> v=<major>.<minor>
//   --dump  -> file-local character sets, method table and limits (used by translate/http1_request.py)
#include "squid.h"

#include <cstdio>
#include <cstring>
#include <iostream>
#include <sstream>
#include <string>
#include <vector>
#include <map>
#include <list>
#include <memory>
#include <algorithm>
#include "sbuf/SBuf.h"
#include "base/CharacterSet.h"
#include "anyp/ProtocolVersion.h"
#include "http/RequestMethod.h"

#define private public
#define protected public
#include "http/one/RequestParser.h"
#undef private
#undef protected

// the code under test, in this translation unit so that its file-static pieces can be dumped
#include "http/one/Parser.cc"
#include "http/one/RequestParser.cc"

#include "http/MethodType.h"
#include "http/RequestMethod.h"
#include "SquidConfig.h"
#include "SquidString.h"

#include <cstdio>
#include <cstring>
#include <iostream>
#include <sstream>
#include <string>
#include <vector>

static bool unhex(const std::string &h, std::string &r) {
    r.clear();
    if (h == "-") return true;
    if (h.size() % 2) return false;
    for (size_t i = 0; i < h.size(); i += 2) {
        int v = 0;
        for (int k = 0; k < 2; ++k) {
            const char c = h[i + k];
            int d;
            if (c >= '0' && c <= '9') d = c - '0';
            else if (c >= 'a' && c <= 'f') d = c - 'a' + 10;
            else if (c >= 'A' && c <= 'F') d = c - 'A' + 10;
            else return false;
            v = v * 16 + d;
        }
        r.push_back(static_cast<char>(v));
    }
    return true;
}
static std::string hex(const char *p, size_t n) {
    if (!n) return "-";
    static const char *d = "0123456789abcdef";
    std::string r;
    for (size_t i = 0; i < n; ++i) { const unsigned char c = p[i]; r.push_back(d[c >> 4]); r.push_back(d[c & 15]); }
    return r;
}
static std::string hex(const SBuf &s) { return hex(s.rawContent(), s.length()); }

// exact-size heap copy: ASan sees any over-read of the input
static SBuf exact(const std::string &s) {
    char *p = new char[s.size() ? s.size() : 1];
    memcpy(p, s.data(), s.size());
    SBuf b(p, s.size());
    delete[] p;
    return b;
}

static char stageLetter(const Http1::RequestParser &hp) {
    switch (hp.parsingStage_) {
    case Http1::HTTP_PARSE_NONE: return 'N';
    case Http1::HTTP_PARSE_FIRST: return 'F';
    case Http1::HTTP_PARSE_MIME: return 'M';
    case Http1::HTTP_PARSE_DONE: return 'D';
    default: return '?';
    }
}

static std::string fields(const Http1::RequestParser &hp) {
    std::ostringstream os;
    os << "m=" << hex(hp.method().image()) << " g=" << (hp.method() == Http::METHOD_GET ? 1 : 0)
       << " u=" << hex(hp.requestUri()) << " v=" << hp.messageProtocol().major << "." << hp.messageProtocol().minor;
    return os.str();
}

static std::string outcome(const Http1::RequestParser &hp, const bool parsedOk, const size_t fed) {
    std::ostringstream os;
    const size_t consumed = fed - hp.remaining().length();
    if (hp.needsMoreData()) {
        os << "more st=" << stageLetter(hp) << " c=" << consumed;
        if (parsedOk) os << " BUG-parsed-while-needing-more";
    } else if (parsedOk) {
        os << "ok " << fields(hp) << " h=" << hex(hp.mimeHeader()) << " c=" << consumed;
        if (hp.parseStatusCode != Http::scOkay) os << " BUG-status=" << static_cast<int>(hp.parseStatusCode);
    } else {
        os << "rej s=" << static_cast<int>(hp.parseStatusCode) << " c=" << consumed;
    }
    return os.str();
}

static std::string runIncremental(const std::vector<std::string> &segs) {
    Http1::RequestParser hp;
    SBuf inBuf;
    size_t fed = 0;
    bool ok = false;
    for (const auto &s : segs) {
        if (!hp.needsMoreData())
            break; // the caller acts on the result; this parser sees no more bytes
        // fresh exact-size allocation of what the connection buffer holds now
        std::string cur(inBuf.rawContent(), inBuf.length());
        cur += s;
        inBuf = exact(cur);
        fed += s.size();
        ok = hp.parse(inBuf);
        inBuf = hp.remaining();
    }
    return outcome(hp, ok, fed);
}

static std::string runOneShot(const std::string &all) {
    Http1::RequestParser hp;
    const SBuf inBuf = exact(all);
    const bool ok = hp.parse(inBuf);
    return outcome(hp, ok, all.size());
}

static std::string runLine(const std::string &all) {
    Http1::RequestParser hp;
    const SBuf inBuf = exact(all);
    (void)hp.parse(inBuf);
    if (hp.parseStatusCode == Http::scNone)
        return "incomplete";
    // scOkay is set when the request line has been accepted; later stages may only change it to 431
    const bool lineAccepted = hp.parsingStage_ == Http1::HTTP_PARSE_MIME ||
                              (hp.parsingStage_ == Http1::HTTP_PARSE_DONE &&
                               (hp.parseStatusCode == Http::scOkay || hp.parseStatusCode == Http::scRequestHeaderFieldsTooLarge));
    if (!lineAccepted)
        return "reject:" + std::to_string(static_cast<int>(hp.parseStatusCode));
    return "accept " + fields(hp);
}

static void dumpSet(const char *name, const CharacterSet &s) {
    printf("set %s ", name);
    for (int i = 0; i < 256; ++i) putchar(s[static_cast<unsigned char>(i)] ? '1' : '0');
    putchar('\n');
}

static int dump() {
    dumpSet("UriValid", UriValidCharacters());
    dumpSet("RelaxedDelims", RelaxedDelimiterCharacters());
    dumpSet("LineChars", LineCharacters());
    Config.onoff.relaxed_header_parser = 0;
    dumpSet("StrictDelims", Http1::Parser::DelimiterCharacters());
    dumpSet("StrictTarget", Http1::RequestParser::RequestTargetCharacters());
    Config.onoff.relaxed_header_parser = 1;
    dumpSet("RelaxedDelimsVia", Http1::Parser::DelimiterCharacters());
    dumpSet("RelaxedTarget", Http1::RequestParser::RequestTargetCharacters());
    for (int m = Http::METHOD_NONE + 1; m < Http::METHOD_OTHER; ++m)
        printf("method %s\n", hex(Http::MethodType_sb[m]).c_str());
    printf("const getIndex %d\n", static_cast<int>(Http::METHOD_GET) - (static_cast<int>(Http::METHOD_NONE) + 1));
    printf("const maxUriLength %lu\n", static_cast<unsigned long>(String::RawSizeMaxXXX()));
    // maxMethodLength is a function-local constant: the longest method the strict parser accepts
    Config.onoff.relaxed_header_parser = 0;
    Config.maxRequestHeaderSize = 1 << 20;
    unsigned long longest = 0;
    for (unsigned long n = 1; n <= 200; ++n) {
        const std::string line = std::string(n, 'A') + " / HTTP/1.1\r\n";
        if (runLine(line).compare(0, 6, "accept") == 0)
            longest = n;
    }
    printf("const maxMethodLength %lu\n", longest);
    // behaviour probes: are the candidate repairs of notes/fixes/C21-*.diff present in this tree?
    {   // C21-cr-split: the relaxed parser keeps waiting in stage NONE while it only holds a CR
        Config.onoff.relaxed_header_parser = 1;
        Config.maxRequestHeaderSize = 65536;
        Http1::RequestParser hp;
        (void)hp.parse(exact("\r"));
        printf("flag fixCr %d\n", hp.parsingStage_ == Http1::HTTP_PARSE_NONE ? 1 : 0);
    }
    {   // C21-line-limit: a complete first line of at least request_header_max_size bytes gets the verdict of the length check
        Config.onoff.relaxed_header_parser = 0;
        Config.maxRequestHeaderSize = 64;
        Http1::RequestParser hp;
        (void)hp.parse(exact("GET /" + std::string(70, 'a') + " HTTP/1.1\r\n\r\n"));
        printf("flag fixLine %d\n", hp.parseStatusCode == Http::scUriTooLong ? 1 : 0);
    }
    return 0;
}

int main(int argc, char **argv) {
    // (the unit-test link recipe this harness follows stubs libmem: no Mem::Init() needed)
    if (argc > 1 && !strcmp(argv[1], "--dump"))
        return dump();
    std::string line;
    while (std::getline(std::cin, line)) {
        std::istringstream is(line);
        std::string op;
        is >> op;
        std::string out = "bad-op";
        if (op == "p") {
            int relaxed = -1;
            long long limit = -1;
            is >> relaxed >> limit;
            std::vector<std::string> segs;
            std::string tk, all;
            bool good = (relaxed == 0 || relaxed == 1) && limit >= 0 && !is.fail();
            while (good && (is >> tk)) {
                std::string b;
                if (!unhex(tk, b)) { good = false; break; }
                segs.push_back(b);
                all += b;
            }
            if (good) {
                Config.onoff.relaxed_header_parser = relaxed;
                Config.maxRequestHeaderSize = static_cast<size_t>(limit);
                out = runIncremental(segs) + " | " + runOneShot(all);
            }
        } else if (op == "l") {
            int relaxed = -1;
            std::string tk, b;
            is >> relaxed >> tk;
            if ((relaxed == 0 || relaxed == 1) && !is.fail() && unhex(tk, b)) {
                Config.onoff.relaxed_header_parser = relaxed;
                Config.maxRequestHeaderSize = 1 << 20;
                out = runLine(b);
            }
        }
        puts(out.c_str());
        fflush(stdout);
    }
    return 0;
}
