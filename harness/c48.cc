// C48 harness: the real SBuf / MemBlob (src/sbuf/SBuf.cc, MemBlob.cc compiled from the stage with ASan/UBSan).
//
// One input line is one whole history over K SBuf variables:
//     s <K> <alloc> <op> <op> ...          alloc: x = memAllocBuf returns exactly the requested size,
//                                                 c = rounded up to the size classes given by --classes=a,b,c,...
//                                          (a process serves one policy: `c` lines when started with --classes, else `x`)
// Every op is one comma separated token (numbers decimal, byte strings hex, '-' = empty); see `applyOp` below.
// One output line: per op  <result>|<i>=<hex>,...|<v0>:<v1>:...#<b0>:<b1>:...   joined by single spaces
//     result    value of the call, `ok`, or `throw` (an exception left the SBuf method)
//     the second field is `corrupt` (and the line ends) when some object's off_+len_ exceeds its blob's size
//     i=hex     contents (toStdString) of every variable whose contents differ from before the op
//     v         blob.off.len of every variable; blob 0 = the prototype store, others numbered by first appearance
//     b         size.cap.refs of every blob named in v (in number order)
// Memory of every blob is a malloc() of exactly `capacity` bytes, so ASan sees every byte written past it.
// Compiled with -fno-access-control: off_/len_/store_ are read (never written) for the internals column.
//     --dump-consts    prints maxSize, npos, bits of size_type
#include "squid.h"
#include "base/CharacterSet.h"
#include "mem/forward.h"
#include "sbuf/SBuf.h"

#include <cstdio>
#include <cstring>
#include <iostream>
#include <map>
#include <sstream>
#include <string>
#include <vector>

// ---- the libmem stub of the unit tests, except memAllocBuf/memFreeBuf which are ours -------------------------
#define memAllocBuf c48_unused_memAllocBuf
#define memFreeBuf c48_unused_memFreeBuf
#define memReallocBuf c48_unused_memReallocBuf
#include "tests/stub_libmem.cc"
#undef memAllocBuf
#undef memFreeBuf
#undef memReallocBuf

static std::vector<size_t> g_classes;   // ascending; requests above the last class are served exactly
static bool g_use_classes = false;

static size_t grossSize(size_t net) {
    if (g_use_classes)
        for (size_t c : g_classes)
            if (net <= c) return c;
    return net;
}

void *memAllocBuf(size_t net_size, size_t *gross_size) {
    const size_t g = grossSize(net_size);
    if (gross_size) *gross_size = g;
    return xmalloc(g);   // exactly `capacity` bytes: redzone right behind
}
void memFreeBuf(size_t, void *buf) { xfree(buf); }
void *memReallocBuf(void *, size_t, size_t *) { abort(); }

// ---- helpers ---------------------------------------------------------------------------------------------------
static bool unhex(const std::string &h, std::string &r) {
    r.clear();
    if (h == "-") return true;
    if (h.size() % 2) return false;
    for (size_t i = 0; i < h.size(); i += 2) {
        int v = 0;
        for (int k = 0; k < 2; ++k) {
            const char c = h[i + k];
            int d;
            if (c >= '0' && c <= '9') d = c - '0';
            else if (c >= 'a' && c <= 'f') d = c - 'a' + 10;
            else return false;
            v = v * 16 + d;
        }
        r.push_back(static_cast<char>(v));
    }
    return true;
}
static std::string hex(const std::string &s) {
    if (s.empty()) return "-";
    static const char *d = "0123456789abcdef";
    std::string r;
    r.reserve(s.size() * 2);
    for (unsigned char c : s) { r.push_back(d[c >> 4]); r.push_back(d[c & 15]); }
    return r;
}
static bool num(const std::string &s, uint64_t &v) {
    if (s.empty() || s.size() > 12) return false;
    v = 0;
    for (char c : s) { if (c < '0' || c > '9') return false; v = v * 10 + (c - '0'); }
    return true;
}
static std::vector<std::string> split(const std::string &s, char sep) {
    std::vector<std::string> r;
    std::string cur;
    for (char c : s) { if (c == sep) { r.push_back(cur); cur.clear(); } else cur.push_back(c); }
    r.push_back(cur);
    return r;
}
static std::string sign(int v) { return v < 0 ? "-1" : v > 0 ? "1" : "0"; }
static std::string pos(SBuf::size_type p) { return p == SBuf::npos ? "npos" : std::to_string(p); }

struct BadOp {};

struct Args {
    std::vector<std::string> f;
    unsigned K;
    unsigned var(size_t i) const {
        uint64_t v;
        if (i >= f.size() || !num(f[i], v) || v >= K) throw BadOp();
        return static_cast<unsigned>(v);
    }
    SBuf::size_type n(size_t i) const {      // a size_type argument: anything up to 2^32-1
        uint64_t v;
        if (i >= f.size() || !num(f[i], v) || v > 0xffffffffULL) throw BadOp();
        return static_cast<SBuf::size_type>(v);
    }
    std::string bytes(size_t i) const {
        std::string r;
        if (i >= f.size() || !unhex(f[i], r)) throw BadOp();
        return r;
    }
    void arity(size_t k) const { if (f.size() != k) throw BadOp(); }
};

static CharacterSet makeSet(const std::string &members) {
    CharacterSet cs("c48", "");
    for (unsigned char c : members) cs.add(c);
    return cs;
}

// the raw source area j.rawContent()+p' of n' bytes, clamped into j's contents (the harness never reads outside)
static void clampArea(const SBuf &s, SBuf::size_type &p, SBuf::size_type &n) {
    if (p > s.length()) p = s.length();
    if (n > s.length() - p) n = s.length() - p;
}

static const char *const Formats[] = {"", "%s", "<%s>", "%s%s", "%%", "%d:%s"};

// ---- one operation ---------------------------------------------------------------------------------------------
static std::string applyOp(std::vector<SBuf> &v, const Args &a)
{
    const std::string &op = a.f[0];
    if (op == "n") { a.arity(2); const unsigned i = a.var(1); v[i].~SBuf(); new (&v[i]) SBuf(); return "ok"; }
    if (op == "A") { a.arity(3); v[a.var(1)] = v[a.var(2)]; return "ok"; }
    if (op == "ab") { a.arity(3); const std::string b = a.bytes(2);
        // exact-size heap copy: ASan sees over-reads of the source
        char *src = static_cast<char *>(malloc(b.size() ? b.size() : 1)); memcpy(src, b.data(), b.size());
        try { v[a.var(1)].assign(src, b.size()); } catch (...) { free(src); throw; }
        free(src); return "ok"; }
    if (op == "ar") { a.arity(5); const unsigned i = a.var(1), j = a.var(2); auto p = a.n(3), n = a.n(4);
        clampArea(v[j], p, n); v[i].assign(v[j].rawContent() + p, n); return "ok"; }
    if (op == "pb") { a.arity(3); const std::string b = a.bytes(2);
        char *src = static_cast<char *>(malloc(b.size() ? b.size() : 1)); memcpy(src, b.data(), b.size());
        try { v[a.var(1)].append(src, b.size()); } catch (...) { free(src); throw; }
        free(src); return "ok"; }
    if (op == "ps") { a.arity(3); v[a.var(1)].append(v[a.var(2)]); return "ok"; }
    if (op == "pr") { a.arity(5); const unsigned i = a.var(1), j = a.var(2); auto p = a.n(3), n = a.n(4);
        clampArea(v[j], p, n); v[i].append(v[j].rawContent() + p, n); return "ok"; }
    if (op == "pc") { a.arity(3); const auto c = a.n(2); if (c > 255) throw BadOp(); v[a.var(1)].push_back(static_cast<char>(c)); return "ok"; }
    if (op == "cl") { a.arity(2); v[a.var(1)].clear(); return "ok"; }
    if (op == "ch") { a.arity(4); v[a.var(1)].chop(a.n(2), a.n(3)); return "ok"; }
    if (op == "ss") { a.arity(5); const unsigned i = a.var(1), j = a.var(2); v[i] = v[j].substr(a.n(3), a.n(4)); return "ok"; }
    if (op == "co") { a.arity(4); const unsigned i = a.var(1), j = a.var(2); v[i] = v[j].consume(a.n(3)); return "ok"; }
    if (op == "tr") { a.arity(4); const auto fl = a.n(3); if (fl > 3) throw BadOp();
        v[a.var(1)].trim(v[a.var(2)], (fl & 1) != 0, (fl & 2) != 0); return "ok"; }
    if (op == "sa") { a.arity(4); const auto c = a.n(3); if (c > 255) throw BadOp(); v[a.var(1)].setAt(a.n(2), static_cast<char>(c)); return "ok"; }
    if (op == "lo") { a.arity(2); v[a.var(1)].toLower(); return "ok"; }
    if (op == "up") { a.arity(2); v[a.var(1)].toUpper(); return "ok"; }
    if (op == "cs") { a.arity(2); SBuf &s = v[a.var(1)]; const char *p = s.c_str();
        return hex(std::string(p, s.length() + 1)); }   // contents followed by the terminator it promises
    if (op == "rs") { a.arity(3); SBuf &s = v[a.var(1)]; const auto n = a.n(2); s.reserveSpace(n);
        // documented guarantee, judged on the real object only
        const bool good = s.store_->LockCount() == 1 && s.store_->capacity - (s.off_ + s.len_) >= n && s.off_ + s.len_ == s.store_->size;
        return good ? "ok" : "broken-guarantee"; }
    if (op == "rc") { a.arity(3); SBuf &s = v[a.var(1)]; const auto n = a.n(2); s.reserveCapacity(n);
        const bool good = s.store_->LockCount() == 1 && s.store_->capacity - s.off_ >= n;
        return good ? "ok" : "broken-guarantee"; }
    if (op == "rv") { a.arity(6); SBuf &s = v[a.var(1)]; SBufReservationRequirements req;
        req.idealSpace = a.n(2); req.minSpace = a.n(3); req.maxCapacity = a.n(4); const auto sh = a.n(5); if (sh > 1) throw BadOp();
        req.allowShared = sh != 0; return std::to_string(s.reserve(req)); }
    if (op == "ra") { a.arity(4); SBuf &s = v[a.var(1)]; const auto n = a.n(2); const std::string b = a.bytes(3);
        if (b.size() > n) throw BadOp();
        char *p = s.rawAppendStart(n);
        // "a buffer suitable for appending at most anticipatedSize bytes": judged on the real object before writing
        const uint64_t room = static_cast<uint64_t>(s.store_->capacity) - (static_cast<uint64_t>(s.off_) + s.len_);
        if (p != s.store_->mem + s.off_ + s.len_ || room < n)
            return "short:" + std::to_string(room);
        memcpy(p, b.data(), b.size());
        s.rawAppendFinish(p, b.size());
        return "ok"; }
    if (op == "af" || op == "pf") { a.arity(5); SBuf &s = v[a.var(1)]; const auto fi = a.n(2); const auto d = a.n(3); std::string b = a.bytes(4);
        if (fi >= sizeof(Formats) / sizeof(*Formats) || b.find('\0') != std::string::npos) throw BadOp();
        const char *f = Formats[fi]; const int di = static_cast<int>(d % 100000);
        const bool printf_ = op == "pf";
        switch (fi) {
        case 0: case 4: printf_ ? s.Printf(f) : s.appendf(f); break;
        case 1: case 2: printf_ ? s.Printf(f, b.c_str()) : s.appendf(f, b.c_str()); break;
        case 3: printf_ ? s.Printf(f, b.c_str(), b.c_str()) : s.appendf(f, b.c_str(), b.c_str()); break;
        default: printf_ ? s.Printf(f, di, b.c_str()) : s.appendf(f, di, b.c_str()); break;
        }
        return "ok"; }
    if (op == "fa" || op == "fp") { a.arity(3); const unsigned i = a.var(1), j = a.var(2);   // i.appendf("%.*s", j) / i.Printf(...): the SQUIDSBUFPH idiom
        if (op == "fa") v[i].appendf(SQUIDSBUFPH, SQUIDSBUFPRINT(v[j])); else v[i].Printf(SQUIDSBUFPH, SQUIDSBUFPRINT(v[j]));
        return "ok"; }
    // ---- queries ----
    if (op == "ln") { a.arity(2); return std::to_string(v[a.var(1)].length()); }
    if (op == "at") { a.arity(3); return std::to_string(static_cast<unsigned char>(v[a.var(1)].at(a.n(2)))); }
    if (op == "cm") { a.arity(5); const auto cs = a.n(3); if (cs > 1) throw BadOp();
        return sign(v[a.var(1)].compare(v[a.var(2)], cs ? caseInsensitive : caseSensitive, a.n(4))); }
    if (op == "eq") { a.arity(3); const bool e = v[a.var(1)] == v[a.var(2)]; const bool ne = v[a.var(1)] != v[a.var(2)];
        return e == ne ? "inconsistent" : e ? "1" : "0"; }
    if (op == "sw") { a.arity(4); const auto cs = a.n(3); if (cs > 1) throw BadOp();
        return v[a.var(1)].startsWith(v[a.var(2)], cs ? caseInsensitive : caseSensitive) ? "1" : "0"; }
    if (op == "fc") { a.arity(4); const auto c = a.n(2); if (c > 255) throw BadOp(); return pos(v[a.var(1)].find(static_cast<char>(c), a.n(3))); }
    if (op == "fs") { a.arity(4); return pos(v[a.var(1)].find(v[a.var(2)], a.n(3))); }
    if (op == "Rc") { a.arity(4); const auto c = a.n(2); if (c > 255) throw BadOp(); return pos(v[a.var(1)].rfind(static_cast<char>(c), a.n(3))); }
    if (op == "Rs") { a.arity(4); return pos(v[a.var(1)].rfind(v[a.var(2)], a.n(3))); }
    if (op == "ff") { a.arity(4); return pos(v[a.var(1)].findFirstOf(makeSet(a.bytes(2)), a.n(3))); }
    if (op == "fn") { a.arity(4); return pos(v[a.var(1)].findFirstNotOf(makeSet(a.bytes(2)), a.n(3))); }
    if (op == "fl") { a.arity(4); return pos(v[a.var(1)].findLastOf(makeSet(a.bytes(2)), a.n(3))); }
    if (op == "fm") { a.arity(4); return pos(v[a.var(1)].findLastNotOf(makeSet(a.bytes(2)), a.n(3))); }
    if (op == "cp") { a.arity(3); const SBuf &s = v[a.var(1)]; auto n = a.n(2); if (n > (1u << 20)) n = 1u << 20;
        char *d = static_cast<char *>(malloc(n ? n : 1)); const auto got = s.copy(d, n); std::string r(d, got); free(d); return hex(r); }
    if (op == "cc") { a.arity(5); const std::string b = a.bytes(2); const auto cs = a.n(3); if (cs > 1 || b.find('\0') != std::string::npos) throw BadOp();
        char *z = static_cast<char *>(malloc(b.size() + 1)); memcpy(z, b.data(), b.size()); z[b.size()] = 0;   // exact-size C string
        const int r = v[a.var(1)].compare(z, cs ? caseInsensitive : caseSensitive, a.n(4)); free(z); return sign(r); }
    throw BadOp();
}

static std::string internals(const std::vector<SBuf> &v)
{
    std::map<const MemBlob *, unsigned> ids;
    std::vector<const MemBlob *> order;
    const MemBlob *proto = SBuf::GetStorePrototype().getRaw();
    ids[proto] = 0; order.push_back(proto);
    std::ostringstream os;
    for (size_t i = 0; i < v.size(); ++i) {
        const MemBlob *b = v[i].store_.getRaw();
        if (!ids.count(b)) { ids[b] = order.size(); order.push_back(b); }
        os << (i ? ":" : "") << ids[b] << '.' << v[i].off_ << '.' << v[i].len_;
    }
    os << '#';
    for (size_t k = 0; k < order.size(); ++k)
        os << (k ? ":" : "") << order[k]->size << '.' << order[k]->capacity << '.' << order[k]->LockCount();
    return os.str();
}

static std::string runLine(const std::string &line)
{
    const auto toks = split(line, ' ');
    uint64_t K;
    if (toks.size() < 3 || toks[0] != "s" || !num(toks[1], K) || K < 1 || K > 6 || (toks[2] != "x" && toks[2] != "c"))
        return "bad-op";
    // the prototype store (a function-local static of SBuf) is allocated once per process: one process per policy
    if ((toks[2] == "c") != g_use_classes)
        return "wrong-alloc-mode";
    std::string out;
    {
        // every line starts from the state of a fresh process: no SBuf exists here, so emptying the prototype
        // store (public MemBlob API) only forgets bytes that earlier lines left in it
        SBuf::GetStorePrototype()->clear();
        std::vector<SBuf> v(K);
        std::vector<std::string> before(K);
        for (size_t t = 3; t < toks.size(); ++t) {
            if (toks[t].empty()) continue;
            Args a; a.f = split(toks[t], ','); a.K = K;
            for (unsigned i = 0; i < K; ++i) before[i] = v[i].toStdString();
            std::string res;
            try {
                res = applyOp(v, a);
            } catch (const BadOp &) {
                return "bad-op";
            } catch (const std::exception &) {
                res = "throw";
            }
            if (!out.empty()) out += ' ';
            out += res; out += '|';
            // an object whose area leaves the used part of its blob cannot be observed (and ends the history)
            bool corrupt = false;
            for (unsigned i = 0; i < K; ++i) {
                const uint64_t end = static_cast<uint64_t>(v[i].off_) + v[i].len_;
                if (end > v[i].store_->size || v[i].store_->size > v[i].store_->capacity) corrupt = true;
            }
            if (corrupt) { out += "corrupt|" + internals(v); return out; }
            bool first = true;
            for (unsigned i = 0; i < K; ++i) {
                const std::string now = v[i].toStdString();
                if (now != before[i]) { if (!first) out += ','; first = false; out += std::to_string(i) + "=" + hex(now); }
            }
            out += '|';
            out += internals(v);
        }
    }
    return out.empty() ? "empty" : out;
}

int main(int argc, char **argv)
{
    for (int i = 1; i < argc; ++i) {
        if (!strcmp(argv[i], "--dump-consts")) {
            printf("maxSize %u\nnpos %u\nbits %zu\n", SBuf::maxSize, SBuf::npos, sizeof(SBuf::size_type) * 8);
            return 0;
        }
        if (!strncmp(argv[i], "--classes=", 10)) {   // serve `s <K> c ...` lines with these size classes (else: `x` lines)
            for (const auto &c : split(argv[i] + 10, ',')) { uint64_t x; if (num(c, x)) g_classes.push_back(x); }
            g_use_classes = true;
        }
    }
    std::string line;
    while (std::getline(std::cin, line)) {
        puts(runLine(line).c_str());
        fflush(stdout);
    }
    return 0;
}
