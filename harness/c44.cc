// C44 harness: the real ACLChecklist (src/acl/Checklist.cc), Acl::Tree (Tree.cc), NotNode/AndNode/OrNode (BoolOps.cc),
// InnerNode (InnerNode.cc), AllOf (AllOf.cc), AnyOf (AnyOf.cc), Acl::Node::matches/ParseNamedAcl (Acl.cc) and
// aclParseAccessLine (Gadgets.cc), all compiled from the stage with ASan/UBSan.  The configuration of a scenario is
// turned into squid.conf text and fed through the real ConfigParser into the real parsers; leaves are synthetic
// Acl::Node subclasses (type "synth") whose truth value and sync/async behaviour are scripted per checklist.  An
// asynchronous leaf calls the real ACLChecklist::goAsync(); its lookup completes when the schedule says so, by calling
// the real ACLChecklist::resumeNonBlockingCheck().
//
// Scenario line (6 space separated fields; "_" = empty list):
//   <mode> <nleaves> <groups> <rules> <checklists> <schedule>
//   mode        P  rules go through aclParseAccessLine (a rule without ACLs is skipped by squid)
//               D  rules are lineParse()d into an AndNode and added with Acl::Tree::add(rule, action) directly
//                  (a rule without ACLs stays); an empty rule list still yields an (empty) Acl::Tree object
//   groups      g;g;...      g = a=<line>|<line>...  (acl gK all-of ..., one acl directive per line)
//                            or  o=<line>|<line>...  (acl gK any-of ...)
//               line = item,item,...   item = [!]<leaf number> | [!]g<group number, lower than this group's>
//   rules       r;r;...      r = +<line> (allow) | -<line> (deny)
//   checklists  c;c;...      c = <kind><banned>:<leaf>,<leaf>,...   one <leaf> per leaf
//               kind   n = nonBlockingCheck   f = fastCheck()
//               banned subset of "+-" (banAction(ACCESS_ALLOWED) / banAction(ACCESS_DENIED))
//               leaf   <v><rounds>[!]  v = t|f (match/mismatch) x (markFinished(ACCESS_DUNNO)) y (ACCESS_AUTH_REQUIRED)
//                      rounds = string over d (lookup completes later, when scheduled) and i (the lookup starter calls
//                      resumeNonBlockingCheck() before returning); the leaf answers only after all its lookups are done
//                      ! = when goAsync() refuses, finish with ACCESS_DUNNO (external_acl style); default: mismatch (dns style)
//   schedule    k,k,...      each step takes the (k mod N)-th of the N checklists that have not answered yet (index order)
//               and either starts it or completes its pending lookup; after the list is used up k=0 is used
// Output: r=<rules in tree> <shape> <answer>;<answer>... <trace>
//   shape   T[<action><node>,...]  node = leaf number | ![n] | &[n,...] | |[n,...] | A[n,...]   (walk of the real nodes)
//   answer  A|D|U|R (allowed, denied, dunno, auth-required) + "k<kind>" if Answer::kind != 0 + "i" if Answer::implicit
//   trace   every synthetic leaf match() call in global order: <checklist>.<leaf><+|-|~> for return 1, 0, -1
#include <algorithm>
#include <cstdio>
#include <cstring>
#include <deque>
#include <iostream>
#include <map>
#include <memory>
#include <optional>
#include <set>
#include <sstream>
#include <stack>
#include <string>
#include <unordered_map>
#include <vector>
#include <list>
#include <functional>

#define protected public
#define private public
#include "squid.h"
#include "acl/Acl.h"
#include "acl/AllOf.h"
#include "acl/AnyOf.h"
#include "acl/BoolOps.h"
#include "acl/Checklist.h"
#include "acl/FilledChecklist.h"
#include "acl/Gadgets.h"
#include "acl/InnerNode.h"
#include "acl/Tree.h"
#undef protected
#undef private
#include "ExternalACLEntry.h"
#include "cache_cf.h"
#include "cbdata.h"
#include "ConfigParser.h"
#include "debug/Stream.h"
#include "sbuf/SBuf.h"
#include "SquidConfig.h"
#include "wordlist.h"

// ---- cache_cf.cc surface (what tests/stub_cache_cf.o provides), with a throwing self_destruct ----------------
const char *cfg_directive = nullptr;
const char *cfg_filename = nullptr;
int config_lineno = 0;
char config_input_line[BUFSIZ] = {};
struct SelfDestruct {};
void self_destruct(void) { throw SelfDestruct(); }
static void notNeeded(const char *what) { fprintf(stderr, "harness: unexpected call of %s\n", what); abort(); }
void parse_int(int *) { notNeeded("parse_int"); }
void parse_onoff(int *) { notNeeded("parse_onoff"); }
void parse_eol(char *volatile *) { notNeeded("parse_eol"); }
void parse_wordlist(wordlist **) { notNeeded("parse_wordlist"); }
void requirePathnameExists(const char *, const char *) {}
void parse_time_t(time_t *) { notNeeded("parse_time_t"); }
void ConfigParser::ParseUShort(unsigned short *) { notNeeded("ParseUShort"); }
void ConfigParser::ParseWordList(wordlist **) { notNeeded("ParseWordList"); }
void parseBytesOptionValue(size_t *, const char *, char const *) { notNeeded("parseBytesOptionValue"); }
void dump_acl_access(StoreEntry *, const char *, acl_access *) { notNeeded("dump_acl_access"); }
void dump_acl_list(StoreEntry *, ACLList *) { notNeeded("dump_acl_list"); }

// ---- debug sink (what tests/stub_debug.o provides) -----------------------------------------------------------
static std::string LastMessages;
char *Debug::debugOptions;
char *Debug::cache_log = nullptr;
int Debug::rotateNumber = 0;
int Debug::Levels[MAX_DEBUG_SECTIONS];
int Debug::override_X = 0;
bool Debug::log_syslog = false;
void Debug::ForceAlert() {}
void ResyncDebugLog(FILE *) {}
FILE *DebugStream() { return stderr; }
void _db_rotate_log(void) {}
void Debug::FormatStream(std::ostream &buf)
{
    const static std::ostringstream cleanStream;
    buf.flags(cleanStream.flags() | std::ios::fixed);
    buf.width(cleanStream.width());
    buf.precision(2);
    buf.fill(' ');
}
void Debug::LogMessage(const Context &context)
{
    if (context.level > DBG_IMPORTANT)
        return;
    LastMessages += context.buf.str();
    LastMessages += "\n";
}
std::ostream &Debug::Extra(std::ostream &os) { FormatStream(os); os << "\n    "; return os; }
bool Debug::StderrEnabled() { return false; }
void Debug::PrepareToDie() {}
void Debug::parseOptions(char const *) {}
Debug::Context *Debug::Current = nullptr;
Debug::Context::Context(const int aSection, const int aLevel):
    section(aSection), level(aLevel), sectionLevel(Levels[aSection]), upper(Current), forceAlert(false)
{
    FormatStream(buf);
}
std::ostringstream &Debug::Start(const int section, const int level)
{
    Current = new Context(section, level);
    return Current->buf;
}
void Debug::Finish()
{
    if (Current) {
        LogMessage(*Current);
        delete Current;
        Current = nullptr;
    }
}
std::ostream &ForceAlert(std::ostream &s) { return s; }

// ---- cbdata (instead of tests/stub_cbdata.o): a plain registry with lock counts --------------------------------
namespace {
struct CbEntry { int locks = 0; bool valid = true; };
std::map<const void *, CbEntry> CbTable;
std::vector<int> CbSizes(1, 0);
}
cbdata_type cbdataInternalAddType(cbdata_type type, const char *, int size)
{
    if (type) return type;
    CbSizes.push_back(size);
    return static_cast<cbdata_type>(CbSizes.size() - 1);
}
void *cbdataInternalAlloc(cbdata_type type)
{
    void *p = calloc(1, CbSizes.at(type));
    CbTable[p] = CbEntry();
    return p;
}
static void cbMaybeFree(const void *p)
{
    const auto it = CbTable.find(p);
    if (it != CbTable.end() && !it->second.valid && it->second.locks == 0) {
        CbTable.erase(it);
        free(const_cast<void *>(p));
    }
}
void *cbdataInternalFree(void *p)
{
    const auto it = CbTable.find(p);
    if (it == CbTable.end()) { fprintf(stderr, "harness: cbdataInternalFree of unknown pointer\n"); abort(); }
    it->second.valid = false;
    cbMaybeFree(p);
    return nullptr;
}
void cbdataInternalLock(const void *p)
{
    if (!p) return;
    const auto it = CbTable.find(p);
    if (it == CbTable.end()) { fprintf(stderr, "harness: cbdataInternalLock of unknown pointer\n"); abort(); }
    ++it->second.locks;
}
void cbdataInternalUnlock(const void *p)
{
    if (!p) return;
    const auto it = CbTable.find(p);
    if (it == CbTable.end() || it->second.locks <= 0) { fprintf(stderr, "harness: cbdataInternalUnlock without lock\n"); abort(); }
    --it->second.locks;
    cbMaybeFree(p);
}
int cbdataReferenceValid(const void *p)
{
    if (!p) return 1; // as the real one: a nil pointer is "valid"
    const auto it = CbTable.find(p);
    return it != CbTable.end() && it->second.valid;
}
int cbdataInternalReferenceDoneValid(void **pp, void **tp)
{
    void *p = *pp;
    const int valid = cbdataReferenceValid(p);
    *pp = nullptr;
    cbdataInternalUnlock(p);
    *tp = valid ? p : nullptr;
    return valid;
}

// ---- ACLFilledChecklist (instead of tests/stub_ACLFilledChecklist.o): no transaction state is needed ----------
CBDATA_CLASS_INIT(ACLFilledChecklist);
ACLFilledChecklist::ACLFilledChecklist() {}
ACLFilledChecklist::ACLFilledChecklist(const acl_access *A, HttpRequest *) { changeAcl(A); }
ACLFilledChecklist::~ACLFilledChecklist() {}
void ACLFilledChecklist::syncAle(HttpRequest *, const char *) const {}
void ACLFilledChecklist::verifyAle() const {}

// ---- scenario ------------------------------------------------------------------------------------------------
namespace {

struct LeafScript {
    char value = 'f';            // t f x y
    std::deque<char> rounds;     // d i
    bool styleB = false;
};

struct Run {
    int idx = 0;
    char kind = 'n';
    std::string banned;
    std::vector<LeafScript> leaves;
    ACLFilledChecklist *cl = nullptr;
    bool started = false, done = false;
    int pendingLeaf = -1;
    bool syncCompleted = false;
    std::string answer;
};

std::vector<Run *> Runs;                       // cbdata-registered (they are the callback data)
std::map<const ACLChecklist *, Run *> RunOf;
std::string Trace;

std::string answerText(const Acl::Answer &a)
{
    std::string r;
    switch (a.code) {
    case ACCESS_ALLOWED: r = "A"; break;
    case ACCESS_DENIED: r = "D"; break;
    case ACCESS_DUNNO: r = "U"; break;
    case ACCESS_AUTH_REQUIRED: r = "R"; break;
    default: r = "?"; break;
    }
    if (a.kind) r += "k" + std::to_string(a.kind);
    if (a.implicit) r += "i";
    return r;
}

class SynthLeaf: public Acl::Node
{
    MEMPROXY_CLASS(SynthLeaf);
public:
    SynthLeaf() {}
    /* Acl::Node API */
    void parse() override {}
    char const *typeString() const override { return "synth"; }
    SBufList dump() const override { return SBufList(); }
    bool empty() const override { return false; }
    int id() const { return atoi(name.toStdString().c_str() + 1); }
    static void Starter(ACLFilledChecklist &, const Acl::Node &);
private:
    int match(ACLChecklist *) override;
};

void logCall(const Run &run, int leaf, int ret)
{
    if (!Trace.empty()) Trace += ',';
    Trace += std::to_string(run.idx) + "." + std::to_string(leaf) + (ret == 1 ? '+' : ret == 0 ? '-' : '~');
}

void SynthLeaf::Starter(ACLFilledChecklist &cl, const Acl::Node &acl)
{
    Run &run = *RunOf.at(&cl);
    const int leaf = static_cast<const SynthLeaf &>(acl).id();
    LeafScript &st = run.leaves.at(leaf);
    if (st.rounds.front() == 'i') {
        st.rounds.pop_front();
        run.syncCompleted = true;
        cl.resumeNonBlockingCheck(); // the lookup "completes" before the starter returns
    } else {
        run.pendingLeaf = leaf;
    }
}

int SynthLeaf::match(ACLChecklist *cl)
{
    Run &run = *RunOf.at(cl);
    const int leaf = id();
    LeafScript &st = run.leaves.at(leaf);
    while (!st.rounds.empty()) {
        run.syncCompleted = false;
        if (cl->goAsync(Starter, *this)) {
            logCall(run, leaf, -1);
            return -1;
        }
        if (run.syncCompleted)
            continue;
        // goAsync() refused to start the lookup
        int ret = 0;
        if (st.styleB) {
            if (cl->keepMatching())
                cl->markFinished(ACCESS_DUNNO, "synthetic lookup refused");
            ret = -1;
        }
        logCall(run, leaf, ret);
        return ret;
    }
    int ret = 0;
    switch (st.value) {
    case 't': ret = 1; break;
    case 'f': ret = 0; break;
    case 'x':
    case 'y':
        if (cl->keepMatching())
            cl->markFinished(st.value == 'x' ? ACCESS_DUNNO : ACCESS_AUTH_REQUIRED, "synthetic exception");
        ret = -1;
        break;
    }
    logCall(run, leaf, ret);
    return ret;
}

void Done(Acl::Answer answer, void *data)
{
    Run *run = static_cast<Run *>(data);
    run->answer = answerText(answer);
    run->done = true;
    RunOf.erase(run->cl);
    run->cl = nullptr; // checkCallback() deletes the checklist
}

std::vector<std::string> splitOn(const std::string &s, char sep)
{
    std::vector<std::string> r;
    size_t p = 0;
    for (;;) {
        const size_t q = s.find(sep, p);
        if (q == std::string::npos) { r.push_back(s.substr(p)); break; }
        r.push_back(s.substr(p, q - p));
        p = q + 1;
    }
    return r;
}

bool isNumber(const std::string &s)
{
    if (s.empty() || s.size() > 6) return false;
    for (const char c : s) if (c < '0' || c > '9') return false;
    return true;
}

/// "0,!1,g2" -> "L0 !L1 G2"; false when malformed
bool lineToConf(const std::string &line, const int nleaves, const int ngroups, std::string &conf)
{
    conf.clear();
    if (line.empty()) return true;
    for (const auto &item0 : splitOn(line, ',')) {
        std::string item = item0;
        std::string out;
        if (!item.empty() && item[0] == '!') { out = "!"; item = item.substr(1); }
        if (!item.empty() && item[0] == 'g') {
            const auto num = item.substr(1);
            if (!isNumber(num) || atoi(num.c_str()) >= ngroups) return false;
            out += "G" + std::to_string(atoi(num.c_str()));
        } else {
            if (!isNumber(item) || atoi(item.c_str()) >= nleaves) return false;
            out += "L" + std::to_string(atoi(item.c_str()));
        }
        if (!conf.empty()) conf += ' ';
        conf += out;
    }
    return true;
}

/// makes `text` the current configuration line of the real ConfigParser; returns the buffer to delete[] afterwards
char *feed(const std::string &text)
{
    char *buf = new char[text.size() + 1];
    memcpy(buf, text.c_str(), text.size() + 1);
    snprintf(config_input_line, sizeof(config_input_line), "%s", text.c_str());
    ConfigParser::SetCfgLine(buf);
    return buf;
}

void unfeed(char *buf)
{
    ConfigParser::SetCfgLine(nullptr);
    delete[] buf;
}

void shape(const Acl::Node *n, std::string &out)
{
    if (const auto leaf = dynamic_cast<const SynthLeaf *>(n)) {
        out += std::to_string(leaf->id());
        return;
    }
    const auto inner = dynamic_cast<const Acl::InnerNode *>(n);
    if (!inner) { out += "?"; return; }
    const std::string t = n->typeString();
    out += t == "!" ? "!" : t == "and" ? "&" : t == "any-of" ? "|" : t == "all-of" ? "A" : "?";
    out += "[";
    bool first = true;
    for (const auto &kid : inner->nodes) {
        if (!first) out += ",";
        first = false;
        shape(kid.getRaw(), out);
    }
    out += "]";
}

void cleanup(acl_access *&access)
{
    for (auto r : Runs) { // Run objects are registered as cbdata but allocated with new
        CbTable.erase(r);
        delete r;
    }
    Runs.clear();
    RunOf.clear();
    if (access) aclDestroyAccessList(&access);
    if (Config.namedAcls) Acl::FreeNamedAcls(&Config.namedAcls);
}

void startRun(Run &run, acl_access *access)
{
    run.started = true;
    if (run.kind == 'f') {
        ACLFilledChecklist cl(access, nullptr);
        for (const char b : run.banned)
            cl.banAction(Acl::Answer(b == '+' ? ACCESS_ALLOWED : ACCESS_DENIED));
        RunOf[&cl] = &run;
        const auto &answer = cl.fastCheck();
        run.answer = answerText(answer);
        run.done = true;
        RunOf.erase(&cl);
        return;
    }
    auto cl = new ACLFilledChecklist(access, nullptr);
    for (const char b : run.banned)
        cl->banAction(Acl::Answer(b == '+' ? ACCESS_ALLOWED : ACCESS_DENIED));
    run.cl = cl;
    RunOf[cl] = &run;
    cl->nonBlockingCheck(Done, &run);
}

void completeRun(Run &run)
{
    const int leaf = run.pendingLeaf;
    if (leaf < 0) { fprintf(stderr, "harness: checklist %d has neither answered nor a pending lookup\n", run.idx); abort(); }
    run.pendingLeaf = -1;
    run.leaves.at(leaf).rounds.pop_front();
    run.cl->resumeNonBlockingCheck();
}

std::string handle(const std::string &line)
{
    std::istringstream is(line);
    std::string mode, nl, groups, rules, checklists, schedule, extra;
    if (!(is >> mode >> nl >> groups >> rules >> checklists >> schedule) || (is >> extra))
        return "bad-op";
    if ((mode != "P" && mode != "D") || !isNumber(nl))
        return "bad-op";
    const int nleaves = atoi(nl.c_str());
    if (nleaves > 64) return "bad-op";

    // ---- syntax first: nothing of squid is touched for a malformed line
    struct GroupSpec { char type; std::vector<std::string> lines; };
    std::vector<GroupSpec> gs;
    if (groups != "_") {
        for (const auto &g : splitOn(groups, ';')) {
            if (g.size() < 2 || (g[0] != 'a' && g[0] != 'o') || g[1] != '=') return "bad-op";
            GroupSpec spec;
            spec.type = g[0];
            for (const auto &l : splitOn(g.substr(2), '|')) {
                std::string conf;
                if (!lineToConf(l, nleaves, static_cast<int>(gs.size()), conf)) return "bad-op";
                spec.lines.push_back(conf);
            }
            gs.push_back(spec);
        }
    }
    std::vector<std::pair<char, std::string> > rs;
    if (rules != "_") {
        for (const auto &r : splitOn(rules, ';')) {
            if (r.empty() || (r[0] != '+' && r[0] != '-')) return "bad-op";
            std::string conf;
            if (!lineToConf(r.substr(1), nleaves, static_cast<int>(gs.size()), conf)) return "bad-op";
            rs.push_back(std::make_pair(r[0], conf));
        }
    }
    std::vector<Run> specs;
    if (checklists != "_") {
        for (const auto &c : splitOn(checklists, ';')) {
            const auto colon = c.find(':');
            if (colon == std::string::npos || colon < 1) return "bad-op";
            Run run;
            run.kind = c[0];
            if (run.kind != 'n' && run.kind != 'f') return "bad-op";
            run.banned = c.substr(1, colon - 1);
            for (const char b : run.banned) if (b != '+' && b != '-') return "bad-op";
            const auto rest = c.substr(colon + 1);
            if (!(rest.empty() && nleaves == 0)) {
                for (const auto &l : splitOn(rest, ',')) {
                    LeafScript ls;
                    if (l.empty() || !strchr("tfxy", l[0])) return "bad-op";
                    ls.value = l[0];
                    size_t k = 1;
                    for (; k < l.size() && (l[k] == 'd' || l[k] == 'i'); ++k) ls.rounds.push_back(l[k]);
                    if (k < l.size() && l[k] == '!') { ls.styleB = true; ++k; }
                    if (k != l.size()) return "bad-op";
                    run.leaves.push_back(ls);
                }
            }
            if (static_cast<int>(run.leaves.size()) != nleaves) return "bad-op";
            run.idx = static_cast<int>(specs.size());
            specs.push_back(run);
        }
    }
    std::vector<unsigned> sched;
    if (schedule != "_") {
        for (const auto &k : splitOn(schedule, ',')) {
            if (!isNumber(k)) return "bad-op";
            sched.push_back(static_cast<unsigned>(atoi(k.c_str())));
        }
    }

    // ---- configuration through the real parsers
    LastMessages.clear();
    Trace.clear();
    ConfigParser::RecognizeQuotedValues = ConfigParser::StrictMode = false;
    ConfigParser parser;
    acl_access *access = nullptr;
    std::string failure;
    try {
        cfg_directive = "acl";
        for (int i = 0; i < nleaves; ++i) {
            char *buf = feed("L" + std::to_string(i) + " synth");
            Acl::Node::ParseNamedAcl(parser, Config.namedAcls);
            unfeed(buf);
        }
        for (size_t g = 0; g < gs.size(); ++g) {
            for (const auto &l : gs[g].lines) {
                char *buf = feed("G" + std::to_string(g) + (gs[g].type == 'a' ? " all-of" : " any-of") + (l.empty() ? "" : " " + l));
                Acl::Node::ParseNamedAcl(parser, Config.namedAcls);
                unfeed(buf);
            }
        }
        cfg_directive = "http_access";
        for (const auto &r : rs) {
            if (mode == "P") {
                char *buf = feed(std::string(r.first == '+' ? "allow" : "deny") + (r.second.empty() ? "" : " " + r.second));
                aclParseAccessLine("http_access", parser, &access);
                unfeed(buf);
            } else {
                char *buf = feed(r.second);
                if (!access) access = new acl_access();
                if (!*access) {
                    *access = new Acl::Tree;
                    (*access)->context(SBuf("http_access"), config_input_line);
                }
                auto rule = new Acl::AndNode;
                rule->context(SBuf("rule"), config_input_line);
                rule->lineParse();
                (*access)->add(rule, Acl::Answer(r.first == '+' ? ACCESS_ALLOWED : ACCESS_DENIED));
                unfeed(buf);
            }
        }
        if (mode == "D" && !access) {
            access = new acl_access();
            *access = new Acl::Tree;
            (*access)->context(SBuf("http_access"), "");
        }
    } catch (const SelfDestruct &) {
        failure = "reject:self-destruct";
    }
    if (!failure.empty()) {
        ConfigParser::SetCfgLine(nullptr);
        cleanup(access);
        return failure;
    }

    std::string out = "r=" + std::to_string(access && *access ? (*access)->childrenCount() : 0) + " T[";
    if (access && *access) {
        const auto &tree = **access;
        for (size_t i = 0; i < tree.nodes.size(); ++i) {
            if (i) out += ",";
            if (tree.actions.size())
                out += tree.actions.at(i).code == ACCESS_ALLOWED ? "+" : tree.actions.at(i).code == ACCESS_DENIED ? "-" : "?";
            shape(tree.nodes.at(i).getRaw(), out);
        }
    }
    out += "] ";

    // ---- the checks
    for (const auto &s : specs) {
        Run *r = new Run(s);
        CbTable[r] = CbEntry(); // callback data must be cbdata
        Runs.push_back(r);
    }
    size_t step = 0;
    for (;;) {
        std::vector<Run *> live;
        for (auto r : Runs) if (!r->done) live.push_back(r);
        if (live.empty()) break;
        const unsigned k = step < sched.size() ? sched[step] : 0;
        ++step;
        Run &run = *live[k % live.size()];
        if (!run.started)
            startRun(run, access);
        else
            completeRun(run);
        if (step > 100000) { cleanup(access); return "harness-inconsistency:schedule does not end"; }
    }
    for (size_t i = 0; i < Runs.size(); ++i) {
        if (i) out += ";";
        out += Runs[i]->answer;
    }
    if (Runs.empty()) out += "_";
    out += " " + (Trace.empty() ? std::string("_") : Trace);

    cleanup(access);
    return out;
}

} // namespace

int main(int, char **)
{
    Acl::RegisterMaker("synth", [](Acl::TypeName) -> Acl::Node * { return new SynthLeaf; });
    Acl::RegisterMaker("all-of", [](Acl::TypeName) -> Acl::Node * { return new Acl::AllOf; });
    Acl::RegisterMaker("any-of", [](Acl::TypeName) -> Acl::Node * { return new Acl::AnyOf; });
    std::string line;
    while (std::getline(std::cin, line)) {
        std::string out;
        try {
            out = handle(line);
        } catch (const std::exception &e) {
            out = std::string("abort:exception:") + e.what();
        }
        puts(out.c_str());
        fflush(stdout);
    }
    return 0;
}
