// C55 harness: the real Ipc::StoreMap (instrumented copies of the staged src/ipc/StoreMap.{h,cc} and ReadWriteLock.{h,cc}:
// std::atomic -> verif::atomic) driven by virtual threads under a deterministic schedule.
//
// line:  <mode> <N> <nthreads> <ops of t0>;<ops of t1>;... <schedule: thread ids, comma separated | ->
//   mode A: every Ipc::ReadWriteLock method is ONE scheduling step (yields disabled inside, see c55_lockcall.h);
//   mode F: every atomic operation, including those inside the lock, is a scheduling step.
//   N = number of anchors = number of slices (as StoreMap::Init makes them).
//   ops (fields separated by ':'), applicable only in the session state given, otherwise skipped without a step:
//     idle : OW:f:ow  openForWritingAt(f, ow)        OR:f:k  openForReadingAt(f, key k)
//            FE:f     freeEntry(f)                    FK:k    freeEntryByKey(key k)
//     holdW: SK:k:m   anchor.setKey(k) (Store::Root().markedForDeletion() answers m)      [only before SA: caller contract]
//            AS:n     caller protocol of MemStore/Rock: take a free slice, prepFreeSlice, size=n, link to the chain
//            SA startAppending   CW closeForWriting   AW abortWriting
//     holdR: RD walk the chain (start, size/next of every slice)   CR closeForReading   CF closeForReadingAndFreeIdle
//     idle : OU:f:k   openForUpdating(update of an entry with key k, fileNoHint f)                  [updater ops: oracle only, not modelled]
//     holdU: UA:n     append a slice to the fresh chain prefix
//            CU:j     closeForUpdating with stale.splicingPoint = j-th slice of the stale chain, fresh.splicingPoint = last fresh slice
//                     (abortUpdating instead when either chain has no slice)      AU abortUpdating
//   Every applicable op starts with a store to the thread's call marker (object "c"): a step of its own, so that the
//   non-atomic accesses at the beginning of a method belong to the step of the call.
// After the schedule is exhausted the remaining threads run to completion round-robin.
// out:  log=<events> res=<per-thread results> final=<map state> viol=<-|first violation of the API-level oracle>
#include "squid.h"
#include <cstring>
#include <malloc.h>
#include <iostream>
#include <map>
#include <set>
#include <sstream>
#include <string>
#include <vector>
#define private public
#define protected public
#include "ipc/StoreMap.h"
#undef private
#undef protected
#include "Store.h"
#include "store/Controller.h"
#include "SquidConfig.h"
#include "StatCounters.h"
#include "verif_sched.h"
#include "c55_lockcall.h"

/* ---------- stubs for what the copied translation units need ---------- */
void xassert(const char *msg, const char *, int) { if (verif::sched) verif::sched->note(std::string("xassert:") + msg); else { fprintf(stderr, "xassert %s\n", msg); } }
void storeAppendPrintf(StoreEntry *, const char *, ...) {}
const char *storeKeyText(const cache_key *) { return "-"; }
alignas(64) char verif55_config_storage[sizeof(SquidConfig)] asm("Config");
alignas(64) char verif55_stat_storage[sizeof(StatCounters)] asm("statCounter");
void StoreEntry::lock(const char *) {}
int StoreEntry::unlock(const char *) { return 0; }
std::ostream &operator <<(std::ostream &os, const StoreEntry &) { return os << "e"; }
static bool MarkedAnswer = false;
alignas(64) static char verif55_controller_storage[sizeof(Store::Controller)];
Store::Controller &Store::Root() { return *reinterpret_cast<Store::Controller *>(verif55_controller_storage); }
bool Store::Controller::markedForDeletion(const cache_key *) const { return MarkedAnswer; }

/* heap-backed replacement of the POSIX shared memory segment */
static std::map<std::string, std::pair<void *, off_t> > Segments;
Ipc::Mem::Segment::Segment(const char *const id):
#if HAVE_SHM
    theFD(-1),
#endif
    theName(id), theMem(nullptr), theSize(0), theReserved(0), doUnlink(false) {}
Ipc::Mem::Segment::~Segment() {}
void Ipc::Mem::Segment::create(const off_t aSize)
{
    theMem = calloc(1, aSize);
    theSize = aSize;
    theReserved = 0;
    Segments[theName.termedBuf()] = std::make_pair(theMem, theSize);
}
void Ipc::Mem::Segment::open(const bool)
{
    const auto it = Segments.find(theName.termedBuf());
    if (it == Segments.end()) { fprintf(stderr, "no segment %s\n", theName.termedBuf()); abort(); }
    theMem = it->second.first;
    theSize = it->second.second;
    theReserved = 0;
}
void *Ipc::Mem::Segment::reserve(size_t chunkSize)
{
    void *result = reinterpret_cast<char *>(theMem) + theReserved;
    theReserved += chunkSize;
    return result;
}
SBuf Ipc::Mem::Segment::Name(const SBuf &prefix, const char *suffix)
{
    SBuf r(prefix);
    r.append("_", 1);
    r.append(suffix, strlen(suffix));
    return r;
}

/* ---------- scenario ---------- */
static std::vector<std::string> split(const std::string &s, char d)
{
    std::vector<std::string> r; std::string cur;
    for (char c : s) { if (c == d) { r.push_back(cur); cur.clear(); } else cur.push_back(c); }
    r.push_back(cur);
    return r;
}

struct Op { std::string name; long a = 0, b = 0; };

enum IncState { isWriting, isAppending, isClosing, isComplete, isAborting, isAborted };

// what the API-level observer knows about the entry living at an anchor (an "incarnation": from a successful
// openForWritingAt to the next one)
struct Incarnation {
    int id = 0;            // 0 = nothing was ever written here
    long key = 0;
    IncState state = isComplete;
    bool wasAppending = false;
    std::vector<long> sizes;     // what its writer appended, in order
    std::set<int> readers;       // threads between a successful openForReadingAt and their closeForReading* call
    long deletedAt = -1;         // step at which a delete request covering this incarnation returned
    std::vector<int> slicesInOrder;  // the slices its writer linked, in order
};

enum SessMode { smIdle, smW, smR, smU };
struct Sess {
    SessMode mode = smIdle;
    int f = -1;
    bool app = false;
    int last = -1;
    int inc = 0;               // incarnation opened
    size_t sizesAtOpen = 0;
    // updater: reads the stale edition `f`/`inc` (plus the headers lock) and writes the fresh one
    Ipc::StoreMapUpdate *upd = nullptr;
    int fresh = -1, freshInc = 0, freshLast = -1;
};

struct Scenario;
static Scenario *Cur = nullptr;

// The accessors writeableEntry/writeableSlice/readableEntry/readableSlice only add assert(anchorAt(f).writing()/reading()):
// loads made for an assert are not steps (the shim cannot see that here because anchorAt() asserts too: nested).
struct Quiet {
    int saved;
    Quiet(): saved(verif::sched ? verif::sched->current : -1) { if (verif::sched) verif::sched->current = -1; }
    ~Quiet() { if (verif::sched) verif::sched->current = saved; }
};

struct Cleaner: public Ipc::StoreMapCleaner {
    void noteFreeMapSlice(const Ipc::StoreMapSliceId sliceId) override;
};

struct Scenario {
    bool fine = false;
    int N = 0;
    Ipc::StoreMap::Owner *owner = nullptr;
    Ipc::StoreMap *map = nullptr;
    Cleaner cleaner;
    verif::Sched sched;
    std::vector<Sess> sess;
    std::vector<std::string> results;
    std::vector<verif::atomic<uint32_t> *> marker;
    std::vector<int> pool;                    // free slices, last element = top (harness-owned, like a worker's free list)
    std::vector<std::vector<std::pair<int, int> > > owners;   // (fileno, incarnation) pairs a linked slice belongs to (several after an update)
    std::vector<int> privOf;                  // thread holding the slice privately (taken, not yet linked), -1 otherwise
    std::vector<Incarnation> inc;             // per anchor
    int nextInc = 1;
    long now = 0;                             // scheduler step counter
    std::map<const void *, int> lockIndex;

    void viol(const std::string &v) { sched.note(v); }
    bool ownedBy(int sl, int f, int incId) const {
        for (const auto &o : owners[sl]) if (o.first == f && o.second == incId) return true;
        return false;
    }

    void begin(int t, size_t i) { marker[t]->store(static_cast<uint32_t>(i + 1)); }

    void setup(int n, int nthreads) {
        N = n;
        static int serial = 0;
        const SBuf path(("c55-" + std::to_string(++serial)).c_str());
        owner = Ipc::StoreMap::Init(path, N);
        map = new Ipc::StoreMap(path);
        map->cleaner = &cleaner;
        sess.assign(nthreads, Sess());
        results.assign(nthreads, "");
        for (int t = 0; t < nthreads; ++t) { marker.push_back(new verif::atomic<uint32_t>(0)); sched.name(marker[t], "c"); }
        for (int s = N - 1; s >= 0; --s) pool.push_back(s);     // slice 0 on top
        owners.assign(N, std::vector<std::pair<int, int> >()); privOf.assign(N, -1);
        inc.assign(N, Incarnation());
        for (int f = 0; f < N; ++f) {
            auto &a = map->anchors->items[f];
            const std::string fs = std::to_string(f);
            sched.name(&a.waitingToBeFreed, "W" + fs); sched.name(&a.writerHalted, "H" + fs);
            sched.name(&a.start, "S" + fs); sched.name(&a.splicingPoint, "P" + fs); sched.name(&a.basics.swap_file_sz, "Z" + fs);
            sched.name(&a.lock.readers, "l" + fs + "R"); sched.name(&a.lock.writing, "l" + fs + "W");
            sched.name(&a.lock.appending, "l" + fs + "A"); sched.name(&a.lock.updating, "l" + fs + "U");
            sched.name(&a.lock.readLevel, "l" + fs + "RL"); sched.name(&a.lock.writeLevel, "l" + fs + "WL");
            lockIndex[&a.lock] = f;
            sched.name(&map->slices->items[f].size, "Q" + fs); sched.name(&map->slices->items[f].next, "N" + fs);
            sched.name(&map->fileNos->items[f], "F" + fs);
        }
        sched.name(&map->anchors->count, "CNT"); sched.name(&map->anchors->victim, "V");
    }

    ~Scenario() {
        delete map;
        delete owner;
        for (auto &s : Segments) free(s.second.first);
        Segments.clear();
        for (auto m : marker) delete m;
    }

    static void keyOf(long k, uint64_t *out) { out[0] = static_cast<uint64_t>(k); out[1] = 0; }

    // a StoreEntry that was never constructed (only plain members are read: key, timestamps, flags); one per thread
    std::vector<std::vector<char> > entryMem;
    std::vector<std::vector<uint64_t> > entryKey;
    StoreEntry *fakeEntry(int t, long k) {
        if (entryMem.empty()) { entryMem.assign(sess.size(), std::vector<char>(sizeof(StoreEntry) + 64, 0)); entryKey.assign(sess.size(), std::vector<uint64_t>(2, 0)); }
        keyOf(k, entryKey[t].data());
        char *p = entryMem[t].data();
        p += (64 - reinterpret_cast<uintptr_t>(p) % 64) % 64;
        StoreEntry *e = reinterpret_cast<StoreEntry *>(p);
        e->key = entryKey[t].data();
        return e;
    }

    bool applicable(const Op &op, const Sess &s) const {
        const std::string &n = op.name;
        if (n == "OW" || n == "OR" || n == "FE" || n == "FK") return s.mode == smIdle;
        if (n == "SK" || n == "SA") return s.mode == smW && !s.app;
        if (n == "AS" || n == "CW" || n == "AW") return s.mode == smW;
        if (n == "RD" || n == "CR" || n == "CF") return s.mode == smR;
        if (n == "OU") return s.mode == smIdle;
        if (n == "UA" || n == "CU" || n == "AU") return s.mode == smU;
        return false;
    }

    // a delete request (by fileno, or by key) that covered one incarnation for its whole duration has returned
    void noteDeleteReturned(int f, int incAtCall, bool hit) {
        if (hit && incAtCall && inc[f].id == incAtCall && inc[f].deletedAt < 0) inc[f].deletedAt = now;
    }

    void runOps(int t, const std::vector<Op> &ops) {
        for (size_t i = 0; i < ops.size(); ++i) {
            const Op &op = ops[i];
            Sess &s = sess[t];
            if (!applicable(op, s)) continue;
            begin(t, i);
            const long callAt = now;
            std::ostringstream r;
            const std::string &n = op.name;
            if (n == "OW") {
                const int f = static_cast<int>(op.a);
                auto *anchor = map->openForWritingAt(f, op.b != 0);
                if (anchor) {
                    for (const auto &x : sess) if (x.mode == smW && x.f == f) viol("two-writers-hold-entry-" + std::to_string(f));
                    if (!inc[f].readers.empty()) viol("writer-opened-entry-held-by-reader-" + std::to_string(f));
                    inc[f] = Incarnation();
                    inc[f].id = nextInc++;
                    inc[f].state = isWriting;
                    s.mode = smW; s.f = f; s.app = false; s.last = -1; s.inc = inc[f].id;
                }
                r << (anchor ? 1 : 0);
            } else if (n == "SK") {
                uint64_t k[2]; keyOf(op.a, k);
                MarkedAnswer = op.b != 0;
                inc[s.f].key = op.a;
                Ipc::StoreMapAnchor *anchor; { Quiet q; anchor = &map->writeableEntry(s.f); }
                anchor->setKey(reinterpret_cast<const cache_key *>(k));
                r << 1;
            } else if (n == "AS") {
                if (pool.empty()) r << "x";
                else {
                    const int sl = pool.back(); pool.pop_back();
                    if (!owners[sl].empty() || privOf[sl] >= 0) viol("allocated-slice-in-use-" + std::to_string(sl));
                    privOf[sl] = t;
                    map->prepFreeSlice(sl);
                    Ipc::StoreMapSlice *slice; { Quiet q; slice = &map->writeableSlice(s.f, sl); }
                    slice->size = static_cast<uint32_t>(op.a);
                    if (s.last < 0) { Ipc::StoreMapAnchor *anchor; { Quiet q; anchor = &map->writeableEntry(s.f); } anchor->start = sl; }
                    else { Ipc::StoreMapSlice *prev; { Quiet q; prev = &map->writeableSlice(s.f, s.last); } prev->next = sl; }
                    // the slice became part of the entry with the linking store (same step: nobody ran in between)
                    privOf[sl] = -1; owners[sl].push_back(std::make_pair(s.f, s.inc));
                    inc[s.f].sizes.push_back(op.a); inc[s.f].slicesInOrder.push_back(sl);
                    s.last = sl;
                    r << sl;
                }
            } else if (n == "SA") {
                inc[s.f].state = isAppending; inc[s.f].wasAppending = true;
                map->startAppending(s.f);
                s.app = true;
                r << 1;
            } else if (n == "CW") {
                const int f = s.f;
                inc[f].state = isClosing;
                s = Sess();
                map->closeForWriting(f);
                if (inc[f].state == isClosing) inc[f].state = isComplete;
                r << 1;
            } else if (n == "AW") {
                const int f = s.f;
                inc[f].state = isAborting;
                s = Sess();
                map->abortWriting(f);
                if (inc[f].state == isAborting) inc[f].state = isAborted;
                r << 1;
            } else if (n == "OR") {
                const int f = static_cast<int>(op.a);
                uint64_t k[2]; keyOf(op.b, k);
                const auto *anchor = map->openForReadingAt(f, reinterpret_cast<const cache_key *>(k));
                if (anchor) {
                    Incarnation &e = inc[f];
                    if (!e.id || e.key != op.b) viol("reader-opened-entry-under-wrong-key-" + std::to_string(f));
                    // "complete or being appended": either the writer still holds the entry (then it must be an appending writer,
                    // possibly one that started to abort after this reader got its lock), or the entry was closed for writing
                    const bool writerPresent = anchor->lock.writing.raw();
                    if (writerPresent ? !(e.state == isAppending || ((e.state == isAborting || e.state == isClosing) && e.wasAppending)) : !(e.state == isComplete || e.state == isClosing))
                        viol("reader-opened-incomplete-entry-" + std::to_string(f));
                    if (e.deletedAt >= 0 && e.deletedAt < callAt) viol("reader-opened-deleted-entry-" + std::to_string(f));
                    e.readers.insert(t);
                    s.mode = smR; s.f = f; s.inc = e.id;
                    s.sizesAtOpen = e.sizes.size();
                }
                r << (anchor ? 1 : 0);
            } else if (n == "RD") {
                std::vector<long> seen;
                std::vector<int> visited;
                const Ipc::StoreMapAnchor *anchor; { Quiet q; anchor = &map->readableEntry(s.f); }
                Ipc::StoreMapSliceId sid = anchor->start;
                int guard = 0;
                while (sid >= 0 && guard++ < 4 * N + 4) {
                    if (sid >= N) { viol("reader-followed-invalid-slice"); break; }
                    if (!ownedBy(sid, s.f, s.inc)) viol("reader-visited-slice-of-another-entry-" + std::to_string(sid));
                    const Ipc::StoreMapSlice *slice; { Quiet q; slice = &map->readableSlice(s.f, sid); }
                    const uint32_t sz = slice->size;
                    seen.push_back(sz); visited.push_back(sid);
                    sid = slice->next;
                }
                const Incarnation &e = inc[s.f];
                bool prefix = e.id == s.inc && seen.size() <= e.sizes.size();
                for (size_t j = 0; prefix && j < seen.size(); ++j) prefix = seen[j] == e.sizes[j];
                if (!prefix) {
                    // which slice looked wrong? one that another edition shares (update splicing) is reported as such
                    size_t bad = 0;
                    while (bad < seen.size() && bad < e.sizes.size() && seen[bad] == e.sizes[bad]) ++bad;
                    const bool shared = bad < visited.size() && owners[visited[bad]].size() > 1;
                    viol(shared ? "shared-slice-changed-while-entry-is-read-" + std::to_string(visited[bad]) : std::string("reader-saw-content-not-written-to-its-entry"));
                }
                else if (seen.size() < s.sizesAtOpen) viol("reader-lost-content-of-its-entry");
                for (size_t j = 0; j < seen.size(); ++j) r << (j ? "." : "") << seen[j];
                if (seen.empty()) r << "e";
            } else if (n == "CR") {
                const int f = s.f;
                inc[f].readers.erase(t);
                s = Sess();
                map->closeForReading(f);
                r << 1;
            } else if (n == "CF") {
                const int f = s.f;
                inc[f].readers.erase(t);
                s = Sess();
                map->closeForReadingAndFreeIdle(f);
                r << 1;
            } else if (n == "FE") {
                const int f = static_cast<int>(op.a);
                const int incAtCall = inc[f].id;
                const bool res = map->freeEntry(f);
                noteDeleteReturned(f, incAtCall, true);
                r << (res ? 1 : 0);
            } else if (n == "FK") {
                uint64_t k[2]; keyOf(op.a, k);
                int f; { Quiet q; f = map->fileNoByKey(reinterpret_cast<const cache_key *>(k)); }
                const int incAtCall = inc[f].id;
                const bool hit = incAtCall && inc[f].key == op.a;   // the key was set before the call started
                map->freeEntryByKey(reinterpret_cast<const cache_key *>(k));
                int fAfter; { Quiet q; fAfter = map->fileNoByKey(reinterpret_cast<const cache_key *>(k)); }
                if (fAfter == f) noteDeleteReturned(f, incAtCall, hit);      // (an update may relocate the key meanwhile: then nothing is concluded)
                r << 1;
            }
            else if (n == "OU") {
                // openForUpdating(update, fileNoHint): read+headers lock on the stale edition, a fresh keyless anchor for writing
                const int hint = static_cast<int>(op.a);
                StoreEntry *e = fakeEntry(t, op.b);
                auto *upd = new Ipc::StoreMapUpdate(e);
                bool ok = false;
                try { ok = map->openForUpdating(*upd, hint); } catch (...) { viol("exception-in-openForUpdating"); }
                if (ok) {
                    const int sf = upd->stale.fileNo, ff = upd->fresh.fileNo;
                    Incarnation &st = inc[sf];
                    if (!st.id || st.key != op.b) viol("updater-opened-entry-under-wrong-key-" + std::to_string(sf));
                    if (st.state != isComplete) viol("updater-opened-incomplete-entry-" + std::to_string(sf));
                    if (st.deletedAt >= 0 && st.deletedAt < callAt) viol("updater-opened-deleted-entry-" + std::to_string(sf));
                    st.readers.insert(t);
                    for (const auto &x : sess) if ((x.mode == smW && x.f == ff) || (x.mode == smU && x.fresh == ff)) viol("two-writers-hold-entry-" + std::to_string(ff));
                    if (!inc[ff].readers.empty()) viol("writer-opened-entry-held-by-reader-" + std::to_string(ff));
                    inc[ff] = Incarnation();
                    inc[ff].id = nextInc++;
                    inc[ff].state = isWriting;
                    inc[ff].key = op.b;
                    s.mode = smU; s.f = sf; s.inc = st.id; s.upd = upd; s.fresh = ff; s.freshInc = inc[ff].id; s.freshLast = -1;
                } else delete upd;
                r << (ok ? 1 : 0);
            } else if (n == "UA") {
                if (pool.empty()) r << "x";
                else {
                    const int sl = pool.back(); pool.pop_back();
                    if (!owners[sl].empty() || privOf[sl] >= 0) viol("allocated-slice-in-use-" + std::to_string(sl));
                    privOf[sl] = t;
                    map->prepFreeSlice(sl);
                    Ipc::StoreMapSlice *slice; { Quiet q; slice = &map->writeableSlice(s.fresh, sl); }
                    slice->size = static_cast<uint32_t>(op.a);
                    if (s.freshLast < 0) { Ipc::StoreMapAnchor *anchor; { Quiet q; anchor = &map->writeableEntry(s.fresh); } anchor->start = sl; }
                    else { Ipc::StoreMapSlice *prev; { Quiet q; prev = &map->writeableSlice(s.fresh, s.freshLast); } prev->next = sl; }
                    privOf[sl] = -1; owners[sl].push_back(std::make_pair(s.fresh, s.freshInc));
                    inc[s.fresh].sizes.push_back(op.a); inc[s.fresh].slicesInOrder.push_back(sl);
                    s.freshLast = sl;
                    r << sl;
                }
            } else if (n == "CU" || n == "AU") {
                const int sf = s.f, ff = s.fresh;
                Ipc::StoreMapUpdate *upd = s.upd;
                Incarnation &st = inc[sf];
                const bool staleMine = st.id == s.inc;
                const bool canClose = n == "CU" && s.freshLast >= 0 && staleMine && !st.slicesInOrder.empty();
                if (canClose) {
                    // the caller decides where the headers end in the stale chain: slice number op.a (clipped)
                    const size_t j = std::min(static_cast<size_t>(op.a), st.slicesInOrder.size() - 1);
                    upd->stale.splicingPoint = st.slicesInOrder[j];
                    upd->fresh.splicingPoint = s.freshLast;
                    // the fresh edition = its own prefix + the stale suffix (shared slices)
                    Incarnation &fr = inc[ff];
                    for (size_t x = j + 1; x < st.slicesInOrder.size(); ++x) {
                        fr.sizes.push_back(st.sizes[x]); fr.slicesInOrder.push_back(st.slicesInOrder[x]);
                        owners[st.slicesInOrder[x]].push_back(std::make_pair(ff, fr.id));
                    }
                    fr.state = isClosing;
                    const Sess mine = s;
                    s = Sess();
                    if (inc[sf].id == mine.inc) inc[sf].readers.erase(t);      // its read lock is released somewhere inside the call
                    try { map->closeForUpdating(*upd); } catch (...) { viol("exception-in-closeForUpdating"); }
                    if (inc[ff].id == mine.freshInc && inc[ff].state == isClosing) inc[ff].state = isComplete;
                    if (inc[sf].id == mine.inc) { inc[sf].readers.erase(t); if (inc[sf].deletedAt < 0) inc[sf].deletedAt = now; }
                    r << 1;
                } else {
                    inc[ff].state = isAborting;
                    const Sess mine = s;
                    s = Sess();
                    if (inc[sf].id == mine.inc) inc[sf].readers.erase(t);
                    try { map->abortUpdating(*upd); } catch (...) { viol("exception-in-abortUpdating"); }
                    if (inc[ff].id == mine.freshInc && inc[ff].state == isAborting) inc[ff].state = isAborted;
                    if (inc[sf].id == mine.inc) inc[sf].readers.erase(t);
                    r << 0;
                }
                delete upd;
            }
            results[t] += n + "=" + r.str() + ",";
        }
    }
};

void Cleaner::noteFreeMapSlice(const Ipc::StoreMapSliceId sliceId)
{
    Scenario &sc = *Cur;
    if (sliceId < 0 || sliceId >= sc.N) { sc.viol("freed-invalid-slice"); return; }
    if (sc.privOf[sliceId] >= 0) sc.viol("freed-slice-not-yet-linked-" + std::to_string(sliceId));
    else if (sc.owners[sliceId].empty()) sc.viol("slice-freed-twice-" + std::to_string(sliceId));
    for (const auto &o : sc.owners[sliceId]) {
        const int f = o.first;
        if (sc.inc[f].id == o.second && !sc.inc[f].readers.empty())
            sc.viol(std::string(sc.owners[sliceId].size() > 1 ? "shared-" : "") + "slice-freed-while-entry-is-read-" + std::to_string(sliceId));
        for (const auto &x : sc.sess)
            if ((x.mode == smW && x.f == f && x.inc == o.second) || (x.mode == smU && x.fresh == f && x.freshInc == o.second))
                sc.viol("slice-freed-while-entry-is-written-" + std::to_string(sliceId));
    }
    for (int p : sc.pool) if (p == sliceId) sc.viol("slice-pushed-twice-" + std::to_string(sliceId));
    sc.owners[sliceId].clear(); sc.privOf[sliceId] = -1;
    sc.pool.push_back(sliceId);
}

/* ---------- the lock-call guard (mode A) ---------- */
static unsigned packLock(const Ipc::ReadWriteLock *l) { return l->readers.raw() * 4 + (l->writing.raw() ? 2 : 0) + (l->appending.raw() ? 1 : 0); }

verif55::LockCall::LockCall(const void *aLock, const char *aName): lock(aLock), name(aName), saved(-1), outer(false), before(0)
{
    verif::Sched *s = verif::sched;
    if (!s || s->current < 0 || !Cur || Cur->fine || verif::in_assert) return;
    outer = true;
    verif::op_begin();                  // the one scheduling point of this lock method
    before = packLock(static_cast<const Ipc::ReadWriteLock *>(lock));
    saved = s->current;
    s->current = -1;                    // atomics inside run inline and unlogged
}

verif55::LockCall::~LockCall()
{
    if (!outer) return;
    verif::Sched *s = verif::sched;
    s->current = saved;
    const auto it = Cur->lockIndex.find(lock);
    char buf[96];
    snprintf(buf, sizeof(buf), "%d:L%d.%s.%u>%u", saved, it == Cur->lockIndex.end() ? -1 : it->second, name, before,
             packLock(static_cast<const Ipc::ReadWriteLock *>(lock)));
    s->log.push_back(buf);
}

/* ---------- driver ---------- */
static bool parseOps(const std::string &txt, std::vector<Op> &out)
{
    if (txt == "-") return true;
    for (const auto &tk : split(txt, ',')) {
        const auto parts = split(tk, ':');
        Op op; op.name = parts[0];
        static const char *known[] = {"OW", "SK", "AS", "SA", "CW", "AW", "OR", "RD", "CR", "CF", "FE", "FK", "OU", "UA", "CU", "AU"};
        static const int arity[] = {2, 2, 1, 0, 0, 0, 2, 0, 0, 0, 1, 1, 2, 1, 1, 0};
        int k = -1;
        for (int i = 0; i < 16; ++i) if (op.name == known[i]) k = i;
        if (k < 0 || static_cast<int>(parts.size()) != arity[k] + 1) return false;
        for (size_t j = 1; j < parts.size(); ++j) {
            if (parts[j].empty() || parts[j].size() > 6) return false;
            for (char c : parts[j]) if (c < '0' || c > '9') return false;
        }
        if (parts.size() > 1) op.a = atol(parts[1].c_str());
        if (parts.size() > 2) op.b = atol(parts[2].c_str());
        out.push_back(op);
    }
    return true;
}

static unsigned long long u64(long long v) { return static_cast<unsigned long long>(v); }

int main()
{
    // keep freed coroutine stacks in the heap (re-faulting fresh pages for every scenario is very slow in this sandbox)
    mallopt(M_MMAP_THRESHOLD, 64 * 1024 * 1024);
    mallopt(M_TRIM_THRESHOLD, 512 * 1024 * 1024);
    std::string line;
    while (std::getline(std::cin, line)) {
        std::istringstream is(line);
        std::string mode, opsAll, schedStr; int N = 0, n = 0;
        is >> mode >> N >> n >> opsAll >> schedStr;
        if ((mode != "A" && mode != "F") || N < 1 || N > 8 || n < 1 || n > 8 || opsAll.empty() || schedStr.empty()) { puts("bad-op"); fflush(stdout); continue; }
        const auto per = split(opsAll, ';');
        std::vector<std::vector<Op> > ops(per.size());
        bool ok = static_cast<int>(per.size()) == n;
        for (size_t t = 0; ok && t < per.size(); ++t) ok = parseOps(per[t], ops[t]);
        // filenos must address existing anchors, keys are non-zero (zero means "empty" in the map)
        for (const auto &v : ops) for (const auto &op : v) {
            if ((op.name == "OW" || op.name == "OR" || op.name == "FE" || op.name == "OU") && op.a >= N) ok = false;
            if ((op.name == "OR" || op.name == "OU") && op.b == 0) ok = false;
            if ((op.name == "SK" || op.name == "FK") && op.a == 0) ok = false;
        }
        if (!ok) { puts("bad-op"); fflush(stdout); continue; }
        {
            Scenario sc;
            sc.fine = mode == "F";
            sc.setup(N, n);
            Cur = &sc;
            verif::sched = &sc.sched;
            for (int t = 0; t < n; ++t) {
                const std::vector<Op> mine = ops[t];
                sc.sched.spawn([&sc, t, mine]() { sc.runOps(t, mine); });
            }
            sc.sched.prime();
            if (schedStr != "-")
                for (const auto &tk : split(schedStr, ',')) { ++sc.now; sc.sched.step(atoi(tk.c_str())); }
            int rounds = 0;
            while (!sc.sched.allDone() && rounds++ < 100000)
                for (int t = 0; t < n; ++t) { ++sc.now; sc.sched.step(t); }
            if (!sc.sched.allDone()) sc.viol("threads-did-not-finish");
            verif::sched = nullptr;
            std::ostringstream out;
            out << "log=";
            for (size_t i = 0; i < sc.sched.log.size(); ++i) out << (i ? "," : "") << sc.sched.log[i];
            if (sc.sched.log.empty()) out << "-";
            out << " res=";
            for (int t = 0; t < n; ++t) out << (t ? ";" : "") << (sc.results[t].empty() ? "-" : sc.results[t]);
            out << " final=";
            for (int f = 0; f < N; ++f) {
                const auto &a = sc.map->anchors->items[f];
                out << (f ? "|" : "") << a.key[0] << "," << int(a.waitingToBeFreed.raw()) << "," << int(a.writerHalted.raw()) << ","
                    << u64(a.start.raw()) << "," << u64(a.splicingPoint.raw()) << ",l" << a.lock.readers.raw() << ":" << a.lock.writing.raw()
                    << ":" << a.lock.appending.raw() << ":" << a.lock.readLevel.raw() << ":" << a.lock.writeLevel.raw();
            }
            out << " slices=";
            for (int s = 0; s < N; ++s)
                out << (s ? "|" : "") << sc.map->slices->items[s].size.raw() << "," << u64(sc.map->slices->items[s].next.raw());
            out << " count=" << u64(sc.map->anchors->count.raw()) << " pool=";
            for (size_t i = sc.pool.size(); i > 0; --i) out << sc.pool[i - 1] << (i > 1 ? "." : "");
            if (sc.pool.empty()) out << "-";
            out << " viol=" << (sc.sched.violation.empty() ? "-" : sc.sched.violation);
            puts(out.str().c_str());
            fflush(stdout);
            Cur = nullptr;
        }
    }
    return 0;
}
