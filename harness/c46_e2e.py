"""C46 end-to-end harness: the staged squid with `proxy_auth REQUIRED`, a Basic authenticator that is a byte relay to this
process (e2e/helpers/c46_relay.c), a recording origin and raw clients.

One scenario = one line: `c<ttl>:<authTtl> <step> ...` with steps
    a<tag>:<conn>:<hex of the Proxy-Authorization value | .>   client <tag> sends a GET on connection <conn> (reused when idle)
    r<k>                                                       the helper answers its k-th lookup of this scenario honestly (OK iff the
                                                               password it was asked about is "pw-"+user; ERR otherwise)
    t<seconds>                                                 let squid_curtime advance
    g                                                          (instances with authenticate_ttl <gc>, garbage interval 1 s) a cache clean-up has run
The harness is *scripted but blind*: it does not know what Squid should do.  It learns what Squid did from positive signals only:
the client's response, the origin's arrival record, the line the helper received, and Squid's own debug trace (sections 29 and 84
in cache.log, which the rebuilt binary writes unbuffered): `CreateAuthUser: header = '…'`, `initialised request 0x…`,
`Creating new user` / `Found user` / `new password found`, `startHelperLookup:`, `submit:  buf[`, `HandleReply:`, and the
`Validating … '0x…'` + `authenticate: header` pair that opens every resumed check.  After every step a sentinel request without
credentials is answered (407) before the trace is read: Squid is single threaded and runs its event queue in order, so everything
the step caused synchronously is in the trace by then.  One scenario at a time per Squid instance; every run uses a fresh
`key_extras` salt (request header X-Sc) so that records of earlier runs cannot be hit.

Observation: one token per step, e.g.
    a1:new,sub1:75:70772d75   a3:same,q   a5:same,f200/75   a4:n407/-   r1:o[1=f200/75,3=f200/75]   r3:skip   t8   wait=7
"""
import os, re, socket, threading, time, subprocess, queue, urllib.parse
from e2e import rig

VERIF = os.path.dirname(os.path.dirname(os.path.abspath(__file__)))


def hx(b):
    return b.hex() if b else "-"


def build_relay(stage):
    exe = os.path.join(stage.work, "c46_relay")
    if not os.path.exists(exe):
        r = subprocess.run(["gcc", "-O1", "-o", exe + ".tmp", os.path.join(VERIF, "e2e", "helpers", "c46_relay.c")], capture_output=True, text=True)
        if r.returncode != 0:
            raise RuntimeError("cannot build the helper relay: " + r.stderr[-2000:])
        os.replace(exe + ".tmp", exe)
    return exe


def unescape1738(s):
    return urllib.parse.unquote_to_bytes(s)


class Control:
    """the check's end of the helper relay: a unix socket the stub connects to"""

    def __init__(self, path):
        self.path = path
        try:
            os.unlink(path)
        except OSError:
            pass
        self.srv = socket.socket(socket.AF_UNIX)
        self.srv.bind(path)
        os.chmod(path, 0o666)
        self.srv.listen(8)
        self.conn = None
        self.lines = queue.Queue()
        self.running = True
        threading.Thread(target=self._accept, daemon=True).start()

    def _accept(self):
        while self.running:
            try:
                c, _ = self.srv.accept()
            except OSError:
                return
            self.conn = c
            threading.Thread(target=self._read, args=(c,), daemon=True).start()

    def _read(self, c):
        buf = b""
        while True:
            try:
                d = c.recv(65536)
            except OSError:
                return
            if not d:
                return
            buf += d
            while b"\n" in buf:
                l, buf = buf.split(b"\n", 1)
                self.lines.put(l)

    def take(self, timeout):
        try:
            return self.lines.get(timeout=timeout)
        except queue.Empty:
            return None

    def drain(self):
        n = 0
        while True:
            try:
                self.lines.get_nowait()
                n += 1
            except queue.Empty:
                return n

    def send(self, data):
        self.conn.sendall(data)

    def close(self):
        self.running = False
        try:
            self.srv.close()
        except OSError:
            pass


CONF = """auth_param basic program {relay} {ctl}
auth_param basic children 1 startup=1 idle=1 concurrency=2000
auth_param basic realm verif
{ttl}auth_param basic key_extras "%{{X-Sc}}>h"
{gc}
acl authed proxy_auth REQUIRED
cache deny all
debug_options ALL,1 29,9 84,9
logformat c46 %>Hs %#un %ru
access_log stdio:{{dir}}/c46.log c46
"""


class Instance:
    def __init__(self, stage, relay, ttl, idx, gc=0):
        self.ttl = ttl
        self.gc = gc
        self.ctl = Control(os.path.join(stage.work, "c46-ctl-%d-%d.sock" % (os.getpid(), idx)))
        conf = CONF.format(relay=relay, ctl=self.ctl.path, ttl=("auth_param basic credentialsttl %d seconds\n" % ttl) if ttl else "",
                           gc=("authenticate_ttl %d seconds\nauthenticate_cache_garbage_interval 1 second\n" % gc) if gc else "")
        self.squid = rig.Squid(stage, conf=conf, access="http_access allow authed\nhttp_access deny all\n")
        self.logpath = os.path.join(self.squid.dir, "cache.log")
        self.sentinel = None
        self.nsent = 0

    def launch(self):
        """Popen without waiting (rig.Squid.start does both); called from the main thread only"""
        sq = self.squid
        sq._rm_shm()
        sq.errlog = open(os.path.join(sq.dir, "stderr.log"), "ab")
        sq.proc = subprocess.Popen([sq.binary(), "-N", "-n", sq.name, "-f", sq.conf_path, "-d1"], env=sq.env, stdout=sq.errlog, stderr=sq.errlog,
                                   preexec_fn=rig._child_setup)
        sq._watchdog(sq.proc.pid)

    def ready(self):
        return "Accepting HTTP Socket connections" in self.squid.cache_log()

    def start(self):
        """blocking (re)start with a fresh port, for the instances whose parallel launch failed"""
        for attempt in range(4):
            try:
                self.squid.stop(kill=True)
            except Exception:
                pass
            self.squid.port = rig.free_port()
            text = open(self.squid.conf_path).read()
            text = re.sub(r"http_port 127\.0\.0\.1:\d+", "http_port 127.0.0.1:%d" % self.squid.port, text)
            open(self.squid.conf_path, "w").write(text)
            try:
                os.truncate(self.logpath, 0)
            except OSError:
                pass
            try:
                self.squid.start(wait=90)
                return self
            except RuntimeError:
                if attempt == 3:
                    raise
        return self

    def c46_log(self):
        try:
            return open(os.path.join(self.squid.dir, "c46.log"), errors="replace").read()
        except OSError:
            return ""

    def log_size(self):
        try:
            return os.path.getsize(self.logpath)
        except OSError:
            return 0

    def log_from(self, off):
        """complete lines written since offset -> (text, new offset)"""
        try:
            with open(self.logpath, "rb") as f:
                f.seek(off)
                data = f.read()
        except OSError:
            return "", off
        k = data.rfind(b"\n")
        if k < 0:
            return "", off
        return data[:k + 1].decode("latin-1"), off + k + 1

    def settle(self, oport):
        """a request without credentials, answered by Squid itself (407): everything queued before it has run"""
        for attempt in range(3):
            try:
                if self.sentinel is None:
                    self.sentinel = rig.Client(self.squid.port, timeout=15)
                self.nsent += 1
                self.sentinel.send(("GET http://127.0.0.1:%d/sentinel/%d HTTP/1.1\r\nHost: 127.0.0.1:%d\r\n\r\n" % (oport, self.nsent, oport)).encode())
                r = self.sentinel.response()
                if r is not None and r["status"] == 407:
                    return True
            except OSError:
                pass
            try:
                self.sentinel.close()
            except Exception:
                pass
            self.sentinel = None
        return False

    def stop(self):
        try:
            if self.sentinel:
                self.sentinel.close()
        except Exception:
            pass
        self.squid.stop(kill=True)
        self.ctl.close()


RE_PTR = re.compile(r"initialised request (0x[0-9a-f]+)")
RE_VALIDATING = re.compile(r"Validating Auth::UserRequest '(0x[0-9a-f]+)'")


class Scenario:
    def __init__(self, e2e, inst, line):
        self.e2e, self.inst, self.line = e2e, inst, line
        self.origin = e2e.origin
        self.T = 12 * rig.VERIF_SLOW

    # ---- pieces
    def seg_limit(self):
        """longest run of steps between two clock steps for which "no time passes" is a sound reading of the scenario"""
        lim = self.inst.ttl
        if self.inst.gc:
            lim = min(lim, self.inst.gc)
        return max(1.0, lim - 2.5)

    def fail(self, what):
        return "abort:" + what

    def honest(self, user, pw):
        return pw == b"pw-" + user

    def wait_response(self, tag):
        """the client's response for tag: (status, forwarded, body_ok)"""
        rq = self.reqs[tag]
        r = rq["client"].response(timeout=self.T)
        rq["done"] = True
        if r is None:
            rq["outcome"] = ("none", False)
            return
        arrivals = [a for a in self.origin.requests(self.sid) if a["first"].split(" ")[1].endswith("/%d" % tag)]
        rq["status"] = r["status"]
        rq["arrivals"] = len(arrivals)
        rq["body_ok"] = (r["body"] == b"body-of-%d" % tag) if r["status"] == 200 else None
        rq["challenge"] = rig.hget(r["hdrs"], "proxy-authenticate")
        rq["keep"] = (rig.hget(r["hdrs"], "connection", "").lower() != "close") and r["complete"]

    def parse_lookup(self, chunk_lines, start):
        """from index start: is there a startHelperLookup, and was it submitted? stops at the next resume/creation marker.
        -> (looked, submitted): submitted is True, False (queued) or "toolong" (Squid refused to build the helper line)"""
        looked, submitted = False, False
        for l in chunk_lines[start:]:
            if "CreateAuthUser: header" in l or "authenticate: header " in l or "HandleReply: reply" in l:
                break
            if "startHelperLookup: '" in l:
                looked = True
            elif looked and "submit:  buf[" in l:
                submitted = True
            elif looked and "Basic Authentication Failure" in l:
                submitted = "toolong"
        return looked, submitted

    def take_helper_line(self):
        l = self.inst.ctl.take(self.T)
        if l is None:
            return None
        w = l.split(b" ")
        # "<channel> <user> <pw> <extras>"; an empty user makes two blanks in a row
        chan = w[0]
        rest = l[len(chan) + 1:]
        parts = rest.split(b" ")
        user = unescape1738(parts[0].decode("latin-1")) if len(parts) > 0 else b""
        pw = unescape1738(parts[1].decode("latin-1")) if len(parts) > 1 else b""
        self.lookups.append({"chan": chan, "user": user, "pw": pw, "answered": False, "raw": l})
        return len(self.lookups)

    # ---- the run
    def run(self):
        inst = self.inst
        toks = self.line.split(" ")
        m = re.fullmatch(r"c(\d+):(\d+)", toks[0])
        if not m:
            return "bad-op"
        steps = toks[1:]
        for s in steps:
            if not re.fullmatch(r"a\d+:\d+:(\.|-|[0-9a-f]+)|r\d+|t\d+|g", s):
                return "bad-op"
        if not inst.squid.alive():
            return "abort:squid-died"
        with self.e2e.lock:
            self.e2e.n += 1
            self.sid = "c%d" % self.e2e.n
        salt = "%s-%d" % (self.sid, int(time.time() * 1000) % 100000000)
        self.origin.on(self.sid, lambda req: [("send", rig.simple_response(200, b"body-of-" + req["first"].split(" ")[1].rsplit("/", 1)[1].encode()))])
        oport = self.origin.port
        self.reqs, self.lookups, self.ptr, self.allconns = {}, [], {}, []
        conns = {}
        out = []
        inst.ctl.drain()
        if not inst.settle(oport):
            return self.fail("no-sentinel")
        off = inst.log_size()
        gc_off = off
        seg_start = time.time()
        slow = False
        try:
            for s in steps:
                if s[0] == "t":
                    d = int(s[1:])
                    if inst.ttl and time.time() - seg_start > self.seg_limit():
                        slow = True
                    time.sleep(d + 0.15)
                    seg_start = time.time()
                    out.append(s)
                    continue
                if s == "g":
                    if not inst.gc:
                        return "bad-op"
                    # a clean-up that ran after this point has seen the current clock; the evictions of all clean-ups since the
                    # previous `g` (they run every second) are this step's observation
                    mark = off
                    t0 = time.time()
                    seen = ""
                    while time.time() - t0 < 3.0 * rig.VERIF_SLOW:
                        text, mark = inst.log_from(mark)
                        seen += text
                        if "Cleanup: checkpoint" in seen:
                            break
                        time.sleep(0.05)
                    if not inst.settle(oport):
                        return self.fail("no-sentinel")
                    text, off = inst.log_from(gc_off)
                    gc_off = off
                    ev = set()
                    for l in text.split("\n"):
                        mm = re.search(r"cleanup: evicting (.*):%s$" % re.escape(salt), l)
                        if mm:
                            ev.add(hx(mm.group(1).encode("latin-1")))
                    out.append("g[%s]" % ",".join(sorted(ev)))
                    continue
                if s[0] == "a":
                    t_, c_, h_ = s[1:].split(":")
                    tag, cid = int(t_), int(c_)
                    hdr = None if h_ == "." else (b"" if h_ == "-" else bytes.fromhex(h_))
                    if tag in self.reqs:
                        return "bad-op"
                    if hdr is not None and (re.search(rb"[\r\n\0]", hdr) or hdr[:1] in (b" ", b"\t") or hdr[-1:] in (b" ", b"\t")):
                        return "bad-op"
                    cl = conns.get(cid)
                    if cl is None or cl["busy"] is not None and not self.reqs[cl["busy"]].get("done") or not cl["keep"]:
                        cl = {"c": rig.Client(inst.squid.port, timeout=self.T), "busy": None, "keep": True}
                        conns[cid] = cl
                        self.allconns.append(cl["c"])
                    head = b"GET " + self.origin.url(self.sid, str(tag)).encode() + b" HTTP/1.1\r\nHost: 127.0.0.1:%d\r\nX-Sc: %s\r\n" % (oport, salt.encode())
                    if hdr is not None:
                        head += b"Proxy-Authorization: " + hdr + b"\r\n"
                    cl["c"].send(head + b"\r\n")
                    cl["busy"] = tag
                    rq = {"client": cl["c"], "hdr": hdr, "conn": cl}
                    self.reqs[tag] = rq
                    parts = []
                    needle = None if hdr is None else "CreateAuthUser: header = '%s'" % hdr.decode("latin-1")
                    chunk = ""
                    found = hdr is None
                    for attempt in range(40):
                        if not inst.settle(oport):
                            return self.fail("no-sentinel")
                        text, off = inst.log_from(off)
                        chunk += text
                        if hdr is None or needle in chunk:
                            found = True
                            break
                        time.sleep(0.02 * (attempt + 1))
                    if not found:
                        return self.fail("step-lost a%d" % tag)
                    lines = chunk.split("\n")
                    looked = submitted = False
                    if hdr is not None:
                        i0 = next(i for i, l in enumerate(lines) if needle in l)
                        for l in lines[i0 + 1:]:
                            if "CreateAuthUser: header" in l or "HandleReply: reply" in l:
                                break
                            mm = RE_PTR.search(l)
                            if mm and "ptr" not in rq:
                                rq["ptr"] = mm.group(1)
                                self.ptr[mm.group(1)] = tag
                            if "decode: Creating new user" in l:
                                parts.append("new")
                            elif "updateCached: Found user" in l:
                                parts.append("same")
                            elif "updateCached: new password found" in l and parts and parts[-1] == "same":
                                parts[-1] = "swap"
                        looked, submitted = self.parse_lookup(lines, i0 + 1)
                    if looked and submitted == "toolong":
                        self.wait_response(tag)
                        parts.append("toolong")
                        parts.append("@%d" % tag)
                    elif looked and submitted:
                        k = self.take_helper_line()
                        if k is None:
                            return self.fail("helper-line-missing a%d" % tag)
                        lk = self.lookups[-1]
                        lk["tag"] = tag
                        parts.append("sub%d:%s:%s" % (k, hx(lk["user"]), hx(lk["pw"])))
                    elif looked:
                        parts.append("q")
                    else:
                        self.wait_response(tag)
                        parts.append("@%d" % tag)    # filled in from the final outcome
                    out.append("a%d:%s" % (tag, ",".join(parts)))
                    continue
                # reply step
                k = int(s[1:])
                if k < 1 or k > len(self.lookups) or self.lookups[k - 1]["answered"]:
                    out.append("r%d:skip" % k)
                    continue
                lk = self.lookups[k - 1]
                lk["answered"] = True
                ok = self.honest(lk["user"], lk["pw"])
                inst.ctl.send(lk["chan"] + (b" OK\n" if ok else b" ERR\n"))
                chunk = ""
                t0 = time.time()
                while "HandleReply: reply" not in chunk:
                    text, off = inst.log_from(off)
                    chunk += text
                    if "HandleReply: reply" in chunk:
                        break
                    if time.time() - t0 > self.T:
                        return self.fail("reply-not-consumed r%d" % k)
                    time.sleep(0.002)
                if not inst.settle(oport):
                    return self.fail("no-sentinel")
                text, off = inst.log_from(off)
                chunk += text
                lines = chunk.split("\n")
                i0 = next(i for i, l in enumerate(lines) if "HandleReply: reply" in l)
                resumed = []
                lastptr = None
                for i in range(i0 + 1, len(lines)):
                    l = lines[i]
                    mm = RE_VALIDATING.search(l)
                    if mm:
                        lastptr = mm.group(1)
                    if "authenticate: header " in l:
                        if "No Proxy-Auth" in l:
                            continue
                        tg = self.ptr.get(lastptr)
                        if tg is None or self.reqs[tg].get("done"):
                            continue      # not a waiter of this scenario (e.g. the sentinel never gets here)
                        looked, submitted = self.parse_lookup(lines, i + 1)
                        resumed.append((tg, looked, submitted))
                    if "CreateAuthUser: header" in l:
                        break
                toks_r = []
                for tg, looked, submitted in resumed:
                    if looked and submitted == "toolong":
                        self.wait_response(tg)
                        toks_r.append("%d=toolong,@%d" % (tg, tg))
                    elif looked and submitted:
                        kk = self.take_helper_line()
                        if kk is None:
                            return self.fail("helper-line-missing r%d" % k)
                        self.lookups[-1]["tag"] = tg
                        toks_r.append("%d=sub%d:%s:%s" % (tg, kk, hx(self.lookups[-1]["user"]), hx(self.lookups[-1]["pw"])))
                    elif looked:
                        toks_r.append("%d=q" % tg)
                    else:
                        self.wait_response(tg)
                        toks_r.append("%d=@%d" % (tg, tg))
                out.append("r%d:%s[%s]" % (k, "o" if ok else "e", ",".join(toks_r)))
            if inst.ttl and time.time() - seg_start > self.seg_limit():
                slow = True
        finally:
            pass
        # ---- final outcomes: access.log user per tag
        done = [t for t, r in self.reqs.items() if r.get("done")]
        logged = {}
        t0 = time.time()
        while True:
            logged = {}
            for l in inst.c46_log().splitlines():
                w = l.split(" ")
                if len(w) >= 3:
                    mm = re.search(r"/s%s/(\d+)$" % self.sid, w[2])
                    if mm:
                        logged.setdefault(int(mm.group(1)), []).append((w[0], w[1]))
            if all(t in logged for t in done) or time.time() - t0 > 5 * rig.VERIF_SLOW:
                break
            time.sleep(0.01)
        for cl in self.allconns:
            cl.close()
        res = " ".join(out)
        for t in done:
            r = self.reqs[t]
            if "status" not in r:
                o = "none"
            else:
                lg = logged.get(t, [])
                if len(lg) == 1:
                    lu = "-" if lg[0][1] == "-" else hx(urllib.parse.unquote_to_bytes(lg[0][1]))
                    ls = lg[0][0]
                else:
                    lu, ls = "nolog%d" % len(lg), str(r["status"])
                o = "%s%d/%s" % ("f" if r["arrivals"] else "n", r["status"], lu)
                if r["arrivals"] > 1:
                    o += "/arrivals%d" % r["arrivals"]
                if ls != str(r["status"]):
                    o += "/logged%s" % ls
                if r["status"] == 200 and not r["body_ok"]:
                    o += "/foreign-body"
                if r["status"] == 407 and not (r["challenge"] or "").lower().startswith("basic"):
                    o += "/no-challenge"
            res = re.sub(r"@%d(?!\d)" % t, o, res)
        waiting = sorted(t for t, r in self.reqs.items() if not r.get("done"))
        if waiting:
            res += " wait=" + ",".join(map(str, waiting))
        if not inst.squid.alive():
            return "abort:squid-died"
        if slow:
            return "slow " + res
        return res


class E2E:
    """pool of Squid instances; scenarios are spread over worker threads, one scenario at a time per instance"""

    def __init__(self, stage, n_default=4, ttls=((6, 0), (6, 0), (6, 5), (6, 5))):
        self.stage = stage
        self.origin = rig.Origin()
        self.lock = threading.Lock()
        self.n = 0
        relay = build_relay(stage)
        self.pools = {}
        idx = 0
        self.instances = []
        for _ in range(n_default):
            idx += 1
            self.instances.append(Instance(stage, relay, 0, idx))
        for t, g in ttls:
            idx += 1
            self.instances.append(Instance(stage, relay, t, idx, gc=g))
        # squid is started from the main thread only; all instances are launched first and awaited together
        for i in self.instances:
            i.launch()
        t0 = time.time()
        pending = list(self.instances)
        while pending and time.time() - t0 < 120 * rig.VERIF_SLOW:
            pending = [i for i in pending if not i.ready() and i.squid.proc.poll() is None]
            failed = [i for i in self.instances if i.squid.proc is not None and i.squid.proc.poll() is not None]
            if failed:
                break
            time.sleep(0.05)
        for i in self.instances:
            if not i.ready() or i.squid.proc.poll() is not None:
                i.start()
            self.pools.setdefault((i.ttl, i.gc), []).append(i)

    def squids(self):
        return [i.squid for i in self.instances]

    def one(self, inst, line):
        try:
            return Scenario(self, inst, line).run()
        except (OSError, RuntimeError, StopIteration) as e:
            if not inst.squid.alive():
                probs = inst.squid.problems()
                return "abort:squid-died " + (re.sub(r"\s+", "_", probs[0])[:120] if probs else "")
            return "abort:io-error:" + type(e).__name__

    def ttl_of(self, line):
        m = re.match(r"c(\d+):(\d+)", line)
        return (int(m.group(1)), int(m.group(2))) if m else (0, 0)

    def run(self, lines, retry=None):
        """-> outputs; `retry(line, out)` says whether a scenario must be run again (flake guard)"""
        outs = [None] * len(lines)
        work = {}
        for i, l in enumerate(lines):
            t = self.ttl_of(l)
            if t not in self.pools:
                outs[i] = "bad-op"
                continue
            work.setdefault(t, queue.Queue()).put(i)
        threads = []

        def worker(inst, q):
            while True:
                try:
                    i = q.get_nowait()
                except queue.Empty:
                    return
                o = self.one(inst, lines[i])
                tries = 0
                while tries < 2 and retry is not None and retry(lines[i], o):
                    o2 = self.one(inst, lines[i])
                    tries += 1
                    if o2 == o:
                        break
                    o = o2
                outs[i] = o
        for t, q in work.items():
            for inst in self.pools[t]:
                th = threading.Thread(target=worker, args=(inst, q))
                th.start()
                threads.append(th)
        for th in threads:
            th.join()
        return outs

    def close(self):
        for i in self.instances:
            try:
                i.stop()
            except Exception:
                pass
        self.origin.close()
