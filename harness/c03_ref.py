"""C03: an independent message delimiter for HTTP/1.1 request streams, written from RFC 9112 (and RFC 9110 for field syntax).

It is the direct oracle of the property: it shares no code and no structure with Squid or with the Lean model (plain
line-at-a-time scanning over the whole byte string, python big integers, regular expressions).

`ref_stream(data)` -> (messages, fin)
  messages: list of Msg (start, head_end, end, method, target, version, framing, length, body, tol, close_after)
  fin: ("end",) | ("incomplete", why) | ("reject", why) | ("connect",) | ("close", why)

A message is *strict* when `tol` is empty: it matches the ABNF of RFC 9112 exactly. Every deviation that the RFC text
explicitly lets a recipient tolerate -- and that leaves the message boundaries well defined -- is accepted with a tag in
`tol` (the list below is the complete enumeration); anything else is ("reject", why): a recipient that forwards such a
message, or anything after it on the connection, fails the property.

  leading-empty-line   RFC 9112 2.2: "SHOULD ignore at least one empty line (CRLF) received prior to the request-line"
  bare-lf              2.2: "MAY recognize a single LF as a line terminator and ignore any preceding CR"
  bare-cr              2.2: bare CR "MUST [be] consider[ed] invalid or replace[d] with SP"; read here as SP
  nul                  RFC 9110 5.5: NUL in a field value: reject or replace with SP; read here as SP
  ctl-in-value         RFC 9110 5.5: other CTLs in a field value "MAY be retained"
  reqline-lenient      3: "MAY instead parse on whitespace-delimited word boundaries ... SP, HTAB, VT, FF, or bare CR"
  target-whitespace    3: whitespace inside the request-target ("SHOULD respond with 400 or 301"): first word = method, last = version
  http09               RFC 1945 Simple-Request `GET SP Request-URI CRLF` (documented HTTP/0.9 support)
  ws-before-first-field  2.2: whitespace-preceded lines (SP, HTAB; also VT, FF, bare CR as in the same section) between start-line
                       and first field: reject or ignore them
  obs-fold             5.2: a server MUST reject or "replace each received obs-fold with one or more SP octets"
  empty-list-element   RFC 9110 5.6.1: recipients MUST parse and ignore a reasonable number of empty list elements (Transfer-Encoding;
                       Content-Length when it is read as a list, provided a member is left)
  cl-duplicate         6.3 #5 / RFC 9110 8.6: identical Content-Length values, as a list or as repeated fields, MAY be accepted
  te-other-codings     6.1: transfer codings before the final `chunked` (a recipient may answer 501)
  te-and-cl            6.1/6.3 #3: Transfer-Encoding overrides Content-Length; the server "MUST close the connection after
                       responding to such a request"  -> close_after
  te-in-http10         6.1: Transfer-Encoding in an HTTP/1.0 message: "treat the message as if the framing is faulty ... and
                       close the connection after processing the message" -> close_after
  chunk-bws            7.1.1 (erratum 4667): BWS inside chunk-ext is grammar; SP/HTAB between chunk-size and CRLF without an
                       extension is the "bad whitespace" a recipient may skip
  chunk-ws-ctl         VT, FF, bare CR as whitespace in the chunk header line (2.2 whitespace leniency)
  trailer-syntax       a trailer line that is not `field-name ":" ...` (recipients that discard trailers need not parse them)
"""
import re

TOKEN = frozenset(b"!#$%&'*+-.^_`|~0123456789abcdefghijklmnopqrstuvwxyzABCDEFGHIJKLMNOPQRSTUVWXYZ")
WSP = b" \t"
LINE_WS = frozenset(b" \t\x0b\x0c\r")
HEXD = {c: int(chr(c), 16) for c in b"0123456789abcdefABCDEF"}
QDTEXT = frozenset([9, 32, 0x21]) | frozenset(range(0x23, 0x5C)) | frozenset(range(0x5D, 0x7F)) | frozenset(range(0x80, 0x100))
QPAIR = frozenset([9, 32]) | frozenset(range(0x21, 0x7F)) | frozenset(range(0x80, 0x100))
STRICT_LINE = re.compile(rb"([!#$%&'*+\-.^_`|~0-9A-Za-z]+) ([\x21-\x7e]+) HTTP/([0-9])\.([0-9])")
VERSION = re.compile(rb"HTTP/([0-9])\.([0-9])")
CODING = re.compile(rb"[!#$%&'*+\-.^_`|~0-9A-Za-z]+")


class Msg:
    __slots__ = ("start", "head_end", "end", "method", "target", "version", "framing", "length", "body", "tol", "close_after", "fields")

    def __repr__(self):
        return "Msg(%d,%d,%d,%r,%s,%s,tol=%s%s)" % (self.start, self.head_end, self.end, self.method, self.framing, self.length,
                                                    ",".join(sorted(set(self.tol))) or "-", ",close" if self.close_after else "")


def _token(b):
    return len(b) > 0 and all(c in TOKEN for c in b)


def ref_chunked(data, i, tol):
    """chunked-body at data[i:] -> ("done", body, end) | ("incomplete", why) | ("reject", why)"""
    n = len(data)
    body = bytearray()

    def skip_bws(p):
        """-> new position; tags VT/FF/bare-CR whitespace"""
        while p < n:
            c = data[p]
            if c in WSP:
                p += 1
            elif c in (11, 12) or (c == 13 and not (p + 1 < n and data[p + 1] == 10) and p + 1 < n):
                tol.append("chunk-ws-ctl")
                p += 1
            else:
                break
        return p

    while True:
        if i >= n:
            return ("incomplete", "chunk-size")
        if data[i] not in HEXD:
            return ("reject", "chunk-size")
        size = 0
        while i < n and data[i] in HEXD:
            size = size * 16 + HEXD[data[i]]
            i += 1
        if i >= n:
            return ("incomplete", "chunk-size")
        # chunk-ext / CRLF
        saw_ext = False
        while True:
            g = i
            i = skip_bws(i)
            if i >= n:
                return ("incomplete", "chunk-line")
            c = data[i]
            if c == 59:
                saw_ext = True
                i = skip_bws(i + 1)
                if i >= n:
                    return ("incomplete", "chunk-ext")
                if data[i] not in TOKEN:
                    return ("reject", "chunk-ext-name")
                while i < n and data[i] in TOKEN:
                    i += 1
                if i >= n:
                    return ("incomplete", "chunk-ext")
                k = skip_bws(i)
                if k >= n:
                    return ("incomplete", "chunk-ext")
                if data[k] != 61:
                    continue        # no value; the whitespace (if any) is judged by the next round
                i = skip_bws(k + 1)
                if i >= n:
                    return ("incomplete", "chunk-ext")
                if data[i] == 34:
                    i += 1
                    while True:
                        if i >= n:
                            return ("incomplete", "chunk-ext")
                        q = data[i]
                        if q == 34:
                            i += 1
                            break
                        if q == 92:
                            if i + 1 >= n:
                                return ("incomplete", "chunk-ext")
                            if data[i + 1] not in QPAIR:
                                return ("reject", "quoted-pair")
                            i += 2
                        elif q in QDTEXT:
                            i += 1
                        else:
                            return ("reject", "qdtext")
                elif data[i] in TOKEN:
                    while i < n and data[i] in TOKEN:
                        i += 1
                else:
                    return ("reject", "chunk-ext-val")
                if i >= n:
                    return ("incomplete", "chunk-ext")
                continue
            if c == 13:
                if i + 1 >= n:
                    return ("incomplete", "chunk-line")
                if data[i + 1] != 10:
                    return ("reject", "chunk-line-cr")
                if i > g:
                    if saw_ext:
                        return ("reject", "chunk-bws-after-ext")
                    tol.append("chunk-bws")     # whitespace between chunk-size and CRLF
                i += 2
                break
            return ("reject", "chunk-line-octet")
        if size > 0:
            if n - i < size:
                return ("incomplete", "chunk-data")
            body += data[i:i + size]
            i += size
            if i + 2 > n:
                if i < n and data[i] != 13:
                    return ("reject", "chunk-data-crlf")
                return ("incomplete", "chunk-data-crlf")
            if data[i:i + 2] != b"\r\n":
                return ("reject", "chunk-data-crlf")
            i += 2
            continue
        # trailer-section CRLF
        while True:
            k = data.find(b"\n", i)
            if k < 0:
                return ("incomplete", "trailer")
            raw = data[i:k]
            i = k + 1
            if raw.endswith(b"\r"):
                line = raw[:-1]
            else:
                line = raw
                tol.append("bare-lf")
            if line == b"":
                return ("done", bytes(body), i)
            name = line.split(b":", 1)[0]
            if b":" not in line or not _token(name):
                tol.append("trailer-syntax")


def ref_message(data, i):
    """one request at data[i:] -> ("msg", Msg) | ("connect", Msg) | ("incomplete", why) | ("reject", why)"""
    n = len(data)
    tol = []
    m = Msg()
    m.start = i
    m.close_after = False
    while True:
        if data[i:i + 2] == b"\r\n":
            i += 2
            tol.append("leading-empty-line")
        elif data[i:i + 1] == b"\n":
            i += 1
            tol += ["leading-empty-line", "bare-lf"]
        else:
            break
    if i >= n:
        return ("incomplete", "nothing-but-empty-lines")
    j = data.find(b"\n", i)
    if j < 0:
        return ("incomplete", "request-line")
    raw = data[i:j]
    if raw.endswith(b"\r"):
        line = raw[:-1]
    else:
        line = raw
        tol.append("bare-lf")
    mt = STRICT_LINE.fullmatch(line)
    simple = False
    if mt:
        method, target, vmaj, vmin = mt.group(1), mt.group(2), int(mt.group(3)), int(mt.group(4))
    else:
        words, cur = [], bytearray()
        for c in line:
            if c in LINE_WS:
                if cur:
                    words.append(bytes(cur))
                    cur = bytearray()
            else:
                cur.append(c)
        if cur:
            words.append(bytes(cur))
        if len(words) == 3 and _token(words[0]) and VERSION.fullmatch(words[2]) and 0 not in words[1]:
            v = VERSION.fullmatch(words[2])
            method, target, vmaj, vmin = words[0], words[1], int(v.group(1)), int(v.group(2))
            tol.append("reqline-lenient")
        elif len(words) > 3 and _token(words[0]) and VERSION.fullmatch(words[-1]) and 0 not in line:
            # whitespace inside the request-target: the first and the last word still are method and version
            v = VERSION.fullmatch(words[-1])
            a = len(words[0])
            while line[a] in LINE_WS:
                a += 1
            b = len(line) - len(words[-1])
            while line[b - 1] in LINE_WS:
                b -= 1
            method, target, vmaj, vmin = words[0], line[a:b], int(v.group(1)), int(v.group(2))
            tol += ["reqline-lenient", "target-whitespace"]
        elif len(words) == 2 and words[0] == b"GET" and not VERSION.fullmatch(words[1]) and 0 not in words[1]:
            method, target, vmaj, vmin = words[0], words[1], 0, 9
            simple = True
            tol.append("http09")
            if line != b"GET " + words[1]:
                tol.append("reqline-lenient")
        else:
            return ("reject", "request-line")
    m.method, m.target, m.version = method, target, (vmaj, vmin)
    m.tol = tol
    m.fields = []
    if simple:
        m.head_end = m.end = j + 1
        m.framing, m.length, m.body = "none", 0, b""
        return ("msg", m)
    if vmaj != 1:
        return ("reject", "version")
    # field lines
    p = j + 1
    fields = []
    while True:
        k = data.find(b"\n", p)
        if k < 0:
            return ("incomplete", "header-section")
        raw = data[p:k]
        p = k + 1
        if raw.endswith(b"\r"):
            l = raw[:-1]
        else:
            l = raw
            tol.append("bare-lf")
        if l == b"":
            break
        if b"\r" in l:
            tol.append("bare-cr")
            l = l.replace(b"\r", b" ")
        if b"\0" in l:
            tol.append("nul")
            l = l.replace(b"\0", b" ")
        if l[0] in WSP or (not fields and raw[0] in LINE_WS):
            if not fields:
                tol.append("ws-before-first-field")
                continue
            tol.append("obs-fold")
            fields[-1][1] = (fields[-1][1] + b" " + l.strip(WSP)).strip(WSP)
            continue
        if b":" not in l:
            return ("reject", "field-without-colon")
        name, val = l.split(b":", 1)
        if not _token(name):
            return ("reject", "whitespace-before-colon" if _token(name.rstrip(WSP)) else "field-name")
        val = val.strip(WSP)
        if any((c < 32 and c != 9) or c == 127 for c in val):
            tol.append("ctl-in-value")
        fields.append([name.lower(), val])
    m.head_end = p
    m.fields = fields
    te_vals = [v for nm, v in fields if nm == b"transfer-encoding"]
    cl_vals = [v for nm, v in fields if nm == b"content-length"]
    if te_vals:
        codings = []
        for v in te_vals:
            for el in v.split(b","):
                el = el.strip(WSP)
                if el == b"":
                    tol.append("empty-list-element")
                    continue
                codings.append(el.lower())
        if not codings or codings[-1] != b"chunked" or b"chunked" in codings[:-1]:
            return ("reject", "transfer-encoding-not-ending-in-chunked")
        if not all(CODING.fullmatch(c.split(b";")[0].strip(WSP)) for c in codings):
            return ("reject", "transfer-coding-syntax")
        if len(codings) > 1:
            tol.append("te-other-codings")
        if (vmaj, vmin) == (1, 0):
            tol.append("te-in-http10")
            m.close_after = True
        if cl_vals:
            tol.append("te-and-cl")
            m.close_after = True
        m.framing = "chunked"
    elif cl_vals:
        nums = []
        for v in cl_vals:
            els = [el.strip(WSP) for el in v.split(b",")]
            if len(els) > 1 and b"" in els:
                tol.append("empty-list-element")
                els = [el for el in els if el != b""]
            nums += els
        if not nums or any(not re.fullmatch(rb"[0-9]+", x) for x in nums):
            return ("reject", "content-length-invalid")
        vals = {int(x) for x in nums}
        if len(vals) > 1:
            return ("reject", "content-length-conflict")
        if len(nums) > 1:
            tol.append("cl-duplicate")
        m.framing, m.length = "cl", vals.pop()
    else:
        m.framing, m.length = "none", 0
    if method == b"CONNECT":
        m.end = m.head_end
        m.body = b""
        return ("connect", m)
    if m.framing == "none":
        m.end, m.body = m.head_end, b""
    elif m.framing == "cl":
        if n - p < m.length:
            return ("incomplete", "content-length-body")
        m.end, m.body = p + m.length, data[p:p + m.length]
    else:
        r = ref_chunked(data, p, tol)
        if r[0] != "done":
            return r
        m.body, m.end = r[1], r[2]
        m.length = len(m.body)
    return ("msg", m)


def ref_stream(data):
    msgs = []
    i = 0
    while True:
        if i >= len(data):
            return msgs, ("end",)
        r = ref_message(data, i)
        if r[0] in ("incomplete", "reject"):
            return msgs, r
        msgs.append(r[1])
        if r[0] == "connect":
            return msgs, ("connect",)
        if r[1].close_after:
            return msgs, ("close", ",".join(sorted(set(t for t in r[1].tol if t in ("te-and-cl", "te-in-http10")))))
        i = r[1].end


def adler(b):
    a, s = 1, 0
    for c in b:
        a = (a + c) % 65521
        s = (s + a) % 65521
    return (s << 16) | a
