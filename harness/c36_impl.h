// C36 harness: one base64 implementation behind plain function pointers.
#ifndef VERIF_C36_IMPL_H
#define VERIF_C36_IMPL_H
#include <cstddef>
#include <cstdint>
struct C36Impl {
    void (*dec_init)();
    int (*dec_update)(size_t *, uint8_t *, size_t, const char *);
    int (*dec_final)();
    int (*dec_single)(uint8_t *, char);
    void (*dec_get)(unsigned &, unsigned &, unsigned &);
    void (*dec_set)(unsigned, unsigned, unsigned);
    void (*enc_init)();
    size_t (*enc_update)(char *, size_t, const uint8_t *);
    size_t (*enc_final)(char *);
    size_t (*enc_single)(char *, uint8_t);
    void (*enc_get)(unsigned &, unsigned &);
    void (*enc_set)(unsigned, unsigned);
    void (*enc_raw)(char *, size_t, const uint8_t *);
    void (*enc_group)(char *, uint32_t);
    size_t (*decode_length)(size_t);
    size_t (*encode_length)(size_t);
    size_t (*raw_length)(size_t);
    size_t final_length;
    const signed char *(*dec_table)();
    const char *(*alphabet)();
    bool exact;   // code is ASan-instrumented: destination buffers are exact-size heap blocks
};
extern const C36Impl c36_local;    // lib/base64.cc compiled with HAVE_NETTLE_BASE64_H undefined
extern const C36Impl c36_nettle;   // libnettle through include/base64.h, as the squid binary uses it
#endif
