// C24 harness: the real Http::One::TeChunkedParser from the staged tree (built with ASan/UBSan), driven the way
// HttpStateData::decodeAndWriteReplyBody() / ConnStateData body-pipe code drive it: the unparsed rest is kept in an
// SBuf, every arriving segment is appended, parse() is called with a payload MemBuf of bounded potential space and
// remaining() is taken back; while the parser says needsMoreSpace() a fresh payload buffer is offered.
//
//   <kind> <relaxed 0|1> <hex input> <segs> <caps> [ignored...]
//       segs : comma list of segment lengths ("-" none); what is left over after the list is one last segment;
//              "*k" = every segment has length k
//       caps : comma list of potentialSpaceSize() values offered to successive parse() calls, used cyclically
//              ("-" = 2^30)
//   -> <verdict> stage=<n> fed=<n> consumed=<n|-> out=<hex> calls=<n> th=<trace hash> tr=<first 24 calls: done,needData,needSpace/rest/outlen>
//      verdict: done | more | toolarge | reject:<class>
//   --dump-sets -> behavioural dump of the octet sets the parser uses (see translate/chunked_sets.py)
#include "squid.h"
#include "base/TextException.h"
#include "http/one/TeChunkedParser.h"
#include "http/one/Tokenizer.h"
#include "http/one/Parser.h"
#include "parser/Tokenizer.h"
#include "MemBuf.h"
#include "sbuf/SBuf.h"
#include "SquidConfig.h"

#include <cstdio>
#include <cstring>
#include <iostream>
#include <sstream>
#include <string>
#include <vector>

static bool unhex(const std::string &h, std::string &r) {
    r.clear();
    if (h == "-") return true;
    if (h.size() % 2) return false;
    auto val = [](char c) -> int {
        if (c >= '0' && c <= '9') return c - '0';
        if (c >= 'a' && c <= 'f') return c - 'a' + 10;
        if (c >= 'A' && c <= 'F') return c - 'A' + 10;
        return -1;
    };
    r.reserve(h.size() / 2);
    for (size_t i = 0; i + 1 < h.size(); i += 2) {
        const int a = val(h[i]), b = val(h[i + 1]);
        if (a < 0 || b < 0) return false;
        r.push_back(static_cast<char>(a * 16 + b));
    }
    return true;
}
static std::string hex(const std::string &s) {
    if (s.empty()) return "-";
    static const char *d = "0123456789abcdef";
    std::string r;
    r.reserve(s.size() * 2);
    for (unsigned char c : s) { r.push_back(d[c >> 4]); r.push_back(d[c & 15]); }
    return r;
}

static bool parseList(const std::string &s, std::vector<size_t> &v, size_t &star) {
    v.clear(); star = 0;
    if (s == "-") return true;
    if (!s.empty() && s[0] == '*') {
        char *e = nullptr;
        star = strtoull(s.c_str() + 1, &e, 10);
        return star > 0 && *e == 0;
    }
    size_t i = 0;
    while (i < s.size()) {
        size_t j = s.find(',', i);
        if (j == std::string::npos) j = s.size();
        if (j == i) return false;
        for (size_t k = i; k < j; ++k) if (s[k] < '0' || s[k] > '9') return false;
        if (j - i > 12) return false;
        v.push_back(strtoull(s.substr(i, j - i).c_str(), nullptr, 10));
        i = j + 1;
    }
    return true;
}

static const char *classify(const char *what) {
    const std::string w(what ? what : "");
    auto has = [&](const char *x) { return w.find(x) != std::string::npos; };
    if (has("chunk starts with 0x")) return "zerox";
    if (has("negative chunk size")) return "negsize";
    if (has("corrupted chunk size")) return "size";
    if (has("cannot skip CRLF after [chunk-ext]")) return "extcrlf";
    if (has("cannot parse chunk-ext-name")) return "extname";
    if (has("invalid escaped character in quoted-pair")) return "qpair";
    if (has("invalid bytes for set")) return "qdtext";
    if (has("invalid input while expecting an HTTP token")) return "token";
    if (has("cannot skip chunk CRLF")) return "chunkcrlf";
    return "other";
}

// the stage is not observable through the public API except via needsMoreData/needsMoreSpace; expose it
class ExposedParser : public Http1::TeChunkedParser {
public:
    int stage() const { return static_cast<int>(parsingStage_); }
};

static void step(unsigned &h, unsigned v) { h = h * 31u + v + 1u; }

static std::string runCase(const std::string &line) {
    std::istringstream is(line);
    std::string kind, relaxedS, encH, segS, capS;
    if (!(is >> kind >> relaxedS >> encH >> segS >> capS)) return "bad-op";
    if (relaxedS != "0" && relaxedS != "1") return "bad-op";
    std::string enc;
    if (!unhex(encH, enc)) return "bad-op";
    std::vector<size_t> segs, caps; size_t segStar = 0, capStar = 0;
    if (!parseList(segS, segs, segStar) || !parseList(capS, caps, capStar)) return "bad-op";
    if (capStar) { caps.assign(1, capStar); }
    if (caps.empty()) caps.push_back(size_t(1) << 30);
    for (auto c : caps) if (c == 0 || c > (size_t(1) << 30)) return "bad-op";

    // materialise the segments
    std::vector<std::string> parts;
    size_t pos = 0;
    if (segStar) {
        while (pos < enc.size()) { const size_t n = std::min(segStar, enc.size() - pos); parts.push_back(enc.substr(pos, n)); pos += n; }
    } else {
        for (auto n : segs) { const size_t m = std::min(n, enc.size() - pos); parts.push_back(enc.substr(pos, m)); pos += m; }
        if (pos < enc.size() || parts.empty()) parts.push_back(enc.substr(pos));
    }

    Config.onoff.relaxed_header_parser = (relaxedS == "1");
    ExposedParser p;
    SBuf inBuf;
    std::string out;
    std::string verdict = "more";
    unsigned th = 0; size_t calls = 0; size_t capIdx = 0;
    std::string tr;
    bool stop = false;
    size_t fedBytes = 0;
    for (size_t si = 0; si < parts.size() && !stop; ++si) {
        // exact-size heap copy so that ASan sees over-reads of the input
        {
            char *seg = new char[parts[si].size() + 1];
            memcpy(seg, parts[si].data(), parts[si].size());
            inBuf.append(seg, parts[si].size());
            fedBytes += parts[si].size();
            delete[] seg;
        }
        while (true) {
            const size_t cap = caps[capIdx % caps.size()]; ++capIdx;
            MemBuf mb;
            mb.init(std::min<size_t>(cap + 1, 4096), cap + 1);
            p.setPayloadBuffer(&mb);
            bool done = false;
            try {
                done = p.parse(inBuf);
            } catch (const TextException &e) {
                verdict = std::string("reject:") + classify(e.what());
                out.append(mb.content(), mb.contentSize());
                stop = true;
            } catch (const Parser::InsufficientInput &) {
                verdict = "reject:escaped-insufficient-input";
                out.append(mb.content(), mb.contentSize());
                stop = true;
            } catch (const std::exception &e) {
                verdict = std::string("reject:exception");
                out.append(mb.content(), mb.contentSize());
                stop = true;
            }
            ++calls;
            if (stop) { step(th, 99); p.setPayloadBuffer(nullptr); mb.clean(); break; }
            inBuf = p.remaining();
            out.append(mb.content(), mb.contentSize());
            const bool nd = p.needsMoreData(), ns = p.needsMoreSpace();
            step(th, done ? 1 : 0); step(th, nd ? 1 : 0); step(th, ns ? 1 : 0);
            step(th, static_cast<unsigned>(inBuf.length())); step(th, static_cast<unsigned>(mb.contentSize()));
            if (calls <= 24) {
                char b[96];
                snprintf(b, sizeof(b), "%s%d%d%d/%u/%u", tr.empty() ? "" : ";", done ? 1 : 0, nd ? 1 : 0, ns ? 1 : 0,
                         static_cast<unsigned>(inBuf.length()), static_cast<unsigned>(mb.contentSize()));
                tr += b;
            }
            const bool again = ns && !inBuf.isEmpty();
            mb.clean();
            if (done) { verdict = "done"; stop = true; break; }
            if (!nd) { verdict = "toolarge"; stop = true; break; }
            if (!again) break;
        }
    }
    std::ostringstream os;
    const bool rejected = verdict.compare(0, 7, "reject:") == 0;
    os << verdict << " stage=";
    if (rejected) os << "-"; else os << p.stage();
    os << " fed=" << fedBytes;
    if (rejected)
        os << " consumed=-";
    else
        os << " consumed=" << (fedBytes - inBuf.length());
    os << " out=" << hex(out) << " calls=" << calls << " th=" << th << " tr=" << (tr.empty() ? "-" : tr);
    return os.str();
}


// ---- behavioural dump of the octet classes (translate/chunked_sets.py) ----
static void dumpBits(const char *name, const bool *m) {
    printf("%s ", name);
    for (int i = 0; i < 256; ++i) putchar(m[i] ? '1' : '0');
    putchar('\n');
}

static int dumpSets() {
    bool m[256];
    // BWS accepted by ParseStrictBws / ParseBws (strict and relaxed configuration)
    for (int mode = 0; mode < 3; ++mode) {
        Config.onoff.relaxed_header_parser = (mode == 2);
        for (int b = 0; b < 256; ++b) {
            const char in[2] = { static_cast<char>(b), 'x' };
            Parser::Tokenizer tok(SBuf(in, 2));
            try {
                if (mode == 0) Http1::ParseStrictBws(tok); else Http1::ParseBws(tok);
                m[b] = (b != 'x') && tok.remaining().length() == 1;
            } catch (...) { m[b] = true; /* consumed everything: only possible for 'x' itself being BWS */ }
        }
        dumpBits(mode == 0 ? "bwsStrict" : mode == 1 ? "bwsPlain" : "bwsRelaxed", m);
    }
    Config.onoff.relaxed_header_parser = 0;
    // token value octets: tokenOrQuotedString on <b> SP
    for (int b = 0; b < 256; ++b) {
        const char in[2] = { static_cast<char>(b), ' ' };
        Parser::Tokenizer tok(SBuf(in, 2));
        try { const auto v = Http1::tokenOrQuotedString(tok); m[b] = v.length() == 1 && tok.remaining().length() == 1; }
        catch (...) { m[b] = false; }
    }
    dumpBits("tokenVal", m);
    // qdtext: DQUOTE <b> DQUOTE
    for (int b = 0; b < 256; ++b) {
        const char in[3] = { '"', static_cast<char>(b), '"' };
        Parser::Tokenizer tok(SBuf(in, 3));
        try { const auto v = Http1::tokenOrQuotedString(tok); m[b] = v.length() == 1 && tok.atEnd() && b != '\\'; }
        catch (...) { m[b] = false; }
    }
    dumpBits("qdtext", m);
    // quoted-pair octets: DQUOTE \ <b> DQUOTE
    for (int b = 0; b < 256; ++b) {
        const char in[4] = { '"', '\\', static_cast<char>(b), '"' };
        Parser::Tokenizer tok(SBuf(in, 4));
        try { const auto v = Http1::tokenOrQuotedString(tok); m[b] = v.length() == 1 && tok.atEnd(); }
        catch (...) { m[b] = false; }
    }
    dumpBits("qpair", m);
    // chunk-ext-name octets and chunk-size digit values, through the whole parser
    for (int b = 0; b < 256; ++b) {
        std::string in = "1;"; in.push_back(static_cast<char>(b)); in += "\r\nX\r\n";
        ExposedParser p; MemBuf mb; mb.init(); p.setPayloadBuffer(&mb);
        try { p.parse(SBuf(in.data(), in.size())); m[b] = mb.contentSize() == 1; }
        catch (...) { m[b] = false; }
        mb.clean();
    }
    dumpBits("extName", m);
    printf("hexVal");
    for (int b = 0; b < 256; ++b) {
        int v = 16;
        for (int n = 0; n < 16 && v == 16; ++n) {
            std::string in; in.push_back(static_cast<char>(b)); in += "\r\n";
            if (n) { in.append(n, 'X'); in += "\r\n"; }
            ExposedParser p; MemBuf mb; mb.init(); p.setPayloadBuffer(&mb);
            try {
                p.parse(SBuf(in.data(), in.size()));
                // n = 0: last-chunk recognised (stage MIME); n > 0: exactly n octets copied and the chunk closed (stage CHUNK_SZ)
                if (static_cast<int>(mb.contentSize()) == n && p.stage() == (n ? 2 : 5) && p.remaining().isEmpty()) v = n;
            } catch (...) {}
            mb.clean();
        }
        printf(" %d", v);
    }
    putchar('\n');
    return 0;
}

int main(int argc, char **argv) {
    if (argc > 1 && !strcmp(argv[1], "--dump-sets")) {
        return dumpSets();
    }
    std::string line;
    while (std::getline(std::cin, line)) {
        puts(runCase(line).c_str());
        fflush(stdout);
    }
    return 0;
}
