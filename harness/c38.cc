// C38 harness: the real ProxyProtocol::Parse() from the staged tree (Parser.cc, Header.cc, BinaryTokenizer.cc built
// with ASan/UBSan).
//   p <hex>          -> outcome of Parse(bytes)
//   a <hex>          -> outcomes of Parse() on every prefix (lengths 0..n), run-length compressed "lo-hi:outcome ..."
//   s <k1,k2,..> <hex> -> "k:outcome" for the listed prefix lengths
//   i <hex>          -> what Ip::Address::GetHostByName() stores for the text: "ip <32 hex>" or "none"
// outcome (one token): more | reject:<slug of the exception message>[;dns=<hex>,..] |
//   ok;size=N;ver=V;cmd=C;addrs=A;fwd=F;src=<32hex>:<port>;dst=<32hex>:<port>;tlvs=<type>:<hex>,..|-[;dns=..]
// getaddrinfo() is wrapped (-Wl,--wrap=getaddrinfo): every call is forced to AI_NUMERICHOST so that the harness never
// touches name services; a call that *would* have consulted them (no AI_NUMERICHOST requested and the text is not
// numeric) is recorded and reported as ";dns=<hex of the name>", and fails like an unresolvable name.
#include "squid.h"
#include "base/TextException.h"
#include "ip/Address.h"
#include "parser/BinaryTokenizer.h"
#include "proxyp/Elements.h"
#include "proxyp/Header.h"
#include "proxyp/Parser.h"
#include "sbuf/SBuf.h"

#include <cstdio>
#include <cstring>
#include <iostream>
#include <netdb.h>
#include <sstream>
#include <string>
#include <vector>

static std::vector<std::string> DnsQueries;

extern "C" int __real_getaddrinfo(const char *node, const char *service, const struct addrinfo *hints, struct addrinfo **res);
extern "C" int __wrap_getaddrinfo(const char *node, const char *service, const struct addrinfo *hints, struct addrinfo **res)
{
    struct addrinfo h;
    if (hints)
        h = *hints;
    else
        memset(&h, 0, sizeof(h));
    const bool numericOnly = (h.ai_flags & AI_NUMERICHOST) != 0;
    h.ai_flags |= AI_NUMERICHOST;
    const int rc = __real_getaddrinfo(node, service, &h, res);
    if (rc != 0 && !numericOnly && node)
        DnsQueries.push_back(node);
    return rc;
}

static std::string unhex(const std::string &h) {
    std::string r;
    if (h == "-") return r;
    for (size_t i = 0; i + 1 < h.size(); i += 2)
        r.push_back(static_cast<char>(std::stoi(h.substr(i, 2), nullptr, 16)));
    return r;
}
static std::string hex(const std::string &s) {
    if (s.empty()) return "-";
    static const char *d = "0123456789abcdef";
    std::string r;
    for (unsigned char c : s) { r.push_back(d[c >> 4]); r.push_back(d[c & 15]); }
    return r;
}

static std::string slug(const std::string &m) {
    std::string r;
    bool dash = false;
    for (unsigned char c : m) {
        if (isalnum(c)) { if (dash && !r.empty()) r.push_back('-'); dash = false; r.push_back(static_cast<char>(tolower(c))); }
        else dash = true;
    }
    return r;
}

static std::string errorClass(std::string msg) {
    const auto nl = msg.find('\n');
    if (nl != std::string::npos) msg.resize(nl);
    static const std::string p1 = "PROXY/1.0 error: ", p2 = "PROXY/2.0 error: ", p0 = "PROXY protocol error: ";
    if (msg.compare(0, p1.size(), p1) == 0) return "v1-" + slug(msg.substr(p1.size()));
    if (msg.compare(0, p2.size(), p2) == 0) return "v2-" + slug(msg.substr(p2.size()));
    if (msg.compare(0, p0.size(), p0) == 0) return slug(msg.substr(p0.size()));
    return slug(msg);
}

static std::string addrStr(const Ip::Address &a) {
    struct in6_addr raw;
    a.getInAddr(raw);
    return hex(std::string(reinterpret_cast<const char *>(&raw), sizeof(raw))) + ":" + std::to_string(a.port());
}

static std::string dnsTrailer() {
    if (DnsQueries.empty()) return "";
    std::string r = ";dns=";
    for (size_t i = 0; i < DnsQueries.size(); ++i) { if (i) r += ","; r += hex(DnsQueries[i]); }
    return r;
}

static std::string parseOne(const std::string &bytes) {
    DnsQueries.clear();
    std::string out;
    try {
        // exact-size heap copy as the source of the SBuf
        char *in = new char[bytes.size() ? bytes.size() : 1];
        memcpy(in, bytes.data(), bytes.size());
        const SBuf buf(in, bytes.size());
        delete[] in;
        const auto parsed = ProxyProtocol::Parse(buf);
        const auto &h = *parsed.header;
        std::ostringstream os;
        os << "ok;size=" << parsed.size << ";ver=" << (h.version() == SBuf("1.0") ? "1" : h.version() == SBuf("2.0") ? "2" : "?");
        // command_ is private: htPseudoCommand prints it
        os << ";cmd=" << h.getValues(ProxyProtocol::Two::htPseudoCommand);
        os << ";addrs=" << (h.hasAddresses() ? 1 : 0) << ";fwd=" << (h.hasForwardedAddresses() ? 1 : 0);
        os << ";src=" << addrStr(h.sourceAddress) << ";dst=" << addrStr(h.destinationAddress) << ";tlvs=";
        if (h.tlvs.empty()) os << "-";
        bool first = true;
        for (const auto &t : h.tlvs) {
            if (!first) os << ",";
            first = false;
            os << static_cast<unsigned>(t.type) << ":" << hex(std::string(t.value.rawContent(), t.value.length()));
        }
        out = os.str();
    } catch (const Parser::BinaryTokenizer::InsufficientInput &) {
        out = "more";
    } catch (const TextException &e) {
        out = "reject:" + errorClass(static_cast<const std::runtime_error &>(e).what());
    } catch (const std::exception &e) {
        out = "reject:other-" + slug(e.what());
    }
    return out + dnsTrailer();
}

int main(int argc, char **argv) {
    std::string line;
    while (std::getline(std::cin, line)) {
        std::vector<std::string> w;
        { std::istringstream is(line); std::string t; while (is >> t) w.push_back(t); }
        std::string out = "bad-op";
        if (w.size() == 2 && w[0] == "p") {
            out = parseOne(unhex(w[1]));
        } else if (w.size() == 2 && w[0] == "a") {
            const std::string b = unhex(w[1]);
            out.clear();
            std::string cur; size_t lo = 0;
            for (size_t k = 0; k <= b.size(); ++k) {
                const std::string o = parseOne(b.substr(0, k));
                if (k == 0) { cur = o; lo = 0; continue; }
                if (o != cur) {
                    if (!out.empty()) out += " ";
                    out += std::to_string(lo) + "-" + std::to_string(k - 1) + ":" + cur;
                    cur = o; lo = k;
                }
            }
            if (!out.empty()) out += " ";
            out += std::to_string(lo) + "-" + std::to_string(b.size()) + ":" + cur;
        } else if (w.size() == 3 && w[0] == "s") {
            const std::string b = unhex(w[2]);
            out.clear();
            std::istringstream is(w[1]); std::string t; bool bad = false;
            while (std::getline(is, t, ',')) {
                if (t.empty() || t.find_first_not_of("0123456789") != std::string::npos || t.size() > 9) { bad = true; break; }
                const size_t k = std::stoul(t);
                if (!out.empty()) out += " ";
                out += t + ":" + parseOne(b.substr(0, k));
            }
            if (bad) out = "bad-op";
        } else if (w.size() == 2 && w[0] == "i") {
            const std::string b = unhex(w[1]);
            DnsQueries.clear();
            if (b.find('\0') != std::string::npos) out = "bad-op";
            else {
                Ip::Address a;
                if (a.GetHostByName(b.c_str())) {
                    struct in6_addr raw; a.getInAddr(raw);
                    out = "ip " + hex(std::string(reinterpret_cast<const char *>(&raw), sizeof(raw)));
                } else out = "none";
            }
        }
        puts(out.c_str());
        fflush(stdout);
    }
    return 0;
}
