// C52 dump program: what the compiler of the staged tree says about the integer types the model reasons about.
// Output (one fact per line):
//   intbits <n>
//   type <idx> <name> <bits> <signed> <min|-> <max|->      canonical (pairwise distinct) integer types; idx 0 is int
//   alias <name> <idx>                                      fixed-width and other spellings -> canonical type
//   promote <idx> <bits> <signed>                           decltype(+a)
//   pair <i> <j> <cb> <cs> <sb> <ss> <au>                   std::common_type<A,B>, decltype(a+b), and
//                                                           AllUnsigned<decltype(+a),decltype(+b)> (the template of SquidMath.h)
#include "squid.h"
#include "SquidMath.h"

#include <climits>
#include <cstdio>
#include <string>
#include <tuple>
#include <typeinfo>
#include <utility>

using Canon = std::tuple<int, unsigned int, signed char, unsigned char, char, short, unsigned short, long, unsigned long,
      long long, unsigned long long, wchar_t, char16_t, char32_t, __int128, unsigned __int128>;
static const char *CanonNames[] = {"int", "unsigned_int", "signed_char", "unsigned_char", "char", "short", "unsigned_short", "long",
                                   "unsigned_long", "long_long", "unsigned_long_long", "wchar_t", "char16_t", "char32_t", "__int128",
                                   "unsigned___int128"
                                  };
constexpr size_t NC = std::tuple_size<Canon>::value;

template <typename T> constexpr bool isSignedT() { return T(-1) < T(0); }
template <typename T> constexpr int bitsT() { return int(sizeof(T) * CHAR_BIT); }

static std::string dec(__int128 v)
{
    if (v == 0)
        return "0";
    const bool neg = v < 0;
    unsigned __int128 u = neg ? -static_cast<unsigned __int128>(v) : static_cast<unsigned __int128>(v);
    std::string s;
    while (u) {
        s.insert(s.begin(), char('0' + int(u % 10)));
        u /= 10;
    }
    return neg ? "-" + s : s;
}

template <typename T>
static void typeLine(size_t idx)
{
    printf("type %zu %s %d %d", idx, CanonNames[idx], bitsT<T>(), isSignedT<T>() ? 1 : 0);
    if (std::numeric_limits<T>::is_specialized && sizeof(T) <= 8)
        printf(" %s %s\n", dec(static_cast<__int128>(std::numeric_limits<T>::min())).c_str(), dec(static_cast<__int128>(std::numeric_limits<T>::max())).c_str());
    else
        printf(" - -\n");
    using P = decltype(+T());
    printf("promote %zu %d %d\n", idx, bitsT<P>(), isSignedT<P>() ? 1 : 0);
}

template <typename A, typename B>
static void pairLine(size_t i, size_t j)
{
    using C = typename std::common_type<A, B>::type;
    using S = decltype(A() + B());
    using PA = decltype(+A());
    using PB = decltype(+B());
    printf("pair %zu %zu %d %d %d %d %d\n", i, j, bitsT<C>(), isSignedT<C>() ? 1 : 0, bitsT<S>(), isSignedT<S>() ? 1 : 0,
           AllUnsigned<PA, PB>::value ? 1 : 0);
}

template <size_t I, size_t... J>
static void pairRow(std::index_sequence<J...>)
{
    using A = typename std::tuple_element<I, Canon>::type;
    (pairLine<A, typename std::tuple_element<J, Canon>::type>(I, J), ...);
}

template <size_t... I>
static void allTypes(std::index_sequence<I...>)
{
    (typeLine<typename std::tuple_element<I, Canon>::type>(I), ...);
    (pairRow<I>(std::make_index_sequence<NC>()), ...);
}

template <typename T, size_t... I>
static void aliasLine(const char *name, std::index_sequence<I...>)
{
    int found = -1;
    ((typeid(T) == typeid(typename std::tuple_element<I, Canon>::type) ? (found = int(I)) : 0), ...);
    printf("alias %s %d\n", name, found);
}
#define ALIAS(name, T) aliasLine<T>(name, std::make_index_sequence<NC>())

int main()
{
    printf("intbits %d\n", bitsT<int>());
    allTypes(std::make_index_sequence<NC>());
    ALIAS("i8", int8_t);
    ALIAS("u8", uint8_t);
    ALIAS("i16", int16_t);
    ALIAS("u16", uint16_t);
    ALIAS("i32", int32_t);
    ALIAS("u32", uint32_t);
    ALIAS("i64", int64_t);
    ALIAS("u64", uint64_t);
    ALIAS("ch", char);
    ALIAS("ll", long long);
    ALIAS("ull", unsigned long long);
    return 0;
}
