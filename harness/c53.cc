// C53 harness: the real Ipc::Mem::PageStack / IdSet (an instrumented copy of the staged source: std::atomic -> verif::atomic)
// driven by virtual threads under a deterministic schedule, one atomic operation per step.
// line:  <capacity> <F|E> <nthreads> <ops of t0>;<ops of t1>;... <schedule: thread ids, comma separated | ->
//   F: the stack is created full (createFull=true), nobody holds a page.
//   E: the stack is created empty (createFull=false) and page number p (1..capacity) is initially held by thread (p-1) % nthreads
//      (this is how rock/shared-memory users populate an empty stack: by push()ing every page).
//   ops: P = pop;  U<k> = push the page at position (k mod #held) of the thread's held list (skipped when it holds nothing).
//        The held list is most-recent-first: a successful pop puts the page in front.
// After the schedule is exhausted the remaining threads run to completion round-robin.
// out:   log=<atomic operations in execution order> hist=<call/return events in real-time order> res=<per-thread results>
//        final=<size_>/<node values in array order> held=<per-thread held pages> q=<quiescent drain> viol=<-|text>
//   objects in the log: S = PageStack::size_, n<i> = IdSet::nodes_[i] (the flattened tree).
// The ownership table (who holds which page according to the API return values) is the direct oracle, kept here and
// re-checked from `hist` by props/C53.py (including a linearizability search for failing pops).
#include "squid.h"
#define private public
#include "ipc/mem/PageStack.h"
#undef private
#include "ipc/mem/Page.h"
#include "verif_sched.h"
#include "base/Here.h"
#include <iostream>
#include <sstream>
#include <algorithm>
#include <new>

// stubs for the symbols the copied translation unit needs besides tests/stub_debug.o
void xassert(const char *msg, const char *file, int line) { if (verif::sched) verif::sched->note(std::string("xassert:") + msg); }
std::ostream &SourceLocation::print(std::ostream &os) const { return os; }

using Ipc::Mem::PageId;
using Ipc::Mem::PageStack;

static const uint32_t PoolId = 7;

static std::vector<std::string> split(const std::string &s, char d) {
    std::vector<std::string> r; std::string cur;
    for (char c : s) { if (c == d) { r.push_back(cur); cur.clear(); } else cur.push_back(c); }
    r.push_back(cur);
    return r;
}

struct Scenario {
    PageStack *stack = nullptr;
    unsigned capacity = 0;
    std::vector<std::vector<uint32_t>> held;   // per thread, most recent first (page numbers, 1-based)
    std::vector<int> owner;                    // page number -> holding thread or -1 (index 0 unused)
    std::vector<std::string> results;
    std::vector<std::string> hist;
    verif::Sched sched;

    void take(int t, const PageId &page) {
        // direct oracle: validity and exclusivity of what pop() handed out
        if (page.pool != PoolId) sched.note("popped-page-with-wrong-pool");
        if (page.number < 1 || page.number > capacity) { sched.note("popped-invalid-page-" + std::to_string(page.number)); return; }
        if (owner[page.number] != -1) sched.note("page-" + std::to_string(page.number) + "-handed-out-while-held-by-" + std::to_string(owner[page.number]));
        owner[page.number] = t;
        held[t].insert(held[t].begin(), page.number);
    }

    void runOps(int t, const std::vector<std::string> &ops) {
        for (const auto &op : ops) {
            if (op == "P") {
                hist.push_back(std::to_string(t) + ":cP");
                PageId page;
                const bool ok = stack->pop(page);
                if (ok) {
                    take(t, page);
                    results[t] += "P=" + std::to_string(page.number) + ",";
                    hist.push_back(std::to_string(t) + ":rP" + std::to_string(page.number));
                } else {
                    if (page.set()) sched.note("failed-pop-set-the-page");
                    results[t] += "P=0,";
                    hist.push_back(std::to_string(t) + ":rP0");
                }
            } else if (op.size() >= 2 && op[0] == 'U') {
                if (held[t].empty()) continue;     // nothing to release: skipped, no atomic operation
                const size_t k = static_cast<size_t>(atoi(op.c_str() + 1)) % held[t].size();
                const uint32_t number = held[t][k];
                held[t].erase(held[t].begin() + k);
                owner[number] = -1;               // the caller gives the page up when it calls push()
                hist.push_back(std::to_string(t) + ":cU" + std::to_string(number));
                PageId page;
                page.pool = PoolId;
                page.number = number;
                stack->push(page);
                if (page.set()) sched.note("push-did-not-reset-the-page");
                results[t] += "U" + std::to_string(number) + "=1,";
                hist.push_back(std::to_string(t) + ":rU" + std::to_string(number));
            }
        }
    }
};

static bool validOp(const std::string &op) {
    if (op == "P") return true;
    if (op.size() < 2 || op.size() > 6 || op[0] != 'U') return false;
    for (size_t i = 1; i < op.size(); ++i) if (!isdigit(static_cast<unsigned char>(op[i]))) return false;
    return true;
}

// --dump-measurements: what the real IdSetMeasurements computes for a list of capacities (for translate/pagestack.py)
static int dumpMeasurements() {
    std::vector<uint64_t> caps = {0, 1, 2, 3, 100, 130, 200, 1000, 3200, 100000, 1000000, 4294967295ULL};
    for (int k = 5; k <= 32; ++k)
        for (int d = -1; d <= 1; ++d) {
            const uint64_t c = (1ULL << k) + d;
            if (c <= 4294967295ULL) caps.push_back(c);
        }
    std::sort(caps.begin(), caps.end());
    caps.erase(std::unique(caps.begin(), caps.end()), caps.end());
    for (const auto c : caps) {
        const Ipc::Mem::IdSetMeasurements m(static_cast<uint32_t>(c));
        printf("%llu %u %u %u %u %u\n", static_cast<unsigned long long>(c), m.requestedLeafNodeCount, m.treeHeight, m.leafNodeCount,
               m.innerLevelCount, m.nodeCount());
    }
    return 0;
}

int main(int argc, char **argv) {
    if (argc > 1 && std::string(argv[1]) == "--dump-measurements")
        return dumpMeasurements();
    std::string line;
    while (std::getline(std::cin, line)) {
        std::istringstream is(line);
        long cap = -1; std::string mode; int n = 0; std::string opsAll, schedStr;
        is >> cap >> mode >> n >> opsAll >> schedStr;
        if (cap < 0 || cap > 4096 || (mode != "F" && mode != "E") || n < 1 || n > 8 || opsAll.empty() || schedStr.empty()) { puts("bad-op"); fflush(stdout); continue; }
        auto per = split(opsAll, ';');
        if (static_cast<int>(per.size()) != n) { puts("bad-op"); fflush(stdout); continue; }
        std::vector<std::vector<std::string>> opsOf(n);
        bool bad = false;
        for (int t = 0; t < n; ++t) {
            if (per[t] == "-") continue;
            opsOf[t] = split(per[t], ',');
            for (const auto &o : opsOf[t]) if (!validOp(o)) bad = true;
        }
        std::vector<int> schedule;
        if (schedStr != "-")
            for (const auto &tk : split(schedStr, ',')) {
                if (tk.empty() || tk.size() > 3 || !std::all_of(tk.begin(), tk.end(), [](char c) { return isdigit(static_cast<unsigned char>(c)); })) { bad = true; break; }
                schedule.push_back(atoi(tk.c_str()));
            }
        if (bad) { puts("bad-op"); fflush(stdout); continue; }

        Scenario sc;
        sc.capacity = static_cast<unsigned>(cap);
        PageStack::Config cfg;
        cfg.poolId = PoolId;
        cfg.pageSize = 0;
        cfg.capacity = sc.capacity;
        cfg.createFull = (mode == "F");
        // ordinary zeroed heap memory of the size squid would reserve in the shared segment; the slack covers
        // FlexibleArray's `new Item[capacity]` (capacity items, not nodeCount) now that the shim's atomic zero-initialises itself
        const size_t need = PageStack::StackSize(sc.capacity) + sizeof(uint64_t) * (sc.capacity + 8);
        void *mem = nullptr;
        if (posix_memalign(&mem, 64, need) != 0) { puts("bad-op"); fflush(stdout); continue; }
        memset(mem, 0, need);
        sc.stack = new (mem) PageStack(cfg);
        const size_t nodeCount = sc.stack->ids_.measurements.nodeCount();
        sc.sched.name(&sc.stack->size_, "S");
        for (size_t i = 0; i < nodeCount; ++i) sc.sched.name(&sc.stack->ids_.nodes_[static_cast<int>(i)], "n" + std::to_string(i));
        sc.held.assign(n, {});
        sc.owner.assign(sc.capacity + 1, -1);
        sc.results.assign(n, "");
        if (mode == "E")
            for (uint32_t p = sc.capacity; p >= 1; --p) {   // descending, so that each held list is ascending
                sc.owner[p] = (p - 1) % n;
                sc.held[(p - 1) % n].insert(sc.held[(p - 1) % n].begin(), p);
            }
        verif::sched = &sc.sched;
        for (int t = 0; t < n; ++t) {
            const std::vector<std::string> ops = opsOf[t];
            sc.sched.spawn([&sc, t, ops]() { sc.runOps(t, ops); });
        }
        sc.sched.prime();
        for (int t : schedule) sc.sched.step(t);
        while (!sc.sched.allDone())
            for (int t = 0; t < n; ++t) sc.sched.step(t);
        verif::sched = nullptr;

        std::ostringstream out;
        out << "log=";
        for (size_t i = 0; i < sc.sched.log.size(); ++i) out << (i ? "," : "") << sc.sched.log[i];
        if (sc.sched.log.empty()) out << "-";
        out << " hist=";
        for (size_t i = 0; i < sc.hist.size(); ++i) out << (i ? "," : "") << sc.hist[i];
        if (sc.hist.empty()) out << "-";
        out << " res=";
        for (int t = 0; t < n; ++t) out << (t ? ";" : "") << (sc.results[t].empty() ? "-" : sc.results[t]);
        out << " final=" << sc.stack->size_.raw() << "/";
        for (size_t i = 0; i < nodeCount; ++i) out << (i ? "," : "") << sc.stack->ids_.nodes_[static_cast<int>(i)].raw();
        out << " held=";
        for (int t = 0; t < n; ++t) {
            out << (t ? ";" : "");
            if (sc.held[t].empty()) out << "-";
            for (size_t i = 0; i < sc.held[t].size(); ++i) out << (i ? "," : "") << sc.held[t][i];
        }
        // quiescent: every page nobody holds must be allocatable again (sequential drain, atomics run inline), exactly once
        {
            size_t expectFree = 0;
            for (uint32_t p = 1; p <= sc.capacity; ++p) if (sc.owner[p] == -1) ++expectFree;
            if (sc.stack->size() != expectFree) sc.sched.note("quiescent-size-" + std::to_string(sc.stack->size()) + "-but-free-" + std::to_string(expectFree));
            size_t got = 0;
            for (;;) {
                PageId page;
                if (!sc.stack->pop(page)) break;
                if (page.number < 1 || page.number > sc.capacity) { sc.sched.note("drain-popped-invalid-page-" + std::to_string(page.number)); break; }
                if (sc.owner[page.number] != -1) { sc.sched.note("drain-popped-held-or-duplicate-page-" + std::to_string(page.number)); break; }
                sc.owner[page.number] = n;   // the drainer
                if (++got > sc.capacity) break;
            }
            if (got != expectFree) sc.sched.note("released-pages-lost-" + std::to_string(expectFree - got) + "-of-" + std::to_string(expectFree));
            out << " q=" << got << "/" << expectFree;
        }
        std::string viol = sc.sched.violation.empty() ? "-" : sc.sched.violation;
        for (auto &c : viol) if (c == ' ') c = '_';   // one token: assert texts contain spaces
        out << " viol=" << viol;
        puts(out.str().c_str());
        fflush(stdout);
        sc.stack->~PageStack();
        free(mem);
    }
    return 0;
}
