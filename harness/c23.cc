// C23 harness: the real Http::One::ResponseParser from the staged tree (built with ASan/UBSan), driven the way
// HttpStateData::processReplyHeader() drives it:  inBuf.append(segment); if (inBuf.length()) { parse(inBuf); inBuf = remaining(); }
//
//   p <relaxed 0|1> <limit> <hex seg>...  -> "<outcome of the incremental feed> | <outcome of one parse() of the concatenation>"
//        outcome = st=<N|F|M|D> pr=<proto>/<major>.<minor> sc=<status> rp=<hex reason> mh=<hex mime block> psc=<parseStatusCode>
//                  rem=<hex unparsed bytes> ok=<last parse() result> fls=<firstLineSize()>
//   s <relaxed 0|1> <hex>                 -> ParseResponseStatus() alone: "ok <code> <hex rest>" | "insufficient <code>" | "invalid <code>"
//   --dump                                -> the two delimiter sets and the magic strings reachable through the public API
#include "squid.h"
#include "base/CharacterSet.h"
#include "http/one/ResponseParser.h"
#include "parser/Tokenizer.h"
#include "sbuf/SBuf.h"
#include "SquidConfig.h"

#include <cstdio>
#include <cstring>
#include <iostream>
#include <sstream>
#include <string>
#include <vector>

static bool unhex(const std::string &h, std::string &r) {
    r.clear();
    if (h == "-") return true;
    if (h.size() % 2) return false;
    for (size_t i = 0; i < h.size(); i += 2) {
        int v = 0;
        for (int k = 0; k < 2; ++k) {
            const char c = h[i + k];
            int d;
            if (c >= '0' && c <= '9') d = c - '0';
            else if (c >= 'a' && c <= 'f') d = c - 'a' + 10;
            else if (c >= 'A' && c <= 'F') d = c - 'A' + 10;
            else return false;
            v = v * 16 + d;
        }
        r.push_back(static_cast<char>(v));
    }
    return true;
}
static std::string hex(const char *p, size_t n) {
    if (!n) return "-";
    static const char *d = "0123456789abcdef";
    std::string r;
    for (size_t i = 0; i < n; ++i) { const unsigned char c = p[i]; r.push_back(d[c >> 4]); r.push_back(d[c & 15]); }
    return r;
}
static std::string hex(const SBuf &s) { return hex(s.rawContent(), s.length()); }

// exact-size heap copy so that ASan sees any over-read of the I/O buffer
static SBuf exactSBuf(const std::string &s) {
    SBuf b;
    if (!s.empty()) {
        char *p = new char[s.size()];
        memcpy(p, s.data(), s.size());
        b.append(p, s.size());
        delete[] p;
    }
    return b;
}

struct Probe : public Http1::ResponseParser {
    char stage() const {
        switch (parsingStage_) {
        case Http1::HTTP_PARSE_NONE: return 'N';
        case Http1::HTTP_PARSE_FIRST: return 'F';
        case Http1::HTTP_PARSE_MIME: return 'M';
        case Http1::HTTP_PARSE_DONE: return 'D';
        default: return '?';
        }
    }
};

static std::string protoName(const AnyP::ProtocolVersion &v) {
    std::ostringstream os;
    switch (v.protocol) {
    case AnyP::PROTO_NONE: os << "none"; break;
    case AnyP::PROTO_HTTP: os << "http"; break;
    case AnyP::PROTO_ICY: os << "icy"; break;
    default: os << "proto" << static_cast<int>(v.protocol); break;
    }
    os << '/' << v.major << '.' << v.minor;
    return os.str();
}

static std::string outcome(const Probe &hp, const SBuf &inBuf, bool ok) {
    std::ostringstream os;
    os << "st=" << hp.stage() << " pr=" << protoName(hp.messageProtocol()) << " sc=" << static_cast<int>(hp.messageStatus())
       << " rp=" << hex(hp.reasonPhrase()) << " mh=" << hex(hp.mimeHeader()) << " psc=" << static_cast<int>(hp.parseStatusCode)
       << " rem=" << hex(inBuf) << " ok=" << (ok ? 1 : 0) << " fls=" << hp.firstLineSize();
    return os.str();
}

// HttpStateData::processReplyHeader(): the I/O buffer accumulates, the parser keeps its own state between calls
static std::string feed(const std::vector<std::string> &segs) {
    Probe hp;
    SBuf inBuf;
    bool ok = false;
    for (const auto &s : segs) {
        inBuf.append(exactSBuf(s));
        if (!hp.needsMoreData())
            continue; // headers are done (or failed): later bytes just stay in the I/O buffer
        if (!inBuf.length())
            continue; // processReplyHeader() returns before calling the parser
        // re-allocate exactly: the parser must not look past the bytes received so far
        const SBuf exact = exactSBuf(std::string(inBuf.rawContent(), inBuf.length()));
        ok = hp.parse(exact);
        inBuf = hp.remaining();
    }
    return outcome(hp, inBuf, ok);
}

static std::string bits(const CharacterSet &cs) {
    std::string r;
    for (int i = 0; i < 256; ++i) r.push_back(cs[static_cast<unsigned char>(i)] ? '1' : '0');
    return r;
}

int main(int argc, char **argv) {
    Config.onoff.relaxed_header_parser = 0;
    Config.maxReplyHeaderSize = 65536;
    if (argc > 1 && !strcmp(argv[1], "--dump")) {
        Config.onoff.relaxed_header_parser = 0;
        printf("DELIM_STRICT %s\n", bits(Http1::Parser::DelimiterCharacters()).c_str());
        printf("WSP_STRICT %s\n", bits(Http1::Parser::WhitespaceCharacters()).c_str());
        Config.onoff.relaxed_header_parser = 1;
        printf("DELIM_RELAXED %s\n", bits(Http1::Parser::DelimiterCharacters()).c_str());
        printf("WSP_RELAXED %s\n", bits(Http1::Parser::WhitespaceCharacters()).c_str());
        printf("CRLF %s\n", hex(Http1::CrLf()).c_str());
        return 0;
    }
    std::string line;
    while (std::getline(std::cin, line)) {
        std::istringstream is(line);
        std::vector<std::string> w;
        for (std::string t; is >> t;) w.push_back(t);
        std::string out = "bad-op";
        if (w.size() >= 3 && w[0] == "p" && (w[1] == "0" || w[1] == "1")) {
            bool good = true;
            size_t limit = 0;
            try { limit = std::stoull(w[2]); } catch (...) { good = false; }
            std::vector<std::string> segs;
            std::string all;
            for (size_t i = 3; good && i < w.size(); ++i) {
                std::string b;
                if (!unhex(w[i], b)) good = false;
                segs.push_back(b);
                all += b;
            }
            if (good) {
                Config.onoff.relaxed_header_parser = (w[1] == "1");
                Config.maxReplyHeaderSize = limit;
                const std::string inc = feed(segs);
                const std::string one = feed(std::vector<std::string>(1, all));
                out = inc + " | " + one;
            }
        } else if (w.size() == 3 && w[0] == "s" && (w[1] == "0" || w[1] == "1")) {
            std::string b;
            if (unhex(w[2], b)) {
                Config.onoff.relaxed_header_parser = (w[1] == "1");
                const SBuf buf = exactSBuf(b);
                Parser::Tokenizer tok(buf);
                Http::StatusCode code = Http::scNone;
                std::ostringstream os;
                try {
                    Http1::ResponseParser::ParseResponseStatus(tok, code);
                    os << "ok " << static_cast<int>(code) << ' ' << hex(tok.remaining());
                } catch (const Parser::InsufficientInput &) {
                    os << "insufficient " << static_cast<int>(code);
                } catch (const std::exception &) {
                    os << "invalid " << static_cast<int>(code);
                }
                out = os.str();
            }
        }
        puts(out.c_str());
        fflush(stdout);
    }
    return 0;
}
