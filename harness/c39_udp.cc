// C39 harness, ICP and HTCP part: the real icpHandleUdp() (src/icp_v2.cc, with icpHandleIcpV2 and src/icp_v3.cc) and the real
// htcpRecv() (src/htcp.cc, in harness/c39_htcp.cc) inside a complete squid link.  The sources are #included so that their
// file-static functions and buffers are reachable and compiled with outlined ASan checks (see c39_track.h).
//
// The datagram is delivered by a wrapped comm_udp_recvfrom() into the handler's *own* static receive buffer; the octets behind
// the datagram inside that buffer are set to <stale> (what an earlier, longer datagram left there; squid does not clear the
// ICP/HTCP buffers), the rest to zero.  Replies are caught by a wrapped comm_udp_sendto(); clientdb/neighbor/event-loop calls
// are wrapped away.  ASan (global redzones of the instrumented buffers) judges accesses beyond the buffers.
//
//   i <hex datagram> <hex stale>      -> v=<version octet> <outcome tokens> over=K wr=K | <not modelled: replies, acks>
//   h <hex datagram> <hex stale> <m|->-> <tokens of htcpHandleMsg and the handlers> nul=<offsets zeroed in place> over=K wr=K | <rest>
//        `m`: a TST response is made to match an outstanding query (queried_id/queried_addr arranged accordingly)
//   over = how far beyond the datagram the handler touched its buffer (0 = not at all), wr = the same for stores
//   a genuine ASan report during the line appends " asan=<kind>"
//   --dump -> sizeof_icp_common_t N / SQUID_UDP_SO_RCVBUF N
#include "squid.h"
#include "AccessLogEntry.h"
#include "acl/Acl.h"
#include "acl/FilledChecklist.h"
#include "anyp/UriScheme.h"
#include "base/AsyncCallbacks.h"
#include "client_db.h"
#include "comm.h"
#include "comm/Connection.h"
#include "comm/Loops.h"
#include "debug/Messages.h"
#include "fd.h"
#include "htcp.h"
#include "HttpRequest.h"
#include "icmp/net_db.h"
#include "ICP.h"
#include "ip/Address.h"
#include "ip/tools.h"
#include "ipc/StartListening.h"
#include "ipcache.h"
#include "md5.h"
#include "mem/forward.h"
#include "mem/Pool.h"
#include "multicast.h"
#include "neighbors.h"
#include "refresh.h"
#include "rfc1738.h"
#include "SquidConfig.h"
#include "StatCounters.h"
#include "Store.h"
#include "store_key_md5.h"
#include "tools.h"
#include "wordlist.h"
#include "time/gadgets.h"

#include <cerrno>
#include <cstdio>
#include <cstring>
#include <iostream>
#include <string>
#include <vector>

#include "c39_dbg.h"
std::vector<VfDbgMsg> vfDbgLog;
#include "c39_track.h"

#include "icp_v2.cc"
#undef N_QUERIED_KEYS
#undef N_QUERIED_KEYS_MASK
#include "icp_v3.cc"

// ---------------------------------------------------------------------------------------------- shared with c39_htcp.cc
struct VfSent { std::string bytes; };
std::vector<VfSent> vfSent;
std::vector<std::string> vfNotes;     // calls into unmodelled squid parts (acks, ...)
std::string vfFeedDatagram, vfFeedStale;
bool vfFeedPending = false;
size_t vfFeedBufSize = 0;             // size of the buffer the handler offered + 1
unsigned char *vfFeedBuf = nullptr;
std::string vfAfterRecv;              // copy of the buffer right after delivery (to find in-place modifications)
Ip::Address vfFrom;
std::string vfHtcpLine(const std::string &dg, const std::string &stale, const std::string &flags);   // c39_htcp.cc

std::string vfHex(const std::string &s) {
    if (s.empty()) return "-";
    static const char *d = "0123456789abcdef";
    std::string r;
    for (unsigned char c : s) { r.push_back(d[c >> 4]); r.push_back(d[c & 15]); }
    return r;
}
static int hexval(int c) { return c >= '0' && c <= '9' ? c - '0' : c >= 'a' && c <= 'f' ? c - 'a' + 10 : c >= 'A' && c <= 'F' ? c - 'A' + 10 : -1; }
static bool unhex(const std::string &h, std::string &out) {
    out.clear();
    if (h == "-") return true;
    if (h.size() % 2) return false;
    for (size_t i = 0; i < h.size(); i += 2) {
        const int a = hexval(h[i]), b = hexval(h[i + 1]);
        if (a < 0 || b < 0) return false;
        out.push_back(static_cast<char>(a * 16 + b));
    }
    return true;
}

// ---------------------------------------------------------------------------------------------- wrapped squid functions
extern "C" {
// int comm_udp_recvfrom(int fd, void *buf, size_t len, int flags, Ip::Address &from)
int __wrap__Z17comm_udp_recvfromiPvmiRN2Ip7AddressE(int, void *buf, size_t len, int, Ip::Address &from)
{
    if (!vfFeedPending) {
        errno = EAGAIN;
        return 0;           // icpHandleUdp's loop: "if (len == 0) break;"
    }
    vfFeedPending = false;
    unsigned char *b = static_cast<unsigned char *>(buf);
    // the handler's buffer has len + 1 octets (it asked for one less than it owns); the last one is never written by recvfrom
    vfFeedBuf = b;
    vfFeedBufSize = len + 1;
    size_t n = vfFeedDatagram.size();
    if (n > len) n = len;                       // a longer datagram is cut
    size_t s = vfFeedStale.size();
    if (n + s > len) s = len - n;
    vfArena = nullptr;                           // the harness' own copies are not the handler's accesses
    memset(b + n, 0, len + 1 - n);
    memcpy(b, vfFeedDatagram.data(), n);
    memcpy(b + n, vfFeedStale.data(), s);
    vfAfterRecv.assign(reinterpret_cast<char *>(b), len + 1);
    from = vfFrom;
    vfArena = b;
    vfArenaSize = len + 1;                       // exactly the handler's buffer; what lies behind it is guarded by ASan's global redzone
    vfTrackReset(n);
    return static_cast<int>(n);
}
// int comm_udp_sendto(int fd, const Ip::Address &to, const void *buf, int len)
int __wrap__Z15comm_udp_sendtoiRKN2Ip7AddressEPKvi(int, const Ip::Address &, const void *buf, int len)
{
    vfSent.push_back(VfSent{std::string(static_cast<const char *>(buf), len > 0 ? len : 0)});
    return len;
}
// void Comm::SetSelect(int, unsigned int, PF *, void *, time_t)
void __wrap__ZN4Comm9SetSelectEijPFviPvES0_l(int, unsigned int, void (*)(int, void *), void *, long) {}
// void clientdbUpdate(const Ip::Address &, const LogTags &, AnyP::ProtocolType, size_t)
void __wrap__Z14clientdbUpdateRKN2Ip7AddressERK7LogTagsN4AnyP12ProtocolTypeEm(const Ip::Address &, const LogTags &, AnyP::ProtocolType, size_t) {}
// int clientdbCutoffDenied(const Ip::Address &)
int __wrap__Z20clientdbCutoffDeniedRKN2Ip7AddressE(const Ip::Address &) { return 0; }
// void neighborsUdpAck(const cache_key *, icp_common_t *, const Ip::Address &)
void __wrap__Z15neighborsUdpAckPKhP12icp_common_tRKN2Ip7AddressE(const cache_key *key, icp_common_t *h, const Ip::Address &)
{
    char t[160];
    snprintf(t, sizeof(t), "ack:op=%u,reqnum=%u,key=%s", static_cast<unsigned>(h->opcode), static_cast<unsigned>(h->reqnum), storeKeyText(key));
    vfNotes.push_back(t);
}
// void neighborsHtcpReply(const cache_key *, HtcpReplyData *, const Ip::Address &)
void __wrap__Z18neighborsHtcpReplyPKhP13HtcpReplyDataRKN2Ip7AddressE(const cache_key *, HtcpReplyData *r, const Ip::Address &)
{
    char t[160];
    snprintf(t, sizeof(t), "htcp-reply:hit=%d,id=%u", r->hit, static_cast<unsigned>(r->msg_id));
    vfNotes.push_back(t);
}
}

// libtool's table of preloaded modules (the squid link line has "-dlopen force")
extern "C" { struct VfLtSym { const char *name; void *address; }; extern const VfLtSym lt__PROGRAM__LTX_preloaded_symbols[]; const VfLtSym lt__PROGRAM__LTX_preloaded_symbols[] = {{"@PROGRAM@", nullptr}, {nullptr, nullptr}}; }

// ---------------------------------------------------------------------------------------------- ICP
static std::string contains(const std::string &s, const char *needle) { return s.find(needle) != std::string::npos ? s : std::string(); }

static std::string icpLine(const std::string &dg, const std::string &stale)
{
    vfDbgLog.clear(); vfSent.clear(); vfNotes.clear();
    vfFeedDatagram = dg; vfFeedStale = stale; vfFeedPending = true;
    vfFeedBuf = nullptr;
    icpHandleUdp(7, nullptr);
    vfArena = nullptr;
    std::string out;
    if (!vfFeedBuf) return "bad-state";
    char t[256];
    snprintf(t, sizeof(t), "v=%u", dg.size() > 1 ? static_cast<unsigned>(static_cast<unsigned char>(dg[1])) : 0u);
    out = t;
    std::string extras;
    bool badUrl = false;
    for (const auto &m : vfDbgLog) {
        if (m.section != 12) continue;
        const std::string &x = m.text;
        if (!contains(x, "Ignoring too-small UDP packet").empty()) out += " ignore:short";
        else if (!contains(x, "Unused ICP version").empty()) out += " ignore:version";
        else if (!contains(x, "ICP message is too small").empty()) out += " badlen";
        else if (!contains(x, "too small packet from").empty()) { out += " url:small"; badUrl = true; }
        else if (!contains(x, "unterminated URL").empty()) { out += " url:unterminated"; badUrl = true; }
        else if (!contains(x, "URL with an embedded NUL").empty()) { out += " url:embedded"; badUrl = true; }
        else if (!contains(x, "Unknown opcode").empty()) out += " unknown-op";
        else if (x.compare(0, 16, "icpHandleIcpV2: ") == 0 && x.find(" for '") != std::string::npos) {
            const auto a = x.find(" for '") + 6;
            out += " reply-url=" + vfHex(x.substr(a, x.size() - a - 1));
        }
        else if (!contains(x, "Ignoring UDP packet sent by myself").empty()) out += " loop";
        else if (!contains(x, "returned reqnum = 0").empty() || !contains(x, "Disabling use of private keys").empty()) extras += " private-keys-off";
    }
    for (const auto &s : vfSent) {
        // an ICP message: opcode, version, length, ..., URL behind the 20-octet header (queries: +4)
        const std::string &b = s.bytes;
        std::string url = b.size() > 20 ? b.substr(20) : std::string();
        const auto z = url.find('\0');
        if (z != std::string::npos) url.resize(z);
        snprintf(t, sizeof(t), " sent=%u/%zu/", b.empty() ? 0u : static_cast<unsigned>(static_cast<unsigned char>(b[0])), b.size());
        // the reply to a query whose URL field is unusable is fully determined by the datagram; so is the URL echoed by a
        // DENIED reply (no icp_access rule here); an ERR reply depends on URL parsing and carries an escaped URL
        if (badUrl) out += t + vfHex(url);
        else if (!b.empty() && b[0] == ICP_DENIED) { out += " url=" + vfHex(url); extras += t + vfHex(url); }
        else extras += t + vfHex(url);
    }
    for (const auto &n : vfNotes) extras += " " + n;
    snprintf(t, sizeof(t), " over=%zu wr=%zu", vfOver(), vfWrOver());
    out += t;
    if (vfForeign[0]) out += std::string(" asan=") + vfForeign;
    neighbors_do_private_keys = 1;
    return out + " |" + extras;
}

int main(int argc, char **argv)
{
    if (argc > 1 && !strcmp(argv[1], "--dump")) {
        printf("sizeof_icp_common_t %zu\nSQUID_UDP_SO_RCVBUF %d\n", sizeof(icp_common_t), static_cast<int>(SQUID_UDP_SO_RCVBUF));
        return 0;
    }
    Mem::Init();
    Debug::BanCacheLogUse();
    Debug::SettleStderr();
    Debug::SettleSyslog();
    getCurrentTime();
    AnyP::UriScheme::Init();
    vfFrom = Ip::Address();
    vfFrom = "127.0.0.1";
    vfFrom.port(3130);

    std::string line;
    while (std::getline(std::cin, line)) {
        std::vector<std::string> t;
        size_t i = 0;
        while (i < line.size()) {
            const auto j = line.find(' ', i);
            if (j == std::string::npos) { t.push_back(line.substr(i)); break; }
            if (j > i) t.push_back(line.substr(i, j - i));
            i = j + 1;
        }
        std::string out = "bad-op";
        std::string dg, stale;
        if (t.size() >= 2 && unhex(t[1], dg) && unhex(t.size() > 2 ? t[2] : std::string("-"), stale)) {
            if (t[0] == "i") out = icpLine(dg, stale);
            else if (t[0] == "h") out = vfHtcpLine(dg, stale, t.size() > 3 ? t[3] : std::string("-"));
        } else if (t.size() >= 2) {
            out = "bad-input";
        }
        puts(out.c_str());
        fflush(stdout);
    }
    return 0;
}

// accessors for c39_htcp.cc (the tracking state lives in this translation unit)
size_t vfGetOver() { return vfOver(); }
size_t vfGetWrOver() { return vfWrOver(); }
const char *vfGetForeign() { return vfForeign; }
void vfStopTracking() { vfArena = nullptr; }
