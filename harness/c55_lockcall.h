// C55: scope guard inserted (textually, by props/C55.py) at the top of every Ipc::ReadWriteLock method in the instrumented copy
// of src/ipc/ReadWriteLock.cc. In mode A ("atomic lock methods") the outermost lock method called by a virtual thread is ONE
// scheduling step: the guard parks the thread once, then runs the method body with yields disabled, and logs one event
//     <tid>:L<fileno>.<method>.<state before>><state after>      state = readers*4 + writing*2 + appending
// In mode F ("fine") the guard does nothing: every atomic operation inside the lock is a scheduling point of its own.
#pragma once
namespace verif55 {
struct LockCall {
    LockCall(const void *lock, const char *name);
    ~LockCall();
    const void *lock;
    const char *name;
    int saved;
    bool outer;
    unsigned before;
};
}
#define VERIF55_LOCKCALL(NAME) verif55::LockCall verif55_guard_(this, NAME)
