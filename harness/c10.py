"""C10 end-to-end harness: versions of a URL are updated while readers read; every response must be exactly one origin version.

Scenario line (space separated):
  <store> <nkeys> <ops>
    store   mem | shm | ufs | aufs | diskd | rock   (one squid per store type: a SMALL cache so that fillers force eviction/replacement;
            shm = two SMP workers sharing one memory cache)
    ops     comma separated, started in this order:
      U<k>.<n>.<seed>.<hv>.<m>.<j>  the origin gets a new version of key k (n body bytes, header variant hv) and a client reloads it
                                    (Cache-Control: no-cache).  m = how the origin sends it:
                                       0 at once   1 headers + first third, pause, rest    2 like 1 but the connection is closed after the
                                       first third (Content-Length announced: truncated)   3 chunked, closed before the last-chunk (truncated)
                                    j = number of FOLLOWING operations that are started while the origin is pausing (m >= 1)
      R<k>.<s>                      reader: plain GET of key k.  s = 1: a slow reader (4 KB receive buffer) that stops reading after the
                                    response head until 2 following operations have been started
      E<c>                          c filler objects (60 KB each, own URLs) are fetched one after the other: eviction pressure
      P<k>                          PURGE
      V<k>                          reader with Cache-Control: max-age=0: Squid revalidates its copy; the origin answers 304 with an extra
                                    header field when the validator names the current version (the stored header is updated in place:
                                    shared-memory and rock entries get a new header prefix spliced onto the old body slices)
Observation: one token per operation, comma separated
      U=<status>:<ver>:<C|I>[!what]       what the reloading client got (C = complete message, I = cut short)
      R=<status>:<ver>:<C|I>:<hit|miss>[!what]
      E=<number of fillers that arrived complete>      P=<status>
   `!what` = the bytes or end-to-end headers differ from the version named by the response's own X-Ver header.
"""
import os, re, threading, time, socket
from e2e import rig
from harness.c17 import body, CTYPES

STORES = ("mem", "shm", "ufs", "aufs", "diskd", "rock")
SMP_DIR = "/usr/local/squid/var/run/squid"      # DEFAULT_STATEDIR of the build: where SMP kids create their IPC sockets
SMALL = "cache_mem 1 MB\nmaximum_object_size_in_memory 24 KB\nmaximum_object_size 600 KB\ncache_swap_low 70\ncache_swap_high 80\n"
CONF = {
    "mem": "cache_mem 2 MB\nmaximum_object_size_in_memory 600 KB\nmaximum_object_size 600 KB\n",
    # two workers sharing one memory cache (MemStore over shared memory pages): hits of one worker on what the other stored
    "shm": "workers 2\nmemory_cache_shared on\ncache_mem 2 MB\nmaximum_object_size_in_memory 600 KB\nmaximum_object_size 600 KB\n",
    "ufs": "cache_dir ufs {dir}/cache 3 2 4\n" + SMALL,
    "aufs": "cache_dir aufs {dir}/cache 3 2 4\n" + SMALL,
    "diskd": "cache_dir diskd {dir}/cache 3 2 4\ndiskd_program {repo}/src/DiskIO/DiskDaemon/diskd\n" + SMALL,
    "rock": "cache_dir rock {dir}/cache 3 max-size=600000 slot-size=4096\n" + SMALL,
}
COMMON = "acl PURGE method PURGE\nmime_table /dev/null\nread_ahead_gap 16 KB\n"
FILLER = 60000


def parse_line(line):
    t = line.split(" ")
    if len(t) != 3 or t[0] not in STORES or not t[1].isdigit():
        return None
    nk = int(t[1])
    if not (1 <= nk <= 6):
        return None
    ops = []
    for o in t[2].split(","):
        m = re.fullmatch(r"U(\d+)\.(\d+)\.(\d+)\.(\d)\.(\d)\.(\d)", o)
        if m:
            k, n, seed, hv, mode, j = (int(x) for x in m.groups())
            if k >= nk or n > 500000 or hv > 3 or mode > 3 or j > 3 or (mode == 0 and j):
                return None
            ops.append(("U", k, n, seed, hv, mode, j))
            continue
        m = re.fullmatch(r"R(\d+)\.([01])", o)
        if m:
            if int(m.group(1)) >= nk:
                return None
            ops.append(("R", int(m.group(1)), int(m.group(2))))
            continue
        m = re.fullmatch(r"V(\d+)", o)
        if m:
            if int(m.group(1)) >= nk:
                return None
            ops.append(("R", int(m.group(1)), 0, 1))     # a reader that forces a revalidation (the origin answers 304 + a new header)
            continue
        m = re.fullmatch(r"E(\d+)", o)
        if m:
            if int(m.group(1)) > 60:
                return None
            ops.append(("E", int(m.group(1))))
            continue
        m = re.fullmatch(r"P(\d+)", o)
        if m:
            if int(m.group(1)) >= nk:
                return None
            ops.append(("P", int(m.group(1))))
            continue
        return None
    if not ops or len(ops) > 24:
        return None
    return {"store": t[0], "nkeys": nk, "ops": ops}


class Scenario:
    def __init__(self, h, sc, sid):
        self.h, self.sc, self.sid = h, sc, sid
        self.cur = {}
        self.vers = {}          # (k, ver) -> (n, seed, hv, mode, expires, last-modified)
        self.plan = {}          # (k, ver) -> (mode, held event, go event)
        self.lock = threading.Lock()
        self.nfill = 0
        h.origin.on(sid, self.handler)

    def url(self, k):
        return self.h.origin.url(self.sid, "k%d" % k)

    def obj(self, k, ver):
        n, seed, hv, d_exp, d_lm = self.vers[(k, ver)]
        tag = b"[%s k%d v%d]" % (self.sid.encode(), k, ver)
        b = body(n, seed, tag)
        hd = [("ETag", '"%s-k%d-v%d"' % (self.sid, k, ver)), ("X-Ver", "k%dv%d" % (k, ver))]
        if hv in (0, 1, 3):
            hd.append(("Cache-Control", "max-age=86400"))
        if hv == 2:
            hd.append(("Expires", d_exp))
        if hv in (1, 2):
            hd.append(("Last-Modified", d_lm))
            hd.append(("X-Pad", "p" * (50 + 37 * (ver % 40))))
        if CTYPES[hv]:
            hd.append(("Content-Type", CTYPES[hv]))
        return b, hd

    def handler(self, req):
        m = re.search(r"/k(\d+)", req["first"])
        if not m:
            mf = re.search(r"/f(\d+)", req["first"])
            return [("send", rig.simple_response(200, body(FILLER, int(mf.group(1)) if mf else 0, b"filler"), [("Cache-Control", "max-age=86400")]))]
        k = int(m.group(1))
        with self.lock:
            if k not in self.cur:
                self.cur[k] = 1
                self.vers[(k, 1)] = (100 + 7 * k, 11 + k, 0, rig.date_now(86400), rig.date_now(-864000))
            ver = self.cur[k]
            inm = rig.hget(req["hdrs"], "if-none-match")
            if inm is not None and inm.strip() == '"%s-k%d-v%d"' % (self.sid, k, ver) and (k, ver) not in self.plan:
                self.nupd = getattr(self, "nupd", 0) + 1
                hd304 = [h for h in self.obj(k, ver)[1] if h[0] in ("ETag", "X-Ver", "Cache-Control", "Expires")]
                return [("send", rig.simple_response(304, b"", hd304 + [("X-Upd", "u%d-" % self.nupd + "x" * (20 + 13 * (self.nupd % 7)))], cl=False))]
            mode, held, go = self.plan.pop((k, ver), (0, None, None))      # only the reload that introduced the version is paced
        b, hd = self.obj(k, ver)
        if mode == 0:
            return [("send", rig.simple_response(200, b, hd))]
        cut = max(1, len(b) // 3) if len(b) > 1 else len(b)
        if mode in (1, 2):
            msg = rig.simple_response(200, b, hd)
            hl = msg.index(b"\r\n\r\n") + 4
            if cut >= len(b):
                # nothing would be left to send after the pause: squid sees a complete message and may reuse the idle connection
                # for the request the pause is waiting for
                return [("send", msg), ("set_event", held)]
            acts = [("send", msg[:hl + cut]), ("set_event", held), ("wait_event", go, 20)]
            acts += [("send", msg[hl + cut:])] if mode == 1 else [("close",)]
            return acts
        head = rig.simple_response(200, b"", hd + [("Transfer-Encoding", "chunked")], cl=False)
        first = b[:cut]
        return [("send", head + b"%x\r\n" % len(first) + first + b"\r\n" if first else head), ("set_event", held), ("wait_event", go, 20), ("close",)]

    def check(self, r, k):
        xv = rig.hget(r["hdrs"], "x-ver") or ""
        m = re.fullmatch(r"k(\d+)v(\d+)", xv)
        if not m or int(m.group(1)) != k or (k, int(m.group(2))) not in self.vers:
            return "?", "!unknown-version"
        ver = int(m.group(2))
        b, hd = self.obj(k, ver)
        bad = ""
        if r["complete"]:
            if r["body"] != b:
                bad += "!body(%d/%d)" % (len(r["body"]), len(b))
        elif r["body"] != b[:len(r["body"])]:
            bad += "!prefix(%d)" % len(r["body"])
        for n, v in hd:
            if v not in rig.hall(r["hdrs"], n.lower()):
                bad += "!hdr-" + n
        cl = rig.hget(r["hdrs"], "content-length")
        if cl is not None and cl != str(len(b)):
            bad += "!cl"
        return str(ver), bad

    # -- operations (each in its own thread) ------------------------------------------------------------
    def op_update(self, i, op, held, go):
        _, k, n, seed, hv, mode, j = op
        with self.lock:
            self.cur[k] = self.cur.get(k, 0) + 1
            ver = self.cur[k]
            self.vers[(k, ver)] = (n, seed, hv, rig.date_now(86400), rig.date_now(-864000 - ver))
            if mode:
                self.plan[(k, ver)] = (mode, held, go)
        try:
            r = rig.get(self.h.squids[self.sc["store"]].port, self.url(k), headers=[("Cache-Control", "no-cache")], timeout=40)
        finally:
            self.h.origin.event(held).set()
        if r is None:
            return "U=none"
        v, bad = self.check(r, k) if r["status"] == 200 else ("-", "")
        return "U=%d:%s:%s%s" % (r["status"], v, "C" if r["complete"] else "I", bad)

    def op_read(self, i, op, held, go):
        k, slow = op[1], op[2]
        reval = len(op) > 3 and op[3]
        port = self.h.squids[self.sc["store"]].port
        hostport = "127.0.0.1:%d" % self.h.origin.port
        try:
            s = socket.socket()
            if slow:
                s.setsockopt(socket.SOL_SOCKET, socket.SO_RCVBUF, 4096)
            s.settimeout(40 * rig.VERIF_SLOW)
            s.connect(("127.0.0.1", port))
            s.sendall(("GET %s HTTP/1.1\r\nHost: %s\r\n%sConnection: close\r\n\r\n" % (self.url(k), hostport, "Cache-Control: max-age=0\r\n" if reval else "")).encode())
            head, rest = rig.read_head(s, b"", 40)
        finally:
            self.h.origin.event(held).set()
        if head is None:
            s.close()
            return "R=none"
        if slow:
            self.h.origin.event(go).wait(timeout=20 * rig.VERIF_SLOW)
        first, hdrs = rig.parse_head(head)
        m = re.match(r"HTTP/\d\.\d (\d{3})", first)
        status = int(m.group(1)) if m else 0
        b, rest, complete, framing = rig.read_body(s, hdrs, rest, 40, is_response=True, status=status)
        s.close()
        r = {"status": status, "hdrs": hdrs, "body": b, "complete": complete}
        v, bad = self.check(r, k) if status == 200 else ("-", "")
        cs = rig.hget(hdrs, "cache-status") or ""
        return "R=%d:%s:%s:%s%s" % (status, v, "C" if complete else "I", "hit" if ";hit" in cs else "miss", bad)

    def op_fill(self, i, op, held, go):
        self.h.origin.event(held).set()
        ok = 0
        for _ in range(op[1]):
            with self.lock:
                self.nfill += 1
                f = self.nfill
            r = rig.get(self.h.squids[self.sc["store"]].port, self.h.origin.url(self.sid, "f%d" % f), timeout=40)
            ok += bool(r and r["status"] == 200 and r["complete"])
        return "E=%d" % ok

    def op_purge(self, i, op, held, go):
        self.h.origin.event(held).set()
        r = rig.get(self.h.squids[self.sc["store"]].port, self.url(op[1]), method="PURGE", timeout=40)
        return "P=%s" % (r["status"] if r else "none")

    def run(self):
        ops = self.sc["ops"]
        n = len(ops)
        results = [None] * n
        threads = [None] * n
        release_at = {}                  # op index -> list of go events to set once that op has started (or at the end)
        ev = lambda kind, i: "%s-%s-%d" % (self.sid, kind, i)

        def runner(i, fn, op):
            try:
                results[i] = fn(i, op, ev("held", i), ev("go", i))
            except (OSError, RuntimeError) as e:
                results[i] = "%s=io-error:%s" % (op[0], type(e).__name__)
                self.h.origin.event(ev("held", i)).set()

        for i, op in enumerate(ops):
            fn = {"U": self.op_update, "R": self.op_read, "E": self.op_fill, "P": self.op_purge}[op[0]]
            hold = bool((op[0] == "U" and op[5] and op[6]) or (op[0] == "R" and op[2]))
            target = min(n - 1, i + (op[6] if op[0] == "U" else 2)) if hold else i
            if op[0] == "U" and op[5] and (not hold or target == i):
                self.h.origin.event(ev("go", i)).set()              # paced, but nothing overlaps
            if op[0] == "R" and op[2] and target == i:
                self.h.origin.event(ev("go", i)).set()
            th = threading.Thread(target=runner, args=(i, fn, op), daemon=True)
            threads[i] = th
            th.start()
            if (hold and target != i) or release_at:
                # "started" = it reached its pause (the origin sent the first part / the reader has the response head) or ended.
                # While an earlier operation is paused nothing may be awaited to its end: a reader of the in-flight entry ends only
                # after the paused origin goes on.
                self.h.origin.event(ev("held", i)).wait(timeout=20 * rig.VERIF_SLOW)
                if hold and target != i:
                    release_at.setdefault(target, []).append(ev("go", i))
            else:
                th.join(timeout=60 * rig.VERIF_SLOW)
            for g in release_at.pop(i, []):
                self.h.origin.event(g).set()
                # the overlap ends here: let the released operation run to its end before the next one starts
                threads[int(g.rsplit("-", 1)[1])].join(timeout=20 * rig.VERIF_SLOW)
        for gs in release_at.values():
            for g in gs:
                self.h.origin.event(g).set()
        for th in threads:
            th.join(timeout=60 * rig.VERIF_SLOW)
        return ",".join(r if r is not None else "%s=timeout" % op[0] for r, op in zip(results, ops))


class Harness:
    def __init__(self, stage, stores=STORES):
        self.stage = stage
        self.origin = rig.Origin()
        self.squids = {}
        self.crashes = 0
        self.n = 0
        self.lock = threading.Lock()
        self.unavailable = {}
        for s in stores:
            if s == "shm":
                try:
                    os.makedirs(SMP_DIR, exist_ok=True)
                    os.chmod(SMP_DIR, 0o777)
                except OSError as e:
                    self.unavailable[s] = "cannot create %s: %s" % (SMP_DIR, e)
                    continue
            sq = rig.Squid(stage, conf=CONF[s] + COMMON, workers=2 if s == "shm" else None)
            if "cache_dir" in CONF[s]:
                r = sq.init_dirs()
                if r.returncode != 0:
                    raise RuntimeError("squid -z failed for %s: %s" % (s, (r.stdout + r.stderr)[-800:]))
            self.squids[s] = sq
        for s in stores:
            if s in self.squids:
                self._start(self.squids[s])

    def _start(self, s):
        for attempt in range(3):
            try:
                s.start(wait=90)
                break
            except RuntimeError:
                s.stop(kill=True)
                p = os.path.join(s.dir, "cache.log")
                if os.path.exists(p):
                    os.truncate(p, 0)
                if attempt == 2:
                    raise
        t0 = time.time()
        while s.workers and s.cache_log().count("Accepting HTTP Socket connections") < s.workers:
            if not s.alive() or time.time() - t0 > 60 * rig.VERIF_SLOW:
                raise RuntimeError("SMP workers did not start: " + s.cache_log()[-800:])
            time.sleep(0.05)
        while "Completed Validation Procedure" not in s.cache_log() and "cache_dir" in open(s.conf_path).read():
            if not s.alive() or time.time() - t0 > 120 * rig.VERIF_SLOW:
                raise RuntimeError("squid index rebuild did not finish: " + s.cache_log()[-800:])
            time.sleep(0.02)

    @staticmethod
    def kid_asserted(sq):
        """assertion failures of a kid of an SMP instance (the master survives them and restarts the kid)"""
        return [p for p in sq.problems() if "assertion failed" in p]

    def one(self, line):
        sc = parse_line(line)
        if sc is not None and sc["store"] in self.unavailable:
            return "skip:" + re.sub(r"\s+", "_", self.unavailable[sc["store"]])
        if sc is None or sc["store"] not in self.squids:
            return "bad-op"
        with self.lock:
            self.n += 1
            sid = "t%dx%d" % (os.getpid() % 100000, self.n)
        sq = self.squids[sc["store"]]
        if sq.workers and self.kid_asserted(sq):
            # a kid of the SMP instance died earlier in this batch (the master stays alive and restarts it): do not wait for timeouts
            return "abort:squid-died " + re.sub(r"\s+", "_", self.kid_asserted(sq)[0])[:120]
        out = Scenario(self, sc, sid).run()
        if not sq.alive() or (sq.workers and self.kid_asserted(sq)):
            probs = sq.problems()
            return "abort:squid-died " + (re.sub(r"\s+", "_", probs[0])[:120] if probs else "")
        return out

    def run(self, lines, attempt=0):
        out = self.run_once(lines)
        # flake guard: scenarios with an operation that could not be observed at all (timeout, socket error) are run again,
        # twice at most; wrong bytes are never retried
        again = [i for i, o in enumerate(out) if re.search(r"=none|=timeout|io-error", o)]
        if again and attempt < 2:
            redo = self.run([lines[i] for i in again], attempt + 1)
            for i, o in zip(again, redo):
                out[i] = o
        return out

    def run_once(self, lines):
        from concurrent.futures import ThreadPoolExecutor
        with ThreadPoolExecutor(max_workers=6) as ex:
            out = list(ex.map(rig.guarded(self.one, list(self.squids.values())), lines))
        dead = [n for n, s in self.squids.items() if not s.alive() or (s.workers and self.kid_asserted(s))]
        for n in dead:                   # from the main thread, between batches
            self.crashes += 1
            try:
                self.squids[n].stop(kill=True)
                p = os.path.join(self.squids[n].dir, "cache.log")
                os.rename(p, p + ".crash%d" % self.crashes)
                self._start(self.squids[n])
            except Exception:
                pass
        return out

    def close(self):
        for s in self.squids.values():
            try:
                s.stop(kill=True)
            except Exception:
                pass
        self.origin.close()
