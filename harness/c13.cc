// C13 in-process harness: the real vary-mark construction of the staged tree under ASan/UBSan.
//
// `assembleVaryKey` is file-static in src/http.cc; props/C13.py cuts its text out of the *staged* src/http.cc into
// c13_assemble.inc (verbatim, every run) and this translation unit includes it, so the code that runs here is the code
// of the stage. Everything it calls is the staged code as well: strListGetItem (StrList.cc), SBuf::toLower,
// HttpHeader::getByName/getList (HttpHeader.cc, String.cc, RegisteredHeaders), rfc1738_do_escape (lib/rfc1738.cc, pulled
// into this unit so that its static tables can be dumped).
//
//   K <vary> <hdrs>   <vary> = "." | hex,hex,...  (field values of the reply's Vary lines, "-" = empty value)
//                     <hdrs> = "." | hexname:hexvalue,...   (request header entries in order)
//                     -> "mark=<hex>"  = httpMakeVaryMark(request, reply) [getList(VARY) + assembleVaryKey]
//                     -> "reject:nul" / "reject:name" for inputs that cannot be header entries (NUL, empty name)
//   P <vary1> <hdrs1> <vary2> <hdrs2> -> "m1=<hex> m2=<hex>" the marks of two (reply, request) pairs (collision hunting)
//   I <hex>           -> items of strListGetItem(str, ',') : "hex,hex,..." or "."
//   E <hex>           -> rfc1738_escape_part(str) as hex
//   G <hexname> <hdrs>-> "undef" | "val=<hex>" : request.header.getByName(name)
//   --dump-escape     -> "unsafe <hex>", "reserved <hex>", "flag <NAME> <n>", "char_is_signed <0|1>", "esc <byte> <hex>" (1..255)
//   --dump-headers    -> "<hex name> <list 0|1>" for every registered header
#include "squid.h"
#include "../lib/rfc1738.cc"
#include "base/CharacterSet.h"
#include "HttpHeader.h"
#include "HttpRequest.h"
#include "http/RegisteredHeaders.h"
#include "MasterXaction.h"
#include "mem/forward.h"
#include "sbuf/SBuf.h"
#include "SquidString.h"
#include "StrList.h"
#include "anyp/UriScheme.h"

#include <cstdio>
#include <cstring>
#include <iostream>
#include <string>
#include <vector>
#include <climits>

// ---- verbatim text of assembleVaryKey() from the staged src/http.cc
#include "c13_assemble.inc"

static bool unhex(const std::string &h, std::string &r) {
    r.clear();
    if (h == "-") return true;
    if (h.empty() || h.size() % 2) return false;
    for (size_t i = 0; i + 1 < h.size(); i += 2) {
        int v = 0;
        for (int k = 0; k < 2; ++k) {
            const char c = h[i + k];
            int d;
            if (c >= '0' && c <= '9') d = c - '0';
            else if (c >= 'a' && c <= 'f') d = c - 'a' + 10;
            else return false;
            v = v * 16 + d;
        }
        r.push_back(static_cast<char>(v));
    }
    return true;
}
static std::string hex(const char *p, size_t n) {
    if (!n) return "-";
    static const char *d = "0123456789abcdef";
    std::string r;
    for (size_t i = 0; i < n; ++i) { const unsigned char c = p[i]; r.push_back(d[c >> 4]); r.push_back(d[c & 15]); }
    return r;
}
static std::vector<std::string> split(const std::string &s, char c) {
    std::vector<std::string> r;
    size_t a = 0;
    while (true) {
        const size_t b = s.find(c, a);
        if (b == std::string::npos) { r.push_back(s.substr(a)); break; }
        r.push_back(s.substr(a, b - a));
        a = b + 1;
    }
    return r;
}
static bool hasNul(const std::string &s) { return s.find('\0') != std::string::npos; }

/// fills hdr with entries exactly as given (id by registry lookup, as HttpHeaderEntry::parse assigns it)
static const char *fill(HttpHeader &hdr, const std::string &spec) {
    if (spec == ".") return nullptr;
    for (const auto &tok : split(spec, ',')) {
        const auto nv = split(tok, ':');
        if (nv.size() != 2) return "bad-op";
        std::string n, v;
        if (!unhex(nv[0], n) || !unhex(nv[1], v)) return "bad-op";
        if (n.empty()) return "reject:name";
        if (hasNul(n) || hasNul(v)) return "reject:nul";
        auto id = Http::HeaderLookupTable.lookup(n.data(), n.size()).id;
        if (id == Http::HdrType::BAD_HDR) id = Http::HdrType::OTHER;
        hdr.addEntry(new HttpHeaderEntry(id, SBuf(n.data(), n.size()), v.c_str()));
    }
    return nullptr;
}

/// -> false and *err set when the inputs cannot be header entries
static bool markOf(const std::string &vs, const std::string &hs, std::string &out, const char *&err) {
    HttpHeader rep(hoReply);
    if (vs != ".") {
        for (const auto &tok : split(vs, ',')) {
            std::string v;
            if (!unhex(tok, v)) { err = "bad-op"; return false; }
            if (hasNul(v)) { err = "reject:nul"; return false; }
            rep.addEntry(new HttpHeaderEntry(Http::HdrType::VARY, SBuf(), v.c_str()));
        }
    }
    const auto mx = MasterXaction::MakePortless<XactionInitiator::initHtcp>();
    HttpRequest::Pointer req = new HttpRequest(mx);
    if ((err = fill(req->header, hs))) return false;
    SBuf vstr;
    String vary;
    vary = rep.getList(Http::HdrType::VARY);
    assembleVaryKey(vary, vstr, *req);
    out = hex(vstr.rawContent(), vstr.length());
    return true;
}

static void opP(const std::string &v1, const std::string &h1, const std::string &v2, const std::string &h2) {
    std::string m1, m2;
    const char *err = nullptr;
    // both inputs are validated before anything is printed; the first problem (left to right) is reported
    if (!markOf(v1, h1, m1, err) || !markOf(v2, h2, m2, err)) { puts(err); return; }
    printf("m1=%s m2=%s\n", m1.c_str(), m2.c_str());
}

static void opK(const std::string &vs, const std::string &hs) {
    HttpHeader rep(hoReply);
    if (vs != ".") {
        for (const auto &tok : split(vs, ',')) {
            std::string v;
            if (!unhex(tok, v)) { puts("bad-op"); return; }
            if (hasNul(v)) { puts("reject:nul"); return; }
            rep.addEntry(new HttpHeaderEntry(Http::HdrType::VARY, SBuf(), v.c_str()));
        }
    }
    const auto mx = MasterXaction::MakePortless<XactionInitiator::initHtcp>();
    HttpRequest::Pointer req = new HttpRequest(mx);
    if (const char *err = fill(req->header, hs)) { puts(err); return; }
    // httpMakeVaryMark(): vary = reply->header.getList(VARY); assembleVaryKey(vary, vstr, *request)
    SBuf vstr;
    String vary;
    vary = rep.getList(Http::HdrType::VARY);
    assembleVaryKey(vary, vstr, *req);
    printf("mark=%s\n", hex(vstr.rawContent(), vstr.length()).c_str());
}

static void opG(const std::string &nh, const std::string &hs) {
    std::string n;
    if (!unhex(nh, n)) { puts("bad-op"); return; }
    if (hasNul(n)) { puts("reject:nul"); return; }
    HttpHeader h(hoRequest);
    if (const char *err = fill(h, hs)) { puts(err); return; }
    const String r = h.getByName(SBuf(n.data(), n.size()));
    if (!r.termedBuf()) puts("undef");
    else printf("val=%s\n", hex(r.rawBuf(), r.size()).c_str());
}

static void opI(const std::string &h) {
    std::string s;
    if (!unhex(h, s)) { puts("bad-op"); return; }
    if (hasNul(s)) { puts("reject:nul"); return; }
    String str;
    if (!s.empty()) str = s.c_str();   // an empty String is undefined, like getList() of an empty field
    const char *pos = nullptr, *item = nullptr;
    int ilen = 0;
    std::string out;
    int n = 0;
    while (strListGetItem(&str, ',', &item, &ilen, &pos)) {
        if (n++) out += ",";
        out += hex(item, ilen);
        if (n > 100000) break;
    }
    puts(n ? out.c_str() : ".");
}

static void opE(const std::string &h) {
    std::string s;
    if (!unhex(h, s)) { puts("bad-op"); return; }
    if (hasNul(s)) { puts("reject:nul"); return; }
    const char *e = rfc1738_escape_part(s.c_str());
    puts(hex(e, strlen(e)).c_str());
}

int main(int argc, char **argv) {
    Mem::Init();
    AnyP::UriScheme::Init();
    httpHeaderInitModule();
    if (argc > 1 && !strcmp(argv[1], "--dump-escape")) {
        printf("unsafe %s\n", hex(rfc1738_unsafe_chars, sizeof(rfc1738_unsafe_chars)).c_str());
        printf("reserved %s\n", hex(rfc1738_reserved_chars, sizeof(rfc1738_reserved_chars)).c_str());
        printf("flag CTRLS %d\nflag UNSAFE %d\nflag RESERVED %d\nflag NOSPACE %d\nflag NOPERCENT %d\nflag ALL %d\n",
               RFC1738_ESCAPE_CTRLS, RFC1738_ESCAPE_UNSAFE, RFC1738_ESCAPE_RESERVED, RFC1738_ESCAPE_NOSPACE, RFC1738_ESCAPE_NOPERCENT, RFC1738_ESCAPE_ALL);
        printf("char_is_signed %d\n", CHAR_MIN < 0 ? 1 : 0);
        for (int b = 1; b < 256; ++b) {
            const char in[2] = { static_cast<char>(b), 0 };
            const char *e = rfc1738_escape_part(in);
            printf("esc %d %s\n", b, hex(e, strlen(e)).c_str());
        }
        return 0;
    }
    if (argc > 1 && !strcmp(argv[1], "--dump-headers")) {
        for (int i = Http::HdrType::enumBegin_; i < Http::HdrType::enumEnd_; ++i) {
            const auto &rec = Http::HeaderLookupTable.lookup(static_cast<Http::HdrType>(i));
            if (i == Http::HdrType::OTHER || i == Http::HdrType::BAD_HDR || !rec.name || !*rec.name)
                continue;
            printf("%s %d\n", hex(rec.name, strlen(rec.name)).c_str(), rec.list ? 1 : 0);
        }
        return 0;
    }
    std::string line;
    while (std::getline(std::cin, line)) {
        const auto w = split(line, ' ');
        if (w.size() == 3 && w[0] == "K") opK(w[1], w[2]);
        else if (w.size() == 5 && w[0] == "P") opP(w[1], w[2], w[3], w[4]);
        else if (w.size() == 3 && w[0] == "G") opG(w[1], w[2]);
        else if (w.size() == 2 && w[0] == "I") opI(w[1]);
        else if (w.size() == 2 && w[0] == "E") opE(w[1]);
        else puts("bad-op");
        fflush(stdout);
    }
    return 0;
}
