// C37 harness: the real DNS message codec from the staged tree (src/dns/rfc1035.cc, rfc3596.cc, rfc2671.cc), ASan/UBSan.
// rfc1035.cc is #included so that the file-static rfc1035NameUnpack can be called directly with an exact-size name buffer.
//
//   m <hex> [expect]          rfc1035MessageUnpack on an exact-size heap copy of the datagram
//                             -> rc=<n> id=.. qr=.. op=.. aa=.. tc=.. rd=.. ra=.. rcode=.. qd=.. an=.. ns=.. ar=.. q=<name>/<t>/<c> rr=<name>/<t>/<c>/<ttl>/<rdlen>/<rdata>,...
//                             -> rc=<n> null                    (no message returned)
//   n <ns> <off> <hex>        static rfc1035NameUnpack(buf, sz, &off, &rdl, name[ns] on the heap, ns, 0)
//                             -> ok off=<off> rdl=<rdl> out=<hex of every byte stored into name[]>   |  err
//   q <api> <qid> <edns> <sz> <arghex>   build a query into an exact-size heap buffer of sz bytes, then unpack it with the real decoder
//        api: a35 rfc1035BuildAQuery, p35 rfc1035BuildPTRQuery(4 address bytes), a96/aaaa96 rfc3596BuildAQuery/AAAAQuery,
//             p496/p696 rfc3596BuildPTRQuery4/6 (address bytes), host96:<qtype> rfc3596BuildHostQuery
//                             -> len=<n> pkt=<hex> query=<name>/<t>/<c> dec: <as for m>
//   h <id> <qr> <op> <aa> <tc> <rd> <ra> <rcode> <qd> <an> <ns> <ar>   rfc1035HeaderPack then rfc1035HeaderUnpack
//                             -> pkt=<hex> id=.. qr=.. ... ar=..
//   a memcpy call of rfc1035.cc with a null pointer argument prefixes the line's output with "ub:memcpy-null@<function> "
//   --dump-limits             the macro values the model depends on
#include "squid.h"
#include "dns/rfc1035.h"
#include "dns/rfc2671.h"
#include "dns/rfc3596.h"
#include "SquidConfig.h"
#include "util.h"

#include <cassert>
#include <cstdio>
#include <cstring>
#include <iostream>
#include <sstream>
#include <string>
#include <vector>
#include <unistd.h>
#include <memory.h>
#include <netinet/in.h>
#include <arpa/inet.h>
#include <strings.h>

// Every memcpy call of rfc1035.cc goes through this observer: a null pointer argument is undefined behaviour even with a
// zero length (C17 7.24.1p2); UBSan reports a source location only once per process, so the harness records it itself, per
// line ("ub:memcpy-null@<function>" prefix of the line's output), and goes on (a zero-length copy is then skipped).
static std::string ubReport;
static inline void *verifMemcpy(void *d, const void *s, size_t n, const char *fn) {
    if (!d || !s) {
        if (ubReport.empty()) ubReport = std::string("ub:memcpy-null@") + fn;
        if (!n) return d;
    }
    return __builtin_memcpy(d, s, n);
}
#define memcpy(d, s, n) verifMemcpy((d), (s), (n), __func__)
#include "dns/rfc1035.cc"
#undef memcpy

static bool unhex(const std::string &h, std::string &r) {
    r.clear();
    if (h == "-") return true;
    if (h.size() % 2) return false;
    for (size_t i = 0; i + 1 < h.size(); i += 2) {
        int v = 0;
        for (int k = 0; k < 2; ++k) {
            const char c = h[i + k];
            int d;
            if (c >= '0' && c <= '9') d = c - '0';
            else if (c >= 'a' && c <= 'f') d = c - 'a' + 10;
            else if (c >= 'A' && c <= 'F') d = c - 'A' + 10;
            else return false;
            v = v * 16 + d;
        }
        r.push_back(static_cast<char>(v));
    }
    return true;
}
static std::string hex(const char *p, size_t n) {
    if (!n) return "-";
    static const char *d = "0123456789abcdef";
    std::string r;
    for (size_t i = 0; i < n; ++i) { const unsigned char c = p[i]; r.push_back(d[c >> 4]); r.push_back(d[c & 15]); }
    return r;
}
static std::string cstrHex(const char *p, size_t cap) {
    const void *z = memchr(p, 0, cap);
    const size_t n = z ? static_cast<const char *>(z) - p : cap;
    return hex(p, n) + (z ? "" : "!unterminated");
}
static bool num(const std::string &s, long long &v) {
    if (s.empty() || s.size() > 18) return false;
    size_t i = 0;
    bool neg = false;
    if (s[0] == '-') { neg = true; i = 1; if (s.size() == 1) return false; }
    v = 0;
    for (; i < s.size(); ++i) { if (s[i] < '0' || s[i] > '9') return false; v = v * 10 + (s[i] - '0'); }
    if (neg) v = -v;
    return true;
}

static std::string headerFields(const rfc1035_message *m) {
    std::ostringstream o;
    o << "id=" << m->id << " qr=" << m->qr << " op=" << m->opcode << " aa=" << m->aa << " tc=" << m->tc << " rd=" << m->rd
      << " ra=" << m->ra << " rcode=" << m->rcode << " qd=" << m->qdcount << " an=" << m->ancount << " ns=" << m->nscount
      << " ar=" << m->arcount;
    return o.str();
}

// canonical print of what rfc1035MessageUnpack returned
static std::string showMessage(int rc, const rfc1035_message *m) {
    std::ostringstream o;
    o << "rc=" << rc;
    if (!m) { o << " null"; return o.str(); }
    o << " " << headerFields(m);
    if (m->query)
        o << " q=" << cstrHex(m->query->name, sizeof(m->query->name)) << "/" << m->query->qtype << "/" << m->query->qclass;
    else
        o << " q=null";
    o << " rr=";
    if (rc <= 0 || !m->answer) { o << "-"; return o.str(); }
    for (int i = 0; i < rc; ++i) {
        const rfc1035_rr &r = m->answer[i];
        if (i) o << ",";
        o << cstrHex(r.name, sizeof(r.name)) << "/" << r.type << "/" << r._class << "/" << r.ttl << "/" << r.rdlength << "/";
        if (!r.rdata) o << "null";
        else if (r.type == RFC1035_TYPE_PTR) o << cstrHex(r.rdata, RFC1035_MAXHOSTNAMESZ);
        else o << hex(r.rdata, r.rdlength);
    }
    return o.str();
}

static std::string unpackExact(const std::string &bytes) {
    char *buf = new char[bytes.size()];          // exact size: any over-read is an ASan report
    memcpy(buf, bytes.data(), bytes.size());
    rfc1035_message *msg = nullptr;
    const int rc = rfc1035MessageUnpack(buf, bytes.size(), &msg);
    const std::string s = showMessage(rc, msg);
    rfc1035MessageDestroy(&msg);
    delete[] buf;
    return s;
}

static std::string nameUnpackDirect(size_t ns, unsigned int off0, const std::string &bytes) {
    char *buf = new char[bytes.size()];
    memcpy(buf, bytes.data(), bytes.size());
    // two runs with different fill patterns: a position whose content differs between the runs was never stored to
    std::string res[2];
    int rcs[2];
    unsigned int offs[2];
    unsigned short rdls[2];
    for (int run = 0; run < 2; ++run) {
        char *name = new char[ns];               // exact size: any store past ns is an ASan report
        memset(name, run ? 0x55 : 0xAA, ns);
        unsigned int off = off0;
        unsigned short rdl = 0;
        rcs[run] = rfc1035NameUnpack(buf, bytes.size(), &off, &rdl, name, ns, 0);
        offs[run] = off;
        rdls[run] = rdl;
        res[run].assign(name, ns);
        delete[] name;
    }
    delete[] buf;
    if (rcs[0] != rcs[1] || offs[0] != offs[1] || rdls[0] != rdls[1]) return "nondeterministic";
    if (rcs[0]) return "err";
    size_t k = 0;
    while (k < ns && res[0][k] == res[1][k]) ++k;
    for (size_t i = k; i < ns; ++i)
        if (res[0][i] == res[1][i]) return "hole-in-written-region";
    std::ostringstream o;
    o << "ok off=" << offs[0] << " rdl=" << rdls[0] << " out=" << hex(res[0].data(), k);
    return o.str();
}

static std::string buildQuery(const std::string &api, long long qid, long long edns, long long sz, const std::string &arg) {
    if (sz < 0 || sz > (1 << 20)) return "bad-op";
    if (qid < 0 || qid > 65535) return "bad-op";
    char *buf = new char[sz];
    memset(buf, 0xEE, sz);
    rfc1035_query query;
    memset(&query, 0x77, sizeof(query));
    ssize_t n = -1;
    Config.dns.packet_max = edns;
    const bool isAddr4 = (api == "p35" || api == "p496");
    if (isAddr4 || api == "p696") {
        if (arg.size() != (isAddr4 ? 4u : 16u)) { delete[] buf; return "bad-op"; }
    } else if (arg.find('\0') != std::string::npos) { delete[] buf; return "reject:nul"; }
    // exact-size heap copy of the host name
    char *host = new char[arg.size() + 1];
    memcpy(host, arg.data(), arg.size());
    host[arg.size()] = 0;
    if (api == "a35") n = rfc1035BuildAQuery(host, buf, sz, qid, &query, edns);
    else if (api == "a96") n = rfc3596BuildAQuery(host, buf, sz, qid, &query);
    else if (api == "aaaa96") n = rfc3596BuildAAAAQuery(host, buf, sz, qid, &query);
    else if (api.compare(0, 7, "host96:") == 0) {
        long long qt;
        if (!num(api.substr(7), qt) || qt < 0 || qt > 1000000) { delete[] buf; delete[] host; return "bad-op"; }
        n = rfc3596BuildHostQuery(host, buf, sz, qid, &query, qt);
    } else if (isAddr4) {
        struct in_addr a;
        memcpy(&a, arg.data(), 4);
        n = (api == "p35") ? rfc1035BuildPTRQuery(a, buf, sz, qid, &query, edns) : rfc3596BuildPTRQuery4(a, buf, sz, qid, &query);
    } else if (api == "p696") {
        struct in6_addr a;
        memcpy(&a, arg.data(), 16);
        n = rfc3596BuildPTRQuery6(a, buf, sz, qid, &query);
    } else { delete[] buf; delete[] host; return "bad-op"; }
    delete[] host;
    std::ostringstream o;
    o << "len=" << n;
    if (n < 0 || n > sz) { delete[] buf; o << " bad-length"; return o.str(); }
    const std::string pkt(buf, n);
    delete[] buf;
    o << " pkt=" << hex(pkt.data(), pkt.size())
      << " query=" << cstrHex(query.name, sizeof(query.name)) << "/" << query.qtype << "/" << query.qclass
      << " dec: " << unpackExact(pkt);
    return o.str();
}

static std::string headerRoundTrip(const std::vector<long long> &v) {
    rfc1035_message h;
    memset(&h, 0, sizeof(h));
    h.id = v[0]; h.qr = v[1]; h.opcode = v[2]; h.aa = v[3]; h.tc = v[4]; h.rd = v[5]; h.ra = v[6]; h.rcode = v[7];
    h.qdcount = v[8]; h.ancount = v[9]; h.nscount = v[10]; h.arcount = v[11];
    char *buf = new char[12];
    const int n = rfc1035HeaderPack(buf, 12, &h);
    rfc1035_message g;
    memset(&g, 0x55, sizeof(g));
    unsigned int off = 0;
    const int rc = rfc1035HeaderUnpack(buf, 12, &off, &g);
    std::ostringstream o;
    o << "pkt=" << hex(buf, n) << " ";
    delete[] buf;
    if (rc) o << "unpack-error"; else o << headerFields(&g);
    return o.str();
}

int main(int argc, char **argv) {
    if (argc > 1 && !strcmp(argv[1], "--dump-limits")) {
        printf("RFC1035_MAXLABELSZ %d\n", (int)RFC1035_MAXLABELSZ);
        printf("RFC1035_MAXHOSTNAMESZ %d\n", (int)RFC1035_MAXHOSTNAMESZ);
        printf("rfc1035_unpack_error %d\n", (int)rfc1035_unpack_error);
        printf("RFC1035_TYPE_A %d\n", (int)RFC1035_TYPE_A);
        printf("RFC1035_TYPE_CNAME %d\n", (int)RFC1035_TYPE_CNAME);
        printf("RFC1035_TYPE_PTR %d\n", (int)RFC1035_TYPE_PTR);
        printf("RFC1035_TYPE_AAAA %d\n", (int)RFC1035_TYPE_AAAA);
        printf("RFC1035_TYPE_OPT %d\n", (int)RFC1035_TYPE_OPT);
        printf("RFC1035_CLASS_IN %d\n", (int)RFC1035_CLASS_IN);
        printf("SQUID_UDP_SO_RCVBUF %d\n", (int)SQUID_UDP_SO_RCVBUF);
        printf("sizeof_query_name %d\n", (int)sizeof(((rfc1035_query *)nullptr)->name));
        printf("sizeof_rr_name %d\n", (int)sizeof(((rfc1035_rr *)nullptr)->name));
        return 0;
    }
    std::string line;
    while (std::getline(std::cin, line)) {
        std::vector<std::string> w;
        {
            std::istringstream is(line);
            std::string t;
            while (is >> t) w.push_back(t);
        }
        std::string out = "bad-op";
        std::string bytes;
        ubReport.clear();
        if (w.size() >= 2 && w[0] == "m") {
            if (unhex(w[1], bytes)) out = unpackExact(bytes);
        } else if (w.size() == 4 && w[0] == "n") {
            long long ns, off;
            if (num(w[1], ns) && num(w[2], off) && ns >= 1 && ns <= 100000 && off >= 0 && off <= 1000000 && unhex(w[3], bytes))
                out = nameUnpackDirect(ns, off, bytes);
        } else if (w.size() == 6 && w[0] == "q") {
            long long qid, edns, sz;
            if (num(w[2], qid) && num(w[3], edns) && num(w[4], sz) && unhex(w[5], bytes))
                out = buildQuery(w[1], qid, edns, sz, bytes);
        } else if (w.size() == 13 && w[0] == "h") {
            std::vector<long long> v(12);
            bool ok = true;
            for (int i = 0; i < 12; ++i) ok = ok && num(w[i + 1], v[i]) && v[i] >= 0 && v[i] <= 65535;
            if (ok) out = headerRoundTrip(v);
        }
        if (!ubReport.empty()) out = ubReport + " " + out;
        puts(out.c_str());
        fflush(stdout);
    }
    return 0;
}
