"""C15 end-to-end harness: Range requests through the staged squid, observation = one canonical line.

Scenario line (space separated):
  <mode> <method> <n> <seed> <ct> <olen> <range-hex|-> <ifr> <ka> <seg>
    mode    miss  : uncached object, squid A (range_offset_limit none: squid fetches the whole object and packs the ranges itself)
            mem   : object cached in memory (TCP_MEM_HIT), squid A
            disk  : object cached on disk only (TCP_HIT after a restart of squid B: ufs cache_dir, no memory cache)
            fwd   : uncached object, squid C (default range_offset_limit 0: single ranges are forwarded, the origin answers 206/416/200)
    method  GET | HEAD
    n seed  the object is body(n, seed): the high bytes of an LCG stream seeded by `seed`
    ct      0 = origin sends no Content-Type, 1 = text/plain, 2 = a long one with parameters
    olen    cl | chunked  (how the origin frames the object; chunked => squid does not know the length)
    range   hex of the Range header value, '-' = no Range header
    ifr     - | match | other | weak   (If-Range: "v1" is the object's ETag)
    ka      0 | 1   (1: persistent connection, a second request for a sentinel follows on the same connection)
    seg     1..3    (the origin sends the object in that many segments, miss/fwd only)
Observation:
  <status> src=<squid result code> cr=<a-b/n | */n | -> cl=<n|-> te=<chunked|-> ct=<multi|hex|-> body=<len>:<fnv64 of the
  boundary-normalised wire body> parts=<a-b/n:cthex:eq|ne;...|-> frame=<exact|none|bad:why> trail=<ok|closed|-|bad:why> skew=<-|a,m> origin=<k>:<range hex|->
"""
import os, re, threading, time, socket
from concurrent.futures import ThreadPoolExecutor
from e2e import rig

ETAG = '"v1"'
CTYPES = {0: None, 1: "text/plain", 2: "application/x-verif; charset=utf-8; note=\"a b\""}
FNV_OFF, FNV_PRIME, M64 = 0xcbf29ce484222325, 0x100000001b3, (1 << 64) - 1
SENTINEL = b"sentinel-body-0123456789"
KEYX = b"X" * 32


def body(n, seed):
    """LCG stream (no short near-periods, so a slice identifies its offset): x' = 1664525 x + 1013904223 mod 2^32, byte = x' >> 24"""
    x = (seed * 2654435761 + 12345) & 0xffffffff
    out = bytearray(n)
    for i in range(n):
        x = (x * 1664525 + 1013904223) & 0xffffffff
        out[i] = x >> 24
    return bytes(out)


def fnv(b):
    h = FNV_OFF
    for x in b:
        h = ((h ^ x) * FNV_PRIME) & M64
    return "%016x" % h


def hx(b):
    return b.hex() if b else "-"


def unhx(s):
    return b"" if s == "-" else bytes.fromhex(s)


def parse_line(line):
    t = line.split(" ")
    if len(t) != 10:
        return None
    try:
        sc = {"mode": t[0], "method": t[1], "n": int(t[2]), "seed": int(t[3]), "ct": int(t[4]), "olen": t[5],
              "range": None if t[6] == "-" else unhx(t[6]), "ifr": t[7], "ka": int(t[8]), "seg": int(t[9])}
    except ValueError:
        return None
    if sc["mode"] not in ("miss", "mem", "disk", "fwd") or sc["method"] not in ("GET", "HEAD") or sc["ct"] not in CTYPES \
            or sc["olen"] not in ("cl", "chunked") or sc["ifr"] not in ("-", "match", "other", "weak") or sc["ka"] not in (0, 1) \
            or not (1 <= sc["seg"] <= 3) or not (0 <= sc["n"] <= 1 << 20) or not (0 <= sc["seed"] < 251):
        return None
    if sc["method"] == "HEAD" and (sc["mode"] == "fwd" or sc["olen"] == "chunked"):
        return None
    if sc["range"] is not None and (b"\r" in sc["range"] or b"\n" in sc["range"] or b"\0" in sc["range"]):
        return None
    return sc


# ------------------------------------------------------------------------------------------------ origin side

def origin_specs(value):
    """RFC 9110 byte-range-set over the clean grammar; None = not a valid Range header (origin ignores it)."""
    if value[:6].lower() != b"bytes=":
        return None
    out = []
    for item in value[6:].split(b","):
        item = item.strip(b" \t")
        if not item:
            continue
        m = re.fullmatch(rb"(\d{1,18})-(\d{0,18})", item)
        if m:
            a = int(m.group(1))
            b = int(m.group(2)) if m.group(2) else None
            if b is not None and b < a:
                return None
            out.append((a, b))
            continue
        m = re.fullmatch(rb"-(\d{1,18})", item)
        if m:
            out.append((None, int(m.group(1))))
            continue
        return None
    return out or None


def satisfiable(spec, n):
    """-> (first, last) of the satisfiable part of one spec over an n-byte representation, or None"""
    a, b = spec
    if a is None:
        if b == 0 or n == 0:
            return None
        return (max(0, n - b), n - 1)
    if a >= n:
        return None
    return (a, n - 1 if b is None else min(b, n - 1))


def object_headers(sc):
    h = [("Cache-Control", "max-age=3600"), ("ETag", ETAG), ("Last-Modified", rig.date_now(-86400))]
    if CTYPES[sc["ct"]]:
        h.append(("Content-Type", CTYPES[sc["ct"]]))
    return h


def split_segments(data, k):
    if k <= 1 or len(data) < k:
        return [data]
    step = len(data) // k
    cuts = [step * i for i in range(1, k)]
    return [data[a:b] for a, b in zip([0] + cuts, cuts + [len(data)])]


def make_handler(sc, B):
    def handler(req):
        head_only = req["first"].startswith("HEAD ")
        rng = rig.hget(req["hdrs"], "range")
        ifr = rig.hget(req["hdrs"], "if-range")
        hdrs = object_headers(sc)
        if rng is not None and (ifr is None or ifr == ETAG):
            specs = origin_specs(rng.encode("latin-1"))
            if specs is not None and len(specs) == 1:
                s = satisfiable(specs[0], len(B))
                if s is None:
                    msg = rig.simple_response(416, b"" if head_only else b"unsatisfiable\n", [("Content-Range", "bytes */%d" % len(B))] + hdrs[1:3],
                                              reason="Range Not Satisfiable")
                    return [("send", msg)]
                part = B[s[0]:s[1] + 1]
                msg = rig.simple_response(206, part, [("Content-Range", "bytes %d-%d/%d" % (s[0], s[1], len(B)))] + hdrs, reason="Partial Content")
                if head_only:
                    msg = msg[:msg.index(b"\r\n\r\n") + 4]
                return [("send", msg)]
        if sc["olen"] == "chunked":
            head = rig.simple_response(200, b"", hdrs + [("Transfer-Encoding", "chunked")], cl=False)
            if head_only:
                return [("send", head)]
            acts = [("send", head)]
            for seg in split_segments(B, sc["seg"]):
                if seg:
                    acts += [("send", b"%x\r\n" % len(seg) + seg + b"\r\n"), ("sleep", 0.004)]
            acts.append(("send", b"0\r\n\r\n"))
            return acts
        msg = rig.simple_response(200, B, hdrs)
        if head_only:
            return [("send", msg[:msg.index(b"\r\n\r\n") + 4])]
        if sc["seg"] <= 1:
            return [("send", msg)]
        hl = msg.index(b"\r\n\r\n") + 4
        acts = [("send", msg[:hl])]
        for seg in split_segments(B, sc["seg"]):
            acts += [("sleep", 0.004), ("send", seg)]
        return acts
    return handler


# ------------------------------------------------------------------------------------------------ multipart

def parse_multipart(raw, bnd, B):
    """Strict reader of squid's multipart/byteranges body. -> (parts text, frame verdict)."""
    pos, parts = 0, []
    delim = b"\r\n--" + bnd
    while True:
        if raw[pos:pos + len(delim)] != delim:
            return parts, "bad:no-delimiter@%d" % pos
        pos += len(delim)
        if raw[pos:pos + 4] == b"--\r\n":
            pos += 4
            if pos != len(raw):
                return parts, "bad:bytes-after-terminator"
            return parts, "exact"
        if raw[pos:pos + 2] != b"\r\n":
            return parts, "bad:delimiter-line@%d" % pos
        pos += 2
        end = raw.find(b"\r\n\r\n", pos)
        if end < 0:
            return parts, "bad:part-head-unterminated"
        lines = raw[pos:end].split(b"\r\n") if end > pos else []
        pos = end + 4
        ct, cr = None, None
        for l in lines:
            if b":" not in l:
                return parts, "bad:part-header-line"
            nme, v = l.split(b":", 1)
            nme = nme.strip().lower()
            if nme == b"content-type":
                ct = v.strip()
            elif nme == b"content-range":
                cr = v.strip()
            else:
                return parts, "bad:unexpected-part-header"
        m = re.fullmatch(rb"bytes (\d+)-(\d+)/(\d+)", cr or b"")
        if not m:
            return parts, "bad:part-content-range"
        a, b, n = int(m.group(1)), int(m.group(2)), int(m.group(3))
        if b < a:
            return parts, "bad:part-content-range-order"
        data = raw[pos:pos + b - a + 1]
        if len(data) != b - a + 1:
            return parts, "bad:part-truncated"
        pos += b - a + 1
        parts.append("%d-%d/%d:%s:%s" % (a, b, n, hx(ct or b""), "eq" if data == B[a:b + 1] and b < len(B) else "ne"))


class Harness:
    def __init__(self, stage):
        self.stage = stage
        self.origin = rig.Origin()
        common = "cache_mem 256 MB\nmaximum_object_size_in_memory 4 MB\n"
        self.A = rig.Squid(stage, conf="range_offset_limit none\n" + common)
        self.C = rig.Squid(stage, conf=common)
        self.B = rig.Squid(stage, conf="range_offset_limit none\ncache_dir ufs {dir}/cache 200 16 64\ncache_mem 0 MB\nmaximum_object_size_in_memory 0 KB\n")
        self.B.init_dirs()
        for s in (self.A, self.B, self.C):
            self._start(s)
        self.n = 0
        self.lock = threading.Lock()
        self.crashes = 0
        self.origin.on("sentinel", lambda req: [("send", rig.simple_response(200, SENTINEL, [("Cache-Control", "no-store")]))])
        # learn the application name used in multipart boundaries
        r = rig.get(self.A.port, self.origin.url("sentinel", "x"))
        via = rig.hget(r["hdrs"], "via") if r else None
        m = re.search(r"\((.*)\)$", via or "")
        if not m:
            raise RuntimeError("cannot learn squid's application name: %r" % via)
        self.app = m.group(1).encode()

    def _start(self, s):
        s.proc = None
        # rig's readiness test reads cache.log, which is stale after a restart: truncate it first
        p = os.path.join(s.dir, "cache.log")
        if os.path.exists(p):
            os.truncate(p, 0)
        try:
            s.start(wait=60)
        except RuntimeError:
            # a heavily loaded machine: one more attempt before giving up
            s.stop(kill=True)
            p = os.path.join(s.dir, "cache.log")
            if os.path.exists(p):
                os.truncate(p, 0)
            s.start(wait=120)
        for _ in range(200):
            try:
                socket.create_connection(("127.0.0.1", s.port), timeout=1).close()
                return
            except OSError:
                time.sleep(0.02 * rig.VERIF_SLOW)
        raise RuntimeError("squid not accepting: " + s.cache_log()[-800:])

    def squid_for(self, sc):
        return {"miss": self.A, "mem": self.A, "disk": self.B, "fwd": self.C}[sc["mode"]]

    def new_sid(self):
        with self.lock:
            self.n += 1
            return "r%d" % self.n

    # -- phases ---------------------------------------------------------------------------------
    def prepare(self, sc):
        """register the object; warm the cache for mem/disk. -> scenario state or an error string"""
        sid = self.new_sid()
        B = body(sc["n"], sc["seed"])
        self.origin.on(sid, make_handler(sc, B))
        st = {"sid": sid, "B": B, "url": self.origin.url(sid, "o"), "warm": 0}
        if sc["mode"] in ("mem", "disk"):
            sq = self.squid_for(sc)
            r = rig.get(sq.port, st["url"])
            if r is None or r["status"] != 200 or r["body"] != B or not r["complete"]:
                return "warm-failed"
            st["warm"] = len(self.origin.requests(sid))
        return st

    def request(self, sc, st):
        sq = self.squid_for(sc)
        B = st["B"]
        hostport = "127.0.0.1:%d" % self.origin.port
        lines = ["%s %s HTTP/1.1" % (sc["method"], st["url"]), "Host: " + hostport]
        head = "\r\n".join(lines).encode() + b"\r\n"
        if sc["range"] is not None:
            head += b"Range: " + sc["range"] + b"\r\n"
        if sc["ifr"] != "-":
            head += b"If-Range: " + {"match": ETAG, "other": '"zz"', "weak": "W/" + ETAG}[sc["ifr"]].encode() + b"\r\n"
        if not sc["ka"]:
            head += b"Connection: close\r\n"
        head += b"\r\n"
        c = rig.Client(sq.port)
        c.send(head)
        r = c.response(head_request=(sc["method"] == "HEAD"))
        trail = "-"
        if r is not None and sc["ka"] and (r["framing"] in ("close", "close-timeout", "close-reset") or "close" in (rig.hget(r["hdrs"], "connection") or "").lower()):
            trail = "closed"        # squid announced (or used) connection close: nothing can follow
        elif r is not None and sc["ka"]:
            c.send(("GET %s HTTP/1.1\r\nHost: %s\r\nConnection: close\r\n\r\n" % (self.origin.url("sentinel", "x"), hostport)).encode())
            r2 = c.response()
            if r2 is None:
                trail = "bad:no-second-response"
            elif r2["status"] != 200 or r2["body"] != SENTINEL:
                trail = "bad:second-response-%d" % r2["status"]
            else:
                trail = "ok"
        c.close()
        if r is None:
            return "no-response"
        return self.observe(sc, st, r, trail)

    def observe(self, sc, st, r, trail):
        B = st["B"]
        hd = r["hdrs"]
        cr = rig.hget(hd, "content-range")
        crs = "-"
        if cr is not None:
            m = re.fullmatch(r"bytes (\d+)-(\d+)/(\d+)", cr)
            m2 = re.fullmatch(r"bytes \*/(\d+)", cr)
            crs = "%s-%s/%s" % m.groups() if m else ("*/" + m2.group(1) if m2 else "bad:" + hx(cr.encode("latin-1")))
        cl = rig.hget(hd, "content-length")
        te = rig.hget(hd, "transfer-encoding")
        ct = rig.hget(hd, "content-type")
        raw = r["body"]
        norm, parts, frame, cts = raw, "-", "none", hx((ct or "").encode("latin-1"))
        m = re.fullmatch(r'multipart/byteranges; boundary="([^"]*)"', ct or "")
        if m:
            bnd = m.group(1).encode("latin-1")
            ok = re.fullmatch(re.escape(self.app) + rb":[0-9A-F]{32}", bnd)
            cts = "multi" if ok else "multi-bad-boundary:" + hx(bnd)
            if sc["method"] != "HEAD":
                pl, frame = parse_multipart(raw, bnd, B)
                parts = ";".join(pl) if pl else "-"
                norm = raw.replace(bnd, self.app + b":" + KEYX)
        elif r["status"] == 206 and sc["method"] != "HEAD":
            mm = re.fullmatch(r"(\d+)-(\d+)/(\d+)", crs)
            if mm:
                a, b, n = (int(x) for x in mm.groups())
                parts = "%d-%d/%d:%s:%s" % (a, b, n, "-", "eq" if raw == B[a:b + 1] and a <= b < len(B) else "ne")
        if not r["complete"]:
            frame = "bad:incomplete-" + r["framing"]
        # diagnostic for a complete-looking 200 whose body is not the object: is it the object read from the lowest requested
        # first-byte-pos a up to some m, followed by the object from m-a on?  (what a skipped first store buffer looks like)
        skew = "-"
        if r["status"] == 200 and sc["method"] != "HEAD" and raw != B and len(raw) == len(B) and sc["range"] is not None:
            specs = origin_specs(sc["range"])
            a = 0 if specs is None or any(f is None for f, _ in specs) else min(f for f, _ in specs)
            if 0 < a < len(B):
                t = len(B)
                while t > 0 and raw[t - 1] == B[t - 1]:
                    t -= 1                      # raw[t:] == B[t:], t minimal
                if 0 < t <= len(B) - a and raw[:t] == B[a:a + t]:
                    skew = "%d,%d" % (a, a + t)
        reqs = self.origin.requests(st["sid"])[st["warm"]:]
        seen = "-"
        if reqs:
            v = rig.hget(reqs[0]["hdrs"], "range")
            seen = hx(v.encode("latin-1")) if v is not None else "-"
        return "%d src=%%s cr=%s cl=%s te=%s ct=%s body=%d:%s parts=%s frame=%s trail=%s skew=%s origin=%d:%s" % (
            r["status"], crs, cl if cl is not None else "-", "chunked" if te and "chunked" in te.lower() else "-", cts,
            len(raw), fnv(norm), parts, frame, trail, skew, len(reqs), seen)

    def result_codes(self, squids, want, wait=3.0):
        """url -> squid result codes from the access logs, waiting until every url has the expected number of lines"""
        t0 = time.time()
        while True:
            found = {}
            for s in squids:
                for l in s.access_log().splitlines():
                    f = l.split()
                    if len(f) > 6 and f[6] in want:
                        found.setdefault(f[6], []).append(f[3].split("/")[0])
            if all(len(found.get(u, [])) >= k for u, k in want.items()) or time.time() - t0 > wait * rig.VERIF_SLOW:
                return found
            time.sleep(0.02)

    def run_batch(self, lines, restart, settle=0.3):
        scs = [parse_line(l) for l in lines]
        out = [None] * len(lines)
        with ThreadPoolExecutor(max_workers=8) as ex:
            sts = list(ex.map(lambda sc: self.prepare(sc) if sc else "bad-op", scs))
        if any(sc and sc["mode"] == "disk" for sc in scs):
            if restart:
                # cached on disk only: a clean restart writes swap.state and drops everything held in memory
                self.B.stop()
                self._start(self.B)
            else:
                # small batches (minimisation, replay): give the swap-out time to finish; the result code tells whether it did
                time.sleep(settle * rig.VERIF_SLOW)

        def one(i):
            if not isinstance(sts[i], dict):
                return sts[i]
            try:
                return self.request(scs[i], sts[i])
            except OSError as e:
                return "io-error:" + type(e).__name__
        with ThreadPoolExecutor(max_workers=8) as ex:
            obs = list(ex.map(one, range(len(lines))))
        want = {sts[i]["url"]: (2 if scs[i]["mode"] in ("mem", "disk") else 1) for i in range(len(lines)) if isinstance(sts[i], dict) and "src=%s" in obs[i]}
        codes = self.result_codes([self.A, self.B, self.C], want)
        for i in range(len(lines)):
            o = obs[i]
            if isinstance(sts[i], dict) and "src=%s" in o:
                cs = codes.get(sts[i]["url"], [])
                o = o.replace("src=%s", "src=" + (cs[-1] if len(cs) >= want[sts[i]["url"]] else "?"))
            out[i] = o
        for s in (self.A, self.B, self.C):
            if not s.alive():
                self.crashes += 1
                probs = s.problems()
                self._start(s)
                return [o if not o.startswith(("no-response", "io-error")) else "abort:squid-died:" + re.sub(r"\s+", "_", (probs or ["?"])[0])[:120] for o in out]
        return out

    EXPECT_SRC = {"miss": "TCP_MISS", "mem": "TCP_MEM_HIT", "disk": "TCP_HIT", "fwd": "TCP_MISS"}

    def needs_retry(self, line, o):
        if o.startswith(("no-response", "io-error", "warm-failed")):
            return True
        m = re.search(r" src=(\S+)", o)
        return bool(m) and m.group(1) != self.EXPECT_SRC.get(line.split(" ")[0], m.group(1))

    def run(self, lines):
        t0 = time.time()
        try:
            return self.run_(lines)
        finally:
            if os.environ.get("VERIF_C15_DEBUG"):
                import sys
                print("c15 harness: %d lines in %.2fs" % (len(lines), time.time() - t0), file=sys.stderr, flush=True)

    def run_(self, lines):
        out = []
        for off in range(0, len(lines), 400):
            chunk = lines[off:off + 400]
            out += self.run_batch(chunk, restart=len(chunk) >= 100)
        # flake guard: scenarios without a usable observation, or whose store state was not reached, are run again (twice at most)
        for attempt in range(2):
            bad = [i for i, o in enumerate(out) if self.needs_retry(lines[i], o)]
            if not bad:
                break
            again = self.run_batch([lines[i] for i in bad], restart=len(bad) >= 100, settle=0.5 * (attempt + 1))
            for i, o in zip(bad, again):
                out[i] = o
        return out

    def close(self):
        for s in (self.A, self.B, self.C):
            try:
                s.stop()
            except Exception:
                pass
        self.origin.close()
