// C39 harness, HTCP part (linked into c39_udp.cc's executable): #includes the real src/htcp.cc; see c39_udp.cc for the line format.
#include "squid.h"
#include "AccessLogEntry.h"
#include "acl/Acl.h"
#include "acl/FilledChecklist.h"
#include "base/AsyncCallbacks.h"
#include "base/RunnersRegistry.h"
#include "CachePeer.h"
#include "CachePeers.h"
#include "comm.h"
#include "comm/Connection.h"
#include "comm/Loops.h"
#include "compat/xalloc.h"
#include "debug/Messages.h"
#include "globals.h"
#include "htcp.h"
#include "http.h"
#include "http/ContentLengthInterpreter.h"
#include "HttpRequest.h"
#include "icmp/net_db.h"
#include "ip/tools.h"
#include "ipc/StartListening.h"
#include "md5.h"
#include "mem/forward.h"
#include "MemBuf.h"
#include "refresh.h"
#include "SquidConfig.h"
#include "StatCounters.h"
#include "Store.h"
#include "store_key_md5.h"
#include "StoreClient.h"
#include "tools.h"

#include <cstdio>
#include <cstring>
#include <memory>
#include <string>
#include <vector>

#include "c39_dbg.h"

#include "htcp.cc"

struct VfSent { std::string bytes; };
extern std::vector<VfSent> vfSent;
extern std::vector<std::string> vfNotes;
extern std::string vfFeedDatagram, vfFeedStale, vfAfterRecv;
extern bool vfFeedPending;
extern size_t vfFeedBufSize;
extern unsigned char *vfFeedBuf;
extern Ip::Address vfFrom;
std::string vfHex(const std::string &s);
size_t vfGetOver();
size_t vfGetWrOver();
const char *vfGetForeign();
void vfStopTracking();

static bool has(const std::string &s, const char *needle) { return s.find(needle) != std::string::npos; }
static std::string numAfter(const std::string &s, const char *key)
{
    const auto a = s.find(key);
    if (a == std::string::npos) return "?";
    size_t i = a + strlen(key);
    std::string r;
    while (i < s.size() && (isdigit(static_cast<unsigned char>(s[i])) || (r.empty() && s[i] == '-'))) r.push_back(s[i++]);
    return r.empty() ? "?" : r;
}
static std::string field(const std::string &s, const char *key)
{
    const auto a = s.find(key);
    std::string r = a == std::string::npos ? "?" : s.substr(a + strlen(key));
    for (auto &c : r) if (c == ' ') c = '_';
    return r;
}

std::string vfHtcpLine(const std::string &dg, const std::string &stale, const std::string &flags)
{
    vfDbgLog.clear(); vfSent.clear(); vfNotes.clear();
    vfFeedDatagram = dg; vfFeedStale = stale; vfFeedPending = true;
    vfFeedBuf = nullptr;
    // state left by earlier queries of this cache: none, or (flag m) one that a TST response with this msg_id from vfFrom answers
    memset(queried_id, 0, sizeof(queried_id));
    for (auto &a : queried_addr) a = Ip::Address();
    if (flags.find('m') != std::string::npos && dg.size() >= 12) {
        const bool oldFormat = static_cast<unsigned char>(dg[3]) == 0;
        (void)oldFormat;
        uint32_t id;
        memcpy(&id, dg.data() + 8, 4);
        id = ntohl(id);
        queried_id[id % N_QUERIED_KEYS] = id;
        queried_addr[id % N_QUERIED_KEYS] = vfFrom;
    }
    htcpRecv(9, nullptr);
    vfStopTracking();
    if (!vfFeedBuf) return "bad-state";
    std::string out, extras;
    bool rest = false;   // everything after the URI has been handed to the URL parser / ACLs is not modelled
    std::string sz = "?";
    for (const auto &m : vfDbgLog) {
        if (m.section != 31) continue;
        const std::string &x = m.text;
        std::string tok;
        if (has(x, "msg size less than htcpHeader size")) tok = "drop:short";
        else if (has(x, "!= htcpHdr.length/")) tok = "drop:length";
        else if (has(x, "Unknown major version")) tok = "drop:major";
        else if (has(x, "msg size less than htcpDataHeader size")) tok = "drop:datahdr";
        else if (has(x, "out of range")) tok = "drop:opcode";
        else if (has(x, "invalid hdr.length")) tok = "drop:dlen-small";
        else if (has(x, "htcpHandleData: sz < hdr.length")) tok = "drop:dlen-big";
        else if (has(x, "HTCP NOP not implemented")) tok = "nop";
        else if (has(x, "HTCP MON not implemented")) tok = "mon";
        else if (has(x, "HTCP SET not implemented")) tok = "set";
        else if (has(x, "htcpHandleData: opcode = ")) tok = "op=" + numAfter(x, "opcode = ");
        else if (has(x, "htcpHandleData: response = ")) tok = "resp=" + numAfter(x, "response = ");
        else if (has(x, "htcpHandleData: F1 = ")) tok = "f1=" + numAfter(x, "F1 = ");
        else if (has(x, "htcpHandleData: RR = ")) tok = "rr=" + numAfter(x, "RR = ");
        else if (has(x, "htcpHandleData: msg_id = ")) tok = "id=" + numAfter(x, "msg_id = ");
        else if (has(x, "htcpHandleData: length = ")) tok = "dlen=" + numAfter(x, "length = ");
        else if (has(x, "htcpHandleData: hsz = ")) { sz = numAfter(x, "hsz = "); continue; }
        else if (has(x, "htcpHandleTst: nothing to do")) tok = "tst:empty";
        else if (has(x, "too short for ")) tok = "short:" + field(x, "too short for ");
        else if (has(x, "failed to unpack ")) tok = "bad:" + field(x, "failed to unpack ");
        else if (has(x, "htcpUnpackSpecifier: ") && has(x, " bytes left")) tok = "left=" + numAfter(x, "htcpUnpackSpecifier: ");
        else if (has(x, "htcpUnpackDetail: ") && has(x, " bytes left")) tok = "dleft=" + numAfter(x, "htcpUnpackDetail: ");
        else if (has(x, "No matching query id")) tok = "rsp:noid";
        else if (has(x, "No query key for response")) tok = "rsp:nokey";
        else if (has(x, "Unexpected response source")) tok = "rsp:source";
        else if (has(x, "error condition, F1/MO == 1")) tok = "rsp:f1";
        else if (has(x, "htcpHandleTstResponse: HIT")) tok = "rsp:hit";
        else if (has(x, "htcpHandleTstResponse: MISS")) tok = "rsp:miss";
        else if (has(x, "htcpHandleTstResponse: bad DETAIL")) tok = "rsp:baddetail";
        else if (has(x, "failed to create request")) { rest = true; tok = "badurl"; }
        else if (has(x, "Access denied")) { rest = true; tok = "denied"; }
        else if (has(x, "htcpUnpackSpecifier failed") || has(x, "htcpHandle: htcpHdr.") || has(x, "htcpHandleTst: sz =") ||
                 has(x, "htcpRecv: FD") || has(x, "htcpHandleTstResponse: msg_id") || has(x, "htcpHandleTstResponse: key (") ||
                 has(x, "HTCP CLR reason")) continue;
        else { rest = true; tok = "other"; }
        if (tok.empty()) continue;
        if (rest) extras += " " + tok; else out += (out.empty() ? "" : " ") + tok;
    }
    // the short-for-reserved+reason message of htcpHandleClr is level 4
    // in-place modifications of the receive buffer: offsets whose octet changed (the unpackers write terminators)
    std::string nul;
    const std::string now(reinterpret_cast<const char *>(vfFeedBuf), vfFeedBufSize);
    for (size_t i = 0; i < vfFeedBufSize && i < vfAfterRecv.size(); ++i) {
        if (now[i] != vfAfterRecv[i]) {
            char t[32];
            snprintf(t, sizeof(t), "%s%zu%s", nul.empty() ? "" : ",", i, now[i] == 0 ? "" : "!");
            nul += t;
        }
    }
    char t[128];
    snprintf(t, sizeof(t), " sz=%s nul=%s over=%zu wr=%zu", sz.c_str(), nul.empty() ? "-" : nul.c_str(), vfGetOver(), vfGetWrOver());
    out += t;
    if (vfGetForeign()[0]) out += std::string(" asan=") + vfGetForeign();
    for (const auto &s : vfSent) {
        snprintf(t, sizeof(t), " sent=%zu:", s.bytes.size());
        extras += t + vfHex(s.bytes.substr(0, 24));
    }
    for (const auto &n : vfNotes) extras += " " + n;
    return out + " |" + extras;
}
