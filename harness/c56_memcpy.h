// C56: makes the non-atomic slot accesses of Ipc::OneToOneUniQueue (the memcpy()s in push/pop/peek of the *copied* Queue.h,
// textually renamed to verif56::slot_memcpy by props/C56.py) scheduling points of the virtual-thread scheduler and logs them:
//   <thread>:M.wr.<slot>><value>   /   <thread>:M.rd.<slot>><value>
// so that a producer/consumer can be preempted between an atomic operation and the slot access that follows it.
#pragma once
#include "verif_atomic.h"
#include "verif_sched.h"
#include <cstring>
#include <cstdint>

namespace verif56 {
extern const char *bufBase;     // theBuffer of the queue under test
extern size_t bufLen;           // capacity * item size
extern size_t itemSize;
extern long pendingWrite[2];    // slot a parked thread is about to write / read (-1: none), by thread
extern long pendingRead[2];

inline void *slot_memcpy(void *dst, const void *src, size_t n) {
    const char *d = static_cast<const char *>(dst);
    const char *s = static_cast<const char *>(src);
    verif::Sched *sc = verif::sched;
    if (!bufBase || !sc || sc->current < 0)
        return std::memcpy(dst, src, n);
    const bool wr = d >= bufBase && d < bufBase + bufLen;
    const bool rd = s >= bufBase && s < bufBase + bufLen;
    if (!wr && !rd) {
        sc->note("slot-access-outside-buffer");
        return dst;                                     // do not corrupt the heap of the harness
    }
    const char *p = wr ? d : s;
    if (static_cast<size_t>(p - bufBase) + n > bufLen || static_cast<size_t>(p - bufBase) % itemSize) {
        sc->note("slot-access-misplaced");
        return dst;
    }
    const long slot = static_cast<long>((p - bufBase) / itemSize);
    const int me = sc->current;
    if (me >= 0 && me < 2) (wr ? pendingWrite : pendingRead)[me] = slot;
    verif::op_begin();
    if (me >= 0 && me < 2) (wr ? pendingWrite : pendingRead)[me] = -1;
    std::memcpy(dst, src, n);
    int32_t v = 0;
    std::memcpy(&v, src, n < sizeof(v) ? n : sizeof(v));
    verif::op_log(bufBase, wr ? "wr" : "rd", static_cast<uint64_t>(slot), static_cast<uint64_t>(static_cast<uint32_t>(v)));
    return dst;
}
} // namespace verif56
