/* C39: access tracking for a receive-buffer arena.
 *
 * The code under test is compiled with
 *     -fsanitize=address -fsanitize-recover=address --param asan-instrumentation-with-call-threshold=0
 * so that every load/store it performs is a call of __asan_{load,store}{1,2,4,8,16,N}_noabort(addr).  The harness executable
 * defines these entry points itself (they win over libasan's in symbol resolution): an access that falls into the arena is
 * recorded (lowest/highest offset touched at or beyond `trackFrom`), and every access is then forwarded to the real ASan
 * check (dlsym RTLD_NEXT), so heap/stack/global errors in anything else are still found by the sanitizer itself.
 * __asan_on_error() records the first genuine ASan report of the current line (recover mode: the process goes on).
 *
 * Include from exactly one translation unit of the executable.
 */
#ifndef VERIF_C39_TRACK_H
#define VERIF_C39_TRACK_H

#ifndef _GNU_SOURCE
#define _GNU_SOURCE 1
#endif
#include <dlfcn.h>
#include <stdint.h>
#include <stdio.h>
#include <string.h>

#ifdef __cplusplus
extern "C" {
#endif

const char *__asan_get_report_description(void);

static unsigned char *vfArena;      /* start of the arena */
static size_t vfArenaSize;
static size_t vfTrackFrom;          /* accesses at offsets >= this are recorded */
static size_t vfHi;                 /* highest offset touched (+1) among the recorded ones, 0 = none */
static size_t vfWrHi;               /* same, stores only */
static unsigned long vfTouches;     /* number of instrumented accesses inside the arena (sanity: the instrumentation is alive) */
static char vfForeign[200];         /* first genuine ASan report */

static inline void vfNote(uintptr_t a, size_t n, int isStore)
{
    if (!vfArena)
        return;
    const uintptr_t b = (uintptr_t)vfArena;
    if (a + n <= b || a >= b + vfArenaSize)
        return;
    ++vfTouches;
    const size_t end = (size_t)(a + n - b);
    if (end > vfTrackFrom) {
        if (end > vfHi) vfHi = end;
        if (isStore && end > vfWrHi) vfWrHi = end;
    }
}

static inline void vfTrackReset(size_t from)
{
    vfTrackFrom = from;
    vfHi = vfWrHi = 0;
    vfForeign[0] = 0;
}
/* how far beyond `from` the code went: 0 = not at all */
static inline size_t vfOver(void) { return vfHi > vfTrackFrom ? vfHi - vfTrackFrom : 0; }
static inline size_t vfWrOver(void) { return vfWrHi > vfTrackFrom ? vfWrHi - vfTrackFrom : 0; }

void __asan_on_error(void)
{
    if (!vfForeign[0]) {
        const char *d = __asan_get_report_description();
        snprintf(vfForeign, sizeof(vfForeign), "%s", d ? d : "unknown");
    }
}

#define VF_FIXED(kind, isStore, n) \
    void __asan_##kind##n##_noabort(uintptr_t a) { \
        static void (*real)(uintptr_t); \
        if (!real) real = (void (*)(uintptr_t))dlsym(RTLD_NEXT, "__asan_" #kind #n "_noabort"); \
        vfNote(a, n, isStore); \
        if (real) real(a); \
    }
VF_FIXED(load, 0, 1) VF_FIXED(load, 0, 2) VF_FIXED(load, 0, 4) VF_FIXED(load, 0, 8) VF_FIXED(load, 0, 16)
VF_FIXED(store, 1, 1) VF_FIXED(store, 1, 2) VF_FIXED(store, 1, 4) VF_FIXED(store, 1, 8) VF_FIXED(store, 1, 16)

void __asan_loadN_noabort(uintptr_t a, uintptr_t n)
{
    static void (*real)(uintptr_t, uintptr_t);
    if (!real) real = (void (*)(uintptr_t, uintptr_t))dlsym(RTLD_NEXT, "__asan_loadN_noabort");
    vfNote(a, n, 0);
    if (real) real(a, n);
}
void __asan_storeN_noabort(uintptr_t a, uintptr_t n)
{
    static void (*real)(uintptr_t, uintptr_t);
    if (!real) real = (void (*)(uintptr_t, uintptr_t))dlsym(RTLD_NEXT, "__asan_storeN_noabort");
    vfNote(a, n, 1);
    if (real) real(a, n);
}

/* libc routines that may be handed arena pointers: link with -Wl,--wrap=<name> for each of VF_WRAPPED.
 * (GCC expands small constant-size copies inline, those are instrumented loads/stores; the rest arrive here.) */
#define VF_WRAPPED "memcpy", "memmove", "memset", "memchr", "memcmp", "strlen", "strchr", "strpbrk", "strcspn", "strcmp", "strncmp", "strcasecmp", "strncasecmp"
void *__real_memcpy(void *, const void *, size_t);
void *__real_memmove(void *, const void *, size_t);
void *__real_memset(void *, int, size_t);
void *__real_memchr(const void *, int, size_t);
int __real_memcmp(const void *, const void *, size_t);
size_t __real_strlen(const char *);
char *__real_strchr(const char *, int);
char *__real_strpbrk(const char *, const char *);
size_t __real_strcspn(const char *, const char *);
int __real_strcmp(const char *, const char *);
int __real_strncmp(const char *, const char *, size_t);
int __real_strcasecmp(const char *, const char *);
int __real_strncasecmp(const char *, const char *, size_t);

static inline int vfInArena(const void *p) { return vfArena && (const unsigned char *)p >= vfArena && (const unsigned char *)p < vfArena + vfArenaSize; }
/* a C-string read starting at p: the routine looks at everything up to and including the terminator */
static inline void vfNoteStr(const char *p) { if (vfInArena(p)) vfNote((uintptr_t)p, __real_strlen(p) + 1, 0); }
static inline void vfNoteStrN(const char *p, size_t n) { if (vfInArena(p)) { size_t k = 0; while (k < n && p[k]) ++k; vfNote((uintptr_t)p, k < n ? k + 1 : n, 0); } }

void *__wrap_memcpy(void *d, const void *s, size_t n) { if (n) { vfNote((uintptr_t)s, n, 0); vfNote((uintptr_t)d, n, 1); } return __real_memcpy(d, s, n); }
void *__wrap_memmove(void *d, const void *s, size_t n) { if (n) { vfNote((uintptr_t)s, n, 0); vfNote((uintptr_t)d, n, 1); } return __real_memmove(d, s, n); }
void *__wrap_memset(void *d, int c, size_t n) { if (n) vfNote((uintptr_t)d, n, 1); return __real_memset(d, c, n); }
void *__wrap_memchr(const void *s, int c, size_t n) { if (n) vfNote((uintptr_t)s, n, 0); return __real_memchr(s, c, n); }
int __wrap_memcmp(const void *a, const void *b, size_t n) { if (n) { vfNote((uintptr_t)a, n, 0); vfNote((uintptr_t)b, n, 0); } return __real_memcmp(a, b, n); }
size_t __wrap_strlen(const char *s) { const size_t r = __real_strlen(s); if (vfInArena(s)) vfNote((uintptr_t)s, r + 1, 0); return r; }
char *__wrap_strchr(const char *s, int c) { vfNoteStr(s); return __real_strchr(s, c); }
char *__wrap_strpbrk(const char *s, const char *a) { vfNoteStr(s); return __real_strpbrk(s, a); }
size_t __wrap_strcspn(const char *s, const char *a) { vfNoteStr(s); return __real_strcspn(s, a); }
int __wrap_strcmp(const char *a, const char *b) { vfNoteStr(a); vfNoteStr(b); return __real_strcmp(a, b); }
int __wrap_strncmp(const char *a, const char *b, size_t n) { vfNoteStrN(a, n); vfNoteStrN(b, n); return __real_strncmp(a, b, n); }
int __wrap_strcasecmp(const char *a, const char *b) { vfNoteStr(a); vfNoteStr(b); return __real_strcasecmp(a, b); }
int __wrap_strncasecmp(const char *a, const char *b, size_t n) { vfNoteStrN(a, n); vfNoteStrN(b, n); return __real_strncasecmp(a, b, n); }

#ifdef __cplusplus
}
#endif
#endif
