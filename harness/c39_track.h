/* C39: access tracking for a receive-buffer arena.
 *
 * The code under test is compiled with
 *     -fsanitize=address -fsanitize-recover=address --param asan-instrumentation-with-call-threshold=0
 * so that every load/store it performs is a call of __asan_{load,store}{1,2,4,8,16,N}_noabort(addr).  The harness executable
 * defines these entry points itself (they win over libasan's in symbol resolution): an access that falls into the arena is
 * recorded (lowest/highest offset touched at or beyond `trackFrom`), and every access is then forwarded to the real ASan
 * check (dlsym RTLD_NEXT), so heap/stack/global errors in anything else are still found by the sanitizer itself.
 * __asan_on_error() records the first genuine ASan report of the current line (recover mode: the process goes on).
 *
 * Include from exactly one translation unit of the executable.
 */
#ifndef VERIF_C39_TRACK_H
#define VERIF_C39_TRACK_H

#ifndef _GNU_SOURCE
#define _GNU_SOURCE 1
#endif
#include <dlfcn.h>
#include <stdint.h>
#include <stdio.h>
#include <string.h>

#ifdef __cplusplus
extern "C" {
#endif

const char *__asan_get_report_description(void);

static unsigned char *vfArena;      /* start of the arena */
static size_t vfArenaSize;
static size_t vfTrackFrom;          /* accesses at offsets >= this are recorded */
static size_t vfHi;                 /* highest offset touched (+1) among the recorded ones, 0 = none */
static size_t vfWrHi;               /* same, stores only */
static unsigned long vfTouches;     /* number of instrumented accesses inside the arena (sanity: the instrumentation is alive) */
static char vfForeign[200];         /* first genuine ASan report */

static inline void vfNote(uintptr_t a, size_t n, int isStore)
{
    if (!vfArena)
        return;
    const uintptr_t b = (uintptr_t)vfArena;
    if (a + n <= b || a >= b + vfArenaSize)
        return;
    ++vfTouches;
    const size_t end = (size_t)(a + n - b);
    if (end > vfTrackFrom) {
        if (end > vfHi) vfHi = end;
        if (isStore && end > vfWrHi) vfWrHi = end;
    }
}

static inline void vfTrackReset(size_t from)
{
    vfTrackFrom = from;
    vfHi = vfWrHi = 0;
    vfForeign[0] = 0;
}
/* how far beyond `from` the code went: 0 = not at all */
static inline size_t vfOver(void) { return vfHi > vfTrackFrom ? vfHi - vfTrackFrom : 0; }
static inline size_t vfWrOver(void) { return vfWrHi > vfTrackFrom ? vfWrHi - vfTrackFrom : 0; }

void __asan_on_error(void)
{
    if (!vfForeign[0]) {
        const char *d = __asan_get_report_description();
        snprintf(vfForeign, sizeof(vfForeign), "%s", d ? d : "unknown");
    }
}

#define VF_FIXED(kind, isStore, n) \
    void __asan_##kind##n##_noabort(uintptr_t a) { \
        static void (*real)(uintptr_t); \
        if (!real) real = (void (*)(uintptr_t))dlsym(RTLD_NEXT, "__asan_" #kind #n "_noabort"); \
        vfNote(a, n, isStore); \
        if (real) real(a); \
    }
VF_FIXED(load, 0, 1) VF_FIXED(load, 0, 2) VF_FIXED(load, 0, 4) VF_FIXED(load, 0, 8) VF_FIXED(load, 0, 16)
VF_FIXED(store, 1, 1) VF_FIXED(store, 1, 2) VF_FIXED(store, 1, 4) VF_FIXED(store, 1, 8) VF_FIXED(store, 1, 16)

void __asan_loadN_noabort(uintptr_t a, uintptr_t n)
{
    static void (*real)(uintptr_t, uintptr_t);
    if (!real) real = (void (*)(uintptr_t, uintptr_t))dlsym(RTLD_NEXT, "__asan_loadN_noabort");
    vfNote(a, n, 0);
    if (real) real(a, n);
}
void __asan_storeN_noabort(uintptr_t a, uintptr_t n)
{
    static void (*real)(uintptr_t, uintptr_t);
    if (!real) real = (void (*)(uintptr_t, uintptr_t))dlsym(RTLD_NEXT, "__asan_storeN_noabort");
    vfNote(a, n, 1);
    if (real) real(a, n);
}

#ifdef __cplusplus
}
#endif
#endif
