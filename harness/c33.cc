// C33 harness: the real ErrorState::compile()/compileLegacyCode() of the staged tree (errorpage.cc and html/Quoting.cc are
// compiled into this unit / with ASan+UBSan; everything else is the tree's own objects).
//
//   x <D><A><S> <tmpl hex> <sig hex> <spec> <env>
//        D = building_deny_info_url, A = allowRecursion, S = page_id is ERR_SQUID_SIGNATURE (0/1 each)
//        spec = comma separated field=hex items describing the transaction (see applySpec)
//        env  = what the sources and conditions evaluate to, as printed by `e` for the same spec; the harness re-evaluates
//               them on the objects it has built and answers bad-env when they differ
//        -> hex of the compiled text
//   e <spec>      -> the env token for that spec ("@atom+atom,key=hex,...")
//   --dump-escape-part -> 255 lines "<byte> <hex of rfc1738_escape_part of that single byte>"
#include "squid.h"
#include <sstream>
#include <iostream>
#include <string>
#include <vector>
#include <map>
#include <optional>
#include <array>
#include <cstdio>
#include <cstring>
// reach the private compile()/Dump() and the file-static template table
#define private public
#define protected public
#include "errorpage.cc"
#undef private
#undef protected
#include "auth/basic/User.h"
#include "auth/basic/UserRequest.h"
#include "MasterXaction.h"
#include "mem/forward.h"
#include "time/gadgets.h"
#include "anyp/PortCfg.h"
// a fixed clock: this unit provides every symbol of time/gadgets.cc, so the archive member is not linked
#define getCurrentTime getCurrentTime_of_the_tree
#include "time/gadgets.cc"
#undef getCurrentTime
time_t getCurrentTime() {
    current_time.tv_sec = 1700000000;
    current_time.tv_usec = 0;
    current_dtime = 1700000000.0;
    return squid_curtime = 1700000000;
}

// libtool's "-dlopen force" table (40 s of nm over every object at link time); nothing is preloaded here
extern "C" { struct VfDlSym { const char *name; void *address; }; extern const VfDlSym lt__PROGRAM__LTX_preloaded_symbols[]; const VfDlSym lt__PROGRAM__LTX_preloaded_symbols[] = { {"@PROGRAM@", nullptr}, {nullptr, nullptr} }; }

static std::string unhex(const std::string &h) {
    std::string r;
    if (h == "-") return r;
    for (size_t i = 0; i + 1 < h.size(); i += 2)
        r.push_back(static_cast<char>(std::stoi(h.substr(i, 2), nullptr, 16)));
    return r;
}
static std::string hex(const std::string &s) {
    if (s.empty()) return "-";
    static const char *d = "0123456789abcdef";
    std::string r;
    for (unsigned char c : s) { r.push_back(d[c >> 4]); r.push_back(d[c & 15]); }
    return r;
}
static std::string hex(const SBuf &s) { return hex(std::string(s.rawContent(), s.length())); }
static std::vector<std::string> split(const std::string &s, char sep) {
    std::vector<std::string> r;
    std::string cur;
    for (char c : s) { if (c == sep) { r.push_back(cur); cur.clear(); } else cur.push_back(c); }
    r.push_back(cur);
    return r;
}

/// an error detail whose texts come from the scenario
class VfDetail: public ErrorDetail
{
public:
    VfDetail(const std::string &b, const std::string &v): b_(b), v_(v) {}
    SBuf brief() const override { return SBuf(b_.data(), b_.size()); }
    SBuf verbose(const HttpRequestPointer &) const override { return SBuf(v_.data(), v_.size()); }
private:
    std::string b_, v_;
};

struct Scenario {
    HttpRequestPointer request;
    ErrorState *err = nullptr;
    bool bad = false;
    std::string detailVerbose;
};

static char *dupz(const std::string &s) { char *p = static_cast<char *>(xmalloc(s.size() + 1)); memcpy(p, s.data(), s.size()); p[s.size()] = 0; return p; }

static void resetConfig() {
    safe_free(Config.adminEmail);
    safe_free(Config.errHtmlText);
    Config.onoff.emailErrData = 0;
    error_stylesheet.reset();
}

static Scenario build(const std::string &spec) {
    Scenario sc;
    std::map<std::string, std::string> f;
    std::vector<std::pair<std::string, std::string>> hdrs;
    if (spec != ".") {
        for (const auto &item : split(spec, ',')) {
            const auto eq = item.find('=');
            if (eq == std::string::npos) { sc.bad = true; return sc; }
            const auto k = item.substr(0, eq);
            const auto v = unhex(item.substr(eq + 1));
            if (v.find('\0') != std::string::npos) { sc.bad = true; return sc; }
            if (k == "hdr") {
                const auto c = v.find(':');
                if (c == std::string::npos) { sc.bad = true; return sc; }
                hdrs.emplace_back(v.substr(0, c), v.substr(c + 1));
            } else
                f[k] = v;
        }
    }
    resetConfig();
    const auto mx = MasterXaction::MakePortless<XactionInitiator::initHtcp>();
    if (f.count("req")) {
        const auto method = f.count("method") ? HttpRequestMethod(SBuf(f["method"].data(), f["method"].size())) : HttpRequestMethod(Http::METHOD_GET);
        sc.request = HttpRequest::FromUrlXXX(f["req"].c_str(), mx, method);
    }
    if (sc.request) {
        auto &r = *sc.request;
        if (f.count("host")) r.url.host(f["host"].c_str());
        if (f.count("path")) r.url.path(SBuf(f["path"].data(), f["path"].size()));
        if (f.count("userinfo")) r.url.userInfo(SBuf(f["userinfo"].data(), f["userinfo"].size()));
        if (f.count("hier")) xstrncpy(r.hier.host, f["hier"].c_str(), sizeof(r.hier.host));
        if (f.count("extacl")) r.extacl_message = f["extacl"].c_str();
        for (const auto &h : hdrs)
            r.header.putExt(h.first.c_str(), h.second.c_str());
        if (f.count("authuser")) {
            auto *user = new Auth::Basic::User(nullptr, nullptr);
            user->username(f["authuser"].c_str());
            Auth::UserRequest::Pointer ur = new Auth::Basic::UserRequest();
            ur->user(user);
            r.auth_user_request = ur;
        }
    }
    const auto type = f.count("type") ? static_cast<err_type>(atoi(f["type"].c_str()) % ERR_MAX) : ERR_ACCESS_DENIED;
    // page_id is the S flag of the line, not a by-product of the error type
    sc.err = new ErrorState(type == ERR_NONE || type == ERR_SQUID_SIGNATURE ? ERR_ACCESS_DENIED : type, Http::scForbidden, sc.request.getRaw(), nullptr);
    auto &e = *sc.err;
    if (f.count("url")) e.url = dupz(f["url"]);
    if (f.count("xerrno")) e.xerrno = atoi(f["xerrno"].c_str()) % 200;
    if (f.count("ftpreq")) e.ftp.request = dupz(f["ftpreq"]);
    if (f.count("ftprep")) e.ftp.reply = dupz(f["ftprep"]);
    if (f.count("ftpcwd")) e.ftp.cwd_msg = dupz(f["ftpcwd"]);
    if (f.count("ftpmsg"))
        for (const auto &l : split(f["ftpmsg"], '\n'))
            wordlistAdd(&e.ftp.server_msg, l.c_str());
    if (f.count("ftplist")) {
        e.ftp.listing = new MemBuf;
        e.ftp.listing->init();
        e.ftp.listing->append(f["ftplist"].data(), f["ftplist"].size());
    }
    if (f.count("dns")) e.dnsError = SBuf(f["dns"].data(), f["dns"].size());
    if (f.count("errmsg")) e.err_msg = dupz(f["errmsg"]);
    if (f.count("detailb") || f.count("detailv")) {
        e.detail = new VfDetail(f["detailb"], f["detailv"]);
        sc.detailVerbose = f["detailv"];
    }
    if (f.count("denymsg")) {
        Auth::UserRequest::Pointer ur = new Auth::Basic::UserRequest();
        ur->setDenyMessage(f["denymsg"].c_str());
        e.auth_user_request = ur;
    }
    if (f.count("admin")) Config.adminEmail = dupz(f["admin"]);
    if (f.count("emaildata")) Config.onoff.emailErrData = 1;
    if (f.count("htmltext")) Config.errHtmlText = dupz(f["htmltext"]);
    if (f.count("style")) error_stylesheet.append(f["style"].data(), f["style"].size());
    return sc;
}

static void destroy(Scenario &sc) {
    if (sc.err) {
        if (sc.err->ftp.listing) { sc.err->ftp.listing->clean(); delete sc.err->ftp.listing; sc.err->ftp.listing = nullptr; }
        delete sc.err;
    }
    sc.request = nullptr;
}

/// the value of every source and condition, read off the live objects
static std::string envOf(Scenario &sc) {
    auto &e = *sc.err;
    const auto &request = e.request;
    char ntoabuf[MAX_IPSTRLEN];
    std::vector<std::string> atoms;
    std::vector<std::string> items;
    auto atom = [&](const char *n, bool v) { if (v) atoms.push_back(n); };
    auto srcS = [&](const char *n, const std::string &v) { items.push_back(std::string(n) + "=" + hex(v)); };
    auto srcP = [&](const char *n, const char *v) { if (v) srcS(n, std::string(v)); };
    auto srcB = [&](const char *n, const SBuf &v) { srcS(n, std::string(v.rawContent(), v.length())); };

    atom("request", bool(request));
    atom("reqAuthUser", request && request->auth_user_request);
    const auto listen = FindListeningPortAddress(request.getRaw(), nullptr);
    atom("listenAddrKnown", bool(listen));
    atom("detail", bool(e.detail));
    atom("xerrnoNonZero", e.xerrno != 0);
    atom("ftpRequest", bool(e.ftp.request));
    atom("ftpReply", bool(e.ftp.reply));
    atom("ftpListing", bool(e.ftp.listing));
    atom("ftpServerMsg", bool(e.ftp.server_msg));
    atom("ftpCwdMsg", bool(e.ftp.cwd_msg));
    atom("hierHostSet", request && request->hier.host[0] != '\0');
    atom("tcpServer", request && request->hier.tcpServer);
    atom("errHtmlText", bool(Config.errHtmlText));
    atom("errAuthUser", bool(e.auth_user_request.getRaw()));
    atom("urlPortKnown", request && request->url.port());
    atom("urlField", bool(e.url));
    atom("adminEmail", bool(Config.adminEmail));
    atom("emailErrData", bool(Config.onoff.emailErrData));
    atom("dnsError", bool(e.dnsError));
    atom("errMsg", bool(e.err_msg));

    if (request && request->auth_user_request) srcP("username", request->auth_user_request->username());
    if (listen) srcP("listenAddr", listen->toStr(ntoabuf, MAX_IPSTRLEN));
    srcS("myPort", std::to_string(static_cast<unsigned>(getMyPort())));
    if (request) srcB("ftpUrl", Ftp::UrlWith2f(request.getRaw()));
    srcP("pageName", errorPageName(e.type));
    srcS("xerrno", std::to_string(e.xerrno));
    srcP("strerror", strerror(e.xerrno));
    srcP("ftpRequest", e.ftp.request);
    srcP("ftpReply", e.ftp.reply);
    if (e.ftp.listing) srcS("ftpListing", std::string(e.ftp.listing->content(), e.ftp.listing->contentSize()));
    if (e.ftp.server_msg) { MemBuf t; t.init(); wordlistCat(e.ftp.server_msg, &t); srcS("ftpServerMsg", std::string(t.content(), t.contentSize())); t.clean(); }
    srcP("myHostname", getMyHostname());
    if (request) { srcP("hierHost", request->hier.host); srcP("urlHost", request->url.host()); }
    srcP("srcAddr", e.src_addr.toStr(ntoabuf, MAX_IPSTRLEN));
    if (request && request->hier.tcpServer) srcP("serverAddr", request->hier.tcpServer->remote.toStr(ntoabuf, MAX_IPSTRLEN));
    srcS("stylesheet", std::string(error_stylesheet.content(), error_stylesheet.contentSize()));
    srcP("errHtmlText", Config.errHtmlText);
    if (e.auth_user_request.getRaw()) srcP("denyMessage", e.auth_user_request->denyMessage("[not available]"));
    if (request) {
        srcB("method", request->method.image());
        srcP("extaclMessage", request->extacl_message.termedBuf());
        if (request->url.port()) srcS("urlPort", std::to_string(static_cast<unsigned>(*request->url.port())));
        srcB("scheme", request->url.getScheme().image());
        srcB("absolutePath", request->url.absolutePath());
        { MemBuf t; t.init(); request->pack(&t, true); srcS("packedRequest", std::string(t.content(), t.contentSize())); t.clean(); }
        srcB("effectiveUri", request->effectiveRequestUri());
        srcP("canonicalUrl", urlCanonicalFakeHttps(request.getRaw()));
    }
    srcP("externalAclMessage", external_acl_message);
    srcP("urlField", e.url);
    srcP("appName", visible_appname_string);
    srcP("timeHttpd", Time::FormatHttpd(squid_curtime));
    srcP("timeRfc1123", Time::FormatRfc1123(squid_curtime));
    srcP("adminEmail", Config.adminEmail);
    if (Config.adminEmail && Config.onoff.emailErrData) { MemBuf t; t.init(); e.Dump(&t); srcS("dump", std::string(t.content(), t.contentSize())); t.clean(); }
    if (e.detail) srcB("detailBrief", e.detail->brief());
    if (e.dnsError) srcP("dnsError", e.dnsError->c_str());
    srcP("ftpCwdMsg", e.ftp.cwd_msg);
    srcP("errMsg", e.err_msg);
    srcS("detailTmpl", sc.detailVerbose);

    std::string r = "@";
    for (size_t i = 0; i < atoms.size(); ++i) r += (i ? "+" : "") + atoms[i];
    for (const auto &it : items) r += "," + it;
    return r;
}

int main(int argc, char **argv) {
    if (argc > 1 && !strcmp(argv[1], "--dump-escape-part")) {
        for (int ch = 1; ch < 256; ++ch) {
            char *in = new char[2]; in[0] = static_cast<char>(ch); in[1] = 0;
            printf("%d %s\n", ch, hex(std::string(rfc1738_escape_part(in))).c_str());
            delete[] in;
        }
        return 0;
    }
    Mem::Init();
    Debug::BanCacheLogUse();   // no cache.log here: stop the accumulation of early messages (bounded at 1000)
    Debug::SettleStderr();
    Debug::SettleSyslog();
    getCurrentTime();
    Config.visibleHostname = xstrdup("verif.squid.test");
    Config.errorDirectory = xstrdup("/nonexistent"); // buildBody() then uses error_text[] directly (no locale lookup on disk)
    // the template table the %S macro reads; only the signature slot is ever used here
    error_page_count = ERR_MAX;
    error_text = static_cast<char **>(xcalloc(error_page_count, sizeof(char *)));
    error_stylesheet.init();

    std::string line;
    while (std::getline(std::cin, line)) {
        const auto t = split(line, ' ');
        std::string out = "bad-op";
        if (t.size() == 2 && t[0] == "e") {
            auto sc = build(t[1]);
            out = sc.bad ? "bad-spec" : envOf(sc);
            destroy(sc);
        } else if (t.size() == 6 && t[0] == "x" && t[1].size() == 3) {
            const auto tmpl = unhex(t[2]);
            const auto sig = unhex(t[3]);
            auto sc = build(t[4]);
            if (sc.bad || tmpl.find('\0') != std::string::npos || sig.find('\0') != std::string::npos)
                out = "bad-spec";
            else if (envOf(sc) != t[5])
                out = "bad-env";
            else if (tmpl.find("@Squid{") != std::string::npos || sig.find("@Squid{") != std::string::npos || sc.detailVerbose.find("@Squid{") != std::string::npos)
                out = "reject:logformat";
            else {
                safe_free(error_text[ERR_SQUID_SIGNATURE]);
                error_text[ERR_SQUID_SIGNATURE] = dupz(sig);
                if (t[1][2] == '1') sc.err->page_id = ERR_SQUID_SIGNATURE;
                // exact-size heap copy so that ASan sees any over-read of the template
                char *in = dupz(tmpl);
                const SBuf res = sc.err->compile(in, t[1][0] == '1', t[1][1] == '1');
                xfree(in);
                out = hex(res);
            }
            destroy(sc);
        }
        puts(out.c_str());
        fflush(stdout);
    }
    return 0;
}
