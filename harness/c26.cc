// C26/C25 harness: the real HttpHeader::parse / HttpHeaderEntry::parse / Http::ContentLengthInterpreter /
// HttpHeader::packInto / Http::HeaderLookupTable from the staged tree (built with ASan/UBSan).
//
//   p <flags> <hex block>   parse the block with HttpHeader::parse(buf, len, clen)
//        flags = 3 chars: [r|s] relaxed / strict header parser
//                         [q|p|h] owner hoRequest / hoReply / hoHtcpReply
//                         [-|t|4|1] nothing / applyTrailerRules() / applyStatusCodeRules(204) / (100)
//        -> reject
//        -> ok cl=<getInt64(Content-Length) or -> bad=<conflictingContentLength> teu=<unsupportedTe> len=<hdr.len>
//              n=<entries> <id>:<name hex>:<value hex> ...
//   k <flags> <hex block>   parse, pack with packInto, parse the packed bytes again (same flags)
//        -> reject | <p-output of first parse> || pack=<hex> || <p-output of the second parse>
//        -> throw      (a Must() threw inside parse)
//   m <flags> <hex bytes>   the HTTP/1 parser path: Http::One::Parser::grabMimeBlock (headersEnd, cleanMimePrefix, unfoldMime) on the
//        bytes that follow a request line, then HttpHeader::parse on mimeHeader() as Http::Message::parseHeader does
//        -> incomplete | mime=<hex> <p-output>
//   l <hex name>            -> HeaderLookupTable.lookup(name,len).id
//   --dump-registry         -> one line per HdrType: id name list request reply hopbyhop denied304 type
#include "squid.h"
#include "HttpHeader.h"
#include "http/ContentLengthInterpreter.h"
#include "http/RegisteredHeaders.h"
#include "http/one/RequestParser.h"
#include "MemBuf.h"
#include "MemObject.h"
#include "SquidConfig.h"
#include "mem/forward.h"

#include <cstdio>
#include <cstring>
#include <iostream>
#include <string>

class SquidConfig Config;

int64_t
MemObject::endOffset() const
{
    return 0;
}

static bool unhex(const std::string &h, std::string &r) {
    r.clear();
    if (h == "-") return true;
    if (h.size() % 2) return false;
    for (size_t i = 0; i + 1 < h.size(); i += 2) {
        int v = 0;
        for (int k = 0; k < 2; ++k) {
            const char c = h[i + k];
            int d;
            if (c >= '0' && c <= '9') d = c - '0';
            else if (c >= 'a' && c <= 'f') d = c - 'a' + 10;
            else return false;
            v = v * 16 + d;
        }
        r.push_back(static_cast<char>(v));
    }
    return true;
}
static std::string hex(const char *p, size_t n) {
    if (!n) return "-";
    static const char *d = "0123456789abcdef";
    std::string r;
    for (size_t i = 0; i < n; ++i) { const unsigned char c = p[i]; r.push_back(d[c >> 4]); r.push_back(d[c & 15]); }
    return r;
}

struct Flags {
    bool relaxed = false;
    http_hdr_owner_type owner = hoRequest;
    char special = '-';
};

static bool parseFlags(const std::string &f, Flags &out) {
    if (f.size() != 3) return false;
    if (f[0] == 'r') out.relaxed = true; else if (f[0] == 's') out.relaxed = false; else return false;
    if (f[1] == 'q') out.owner = hoRequest; else if (f[1] == 'p') out.owner = hoReply; else if (f[1] == 'h') out.owner = hoHtcpReply; else return false;
    if (f[2] != '-' && f[2] != 't' && f[2] != '4' && f[2] != '1') return false;
    out.special = f[2];
    return true;
}

/// runs the real parser on an exact-size mutable heap copy (so that ASan sees any over-read)
static bool runParse(HttpHeader &hdr, const Flags &fl, const std::string &block) {
    Config.onoff.relaxed_header_parser = fl.relaxed ? 1 : 0;
    Http::ContentLengthInterpreter clen;
    if (fl.special == 't') clen.applyTrailerRules();
    else if (fl.special == '4') clen.applyStatusCodeRules(Http::scNoContent);
    else if (fl.special == '1') clen.applyStatusCodeRules(Http::scContinue);
    char *buf = new char[block.size()];
    memcpy(buf, block.data(), block.size());
    const int ok = hdr.parse(buf, block.size(), clen);
    delete[] buf;
    return ok != 0;
}

/// exposes the protected mime block grabbing of the HTTP/1 parsers
struct Grabber : public Http::One::RequestParser {
    bool grab(const SBuf &b) {
        buf_ = b;
        msgProtocol_ = AnyP::ProtocolVersion(AnyP::PROTO_HTTP, 1, 1);
        return grabMimeBlock("Request", 1 << 24);
    }
};

static std::string describe(const HttpHeader &hdr) {
    std::string out = "ok cl=";
    if (hdr.has(Http::HdrType::CONTENT_LENGTH))
        out += std::to_string(static_cast<long long>(hdr.getInt64(Http::HdrType::CONTENT_LENGTH)));
    else
        out += "-";
    out += hdr.conflictingContentLength() ? " bad=1" : " bad=0";
    out += hdr.unsupportedTe() ? " teu=1" : " teu=0";
    out += " len=" + std::to_string(hdr.len);
    std::string ents;
    int n = 0;
    HttpHeaderPos pos = HttpHeaderInitPos;
    while (const HttpHeaderEntry *e = hdr.getEntry(&pos)) {
        ++n;
        ents += " " + std::to_string(static_cast<int>(e->id)) + ":" + hex(e->name.rawContent(), e->name.length()) + ":" +
                hex(e->value.rawBuf(), e->value.size());
    }
    out += " n=" + std::to_string(n) + ents;
    return out;
}

int main(int argc, char **argv) {
    Mem::Init();
    httpHeaderInitModule();
    if (argc > 1 && !strcmp(argv[1], "--dump-registry")) {
        for (int i = 0; i < static_cast<int>(Http::HdrType::enumEnd_); ++i) {
            const auto &r = Http::HeaderLookupTable.lookup(static_cast<Http::HdrType>(i));
            printf("%d %s %d %d %d %d %d %d\n", static_cast<int>(r.id), hex(r.name, strlen(r.name)).c_str(),
                   r.list ? 1 : 0, r.request ? 1 : 0, r.reply ? 1 : 0, r.hopbyhop ? 1 : 0, r.denied304 ? 1 : 0, static_cast<int>(r.type));
        }
        return 0;
    }
    std::string line;
    while (std::getline(std::cin, line)) {
        std::string tok[3];
        size_t nt = 0, i = 0;
        while (i < line.size() && nt < 3) {
            while (i < line.size() && line[i] == ' ') ++i;
            size_t j = i;
            while (j < line.size() && line[j] != ' ') ++j;
            if (j > i) tok[nt++] = line.substr(i, j - i);
            i = j;
        }
        std::string out = "bad-op";
        std::string bytes;
        Flags fl;
        try {
        if (tok[0] == "p" && nt == 3 && parseFlags(tok[1], fl) && unhex(tok[2], bytes)) {
            HttpHeader hdr(fl.owner);
            out = runParse(hdr, fl, bytes) ? describe(hdr) : "reject";
        } else if (tok[0] == "k" && nt == 3 && parseFlags(tok[1], fl) && unhex(tok[2], bytes)) {
            HttpHeader hdr(fl.owner);
            if (!runParse(hdr, fl, bytes)) {
                out = "reject";
            } else {
                MemBuf mb;
                mb.init();
                hdr.packInto(&mb);
                const std::string packed(mb.content(), mb.contentSize());
                HttpHeader again(fl.owner);
                const bool ok2 = runParse(again, fl, packed);
                out = describe(hdr) + " || pack=" + hex(packed.data(), packed.size()) + " || " + (ok2 ? describe(again) : "reject");
            }
        } else if (tok[0] == "m" && nt == 3 && parseFlags(tok[1], fl) && unhex(tok[2], bytes)) {
            Config.onoff.relaxed_header_parser = fl.relaxed ? 1 : 0;
            Grabber g;
            if (!g.grab(SBuf(bytes.data(), bytes.size()))) {
                out = "incomplete";
            } else {
                const SBuf mime = g.mimeHeader();
                const std::string block(mime.rawContent(), mime.length());
                HttpHeader hdr(fl.owner);
                out = "mime=" + hex(block.data(), block.size()) + " " + (runParse(hdr, fl, block) ? describe(hdr) : "reject");
            }
        } else if (tok[0] == "l" && nt == 2 && unhex(tok[1], bytes)) {
            char *buf = new char[bytes.size()];
            memcpy(buf, bytes.data(), bytes.size());
            out = std::to_string(static_cast<int>(Http::HeaderLookupTable.lookup(buf, bytes.size()).id));
            delete[] buf;
        }
        } catch (const std::exception &) {
            out = "throw"; // a Must() inside the parser
        }
        puts(out.c_str());
        fflush(stdout);
    }
    return 0;
}
