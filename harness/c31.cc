// C31 harness: the real AnyP::Uri::Encode/Decode (src/anyp/Uri.cc) and the real rfc1738_do_escape/
// rfc1738_unescape (lib/rfc1738.cc) from the staged tree, built with ASan/UBSan. Both files are pulled into this
// translation unit so that their file-static character sets/tables can be dumped for the translator.
//
//   E <set> <hex>   -> "enc=<hex> dec=<hex|reject>"   enc = Encode(bytes, set), dec = Decode(enc)     (real code both ways)
//   D <hex>         -> "<hex>" | "reject:pct"          Decode(bytes)
//   e <flags> <hex> -> "esc=<hex> unesc=<hex>"         esc = rfc1738_do_escape(bytes, flags), unesc = rfc1738_unescape(copy of esc)
//   u <hex>         -> "<hex of C string> mem=<hex of the whole n+1 byte buffer>"  rfc1738_unescape in an exact-size heap buffer
//   XE <set> <n> <prefixhex> / XD <n> <prefixhex> / Xe <flags> <n> <prefixhex> / Xu <n> <prefixhex>
//                   -> "n=<count> bad=<count> first=<hex> digest=<fnv1a-64 of all outputs>": the same operation on every string of
//                      length n that starts with the prefix (octets 0..255 for XE/XD, 1..255 for Xe/Xu, lexicographic order);
//                      bad/first = inputs on which the property itself (checked here from the real outputs only) fails
//   <set> = unreserved | path | userinfo | x<hex of member octets> (x- = empty set)
//   e/u reject inputs containing NUL with "reject:nul" (they take C strings)
//   --dump-sets   -> "<NAME> <256 chars of 0/1>" for UNRESERVED-independent file-static sets PathChars, UserInfoChars
//   --dump-tables -> "unsafe <hex>" / "reserved <hex>" (rfc1738 static tables) and "flag <NAME> <value>"
#include "squid.h"
#include "anyp/Uri.cc"
#include "../lib/rfc1738.cc"
#include "base/CharacterSet.h"
#include "mem/forward.h"
#include "sbuf/SBuf.h"

#include <cstdio>
#include <cstring>
#include <iostream>
#include <optional>
#include <string>
#include <vector>

static bool unhex(const std::string &h, std::string &r) {
    r.clear();
    if (h == "-") return true;
    if (h.size() % 2) return false;
    auto val = [](char c) -> int {
        if (c >= '0' && c <= '9') return c - '0';
        if (c >= 'a' && c <= 'f') return c - 'a' + 10;
        if (c >= 'A' && c <= 'F') return c - 'A' + 10;
        return -1;
    };
    for (size_t i = 0; i + 1 < h.size(); i += 2) {
        const int a = val(h[i]), b = val(h[i + 1]);
        if (a < 0 || b < 0) return false;
        r.push_back(static_cast<char>(a * 16 + b));
    }
    return true;
}
static std::string hex(const char *p, size_t n) {
    if (!n) return "-";
    static const char *d = "0123456789abcdef";
    std::string r;
    for (size_t i = 0; i < n; ++i) { const unsigned char c = p[i]; r.push_back(d[c >> 4]); r.push_back(d[c & 15]); }
    return r;
}
static std::string hex(const std::string &s) { return hex(s.data(), s.size()); }
static std::string hex(const SBuf &s) { return hex(s.rawContent(), s.length()); }

static void dumpSet(const char *name, const CharacterSet &s) {
    printf("%s ", name);
    for (int i = 0; i < 256; ++i) putchar(s[static_cast<unsigned char>(i)] ? '1' : '0');
    putchar('\n');
}

static bool parseSet(const std::string &spec, CharacterSet &out) {
    if (spec == "unreserved") { out = CharacterSet::RFC3986_UNRESERVED(); return true; }
    if (spec == "path") { out = PathChars(); return true; }
    if (spec == "userinfo") { out = UserInfoChars(); return true; }
    if (!spec.empty() && spec[0] == 'x') {
        std::string members;
        if (!unhex(spec.substr(1), members)) return false;
        CharacterSet cs("custom", "");
        for (unsigned char c : members) cs.add(c);
        out = cs;
        return true;
    }
    return false;
}


struct Fnv {
    uint64_t h = 14695981039346656037ULL;
    void byte(unsigned char b) { h ^= b; h *= 1099511628211ULL; }
    void item(const char *p, size_t n) { for (size_t i = 0; i < n; ++i) byte(p[i]); byte(n % 256); byte(n / 256 % 256); }
    void item(const std::string &x) { item(x.data(), x.size()); }
    void item(const SBuf &x) { item(x.rawContent(), x.length()); }
    void none() { byte(0xFF); byte(0xFE); byte(0xFD); }
};

static bool isHexDigit(unsigned char c) { return (c >= '0' && c <= '9') || (c >= 'a' && c <= 'f') || (c >= 'A' && c <= 'F'); }
static bool isUpperHexDigit(unsigned char c) { return (c >= '0' && c <= '9') || (c >= 'A' && c <= 'F'); }
static int hexValue(unsigned char c) { return c <= '9' ? c - '0' : (c | 0x20) - 'a' + 10; }

// ---- direct property checks (written from the property text; they look at real outputs only) ----

/// encoded form = ignored characters and upper-case %XX triplets only
static bool encodedFormOk(const std::string &enc, const CharacterSet &ignore) {
    size_t i = 0;
    while (i < enc.size()) {
        const unsigned char c = enc[i];
        if (c == '%' && i + 2 < enc.size() && isUpperHexDigit(enc[i + 1]) && isUpperHexDigit(enc[i + 2])) { i += 3; continue; }
        if (ignore[c]) { ++i; continue; }
        return false;
    }
    return true;
}
/// strict RFC 3986 pct-decoding (reference): false when some % is not followed by two hex digits
static bool refPctDecode(const std::string &in, std::string &out) {
    out.clear();
    for (size_t i = 0; i < in.size(); ++i) {
        const unsigned char c = in[i];
        if (c != '%') { out.push_back(c); continue; }
        if (i + 2 >= in.size()) return false;
        if (!isHexDigit(in[i + 1]) || !isHexDigit(in[i + 2])) return false;
        out.push_back(static_cast<char>(hexValue(in[i + 1]) * 16 + hexValue(in[i + 2])));
        i += 2;
    }
    return true;
}
/// reference for rfc1738_unescape, from its documentation: "%%" is "%", "%ab" is the octet 0xab, anything else
/// (malformed, or %00 which would cut the C string) is left as it is
static std::string refUnescape(const std::string &in) {
    std::string out;
    size_t i = 0;
    while (i < in.size()) {
        if (in[i] == '%' && i + 1 < in.size() && in[i + 1] == '%') { out.push_back('%'); i += 2; continue; }
        if (in[i] == '%' && i + 2 < in.size() && isHexDigit(in[i + 1]) && isHexDigit(in[i + 2])) {
            const int x = hexValue(in[i + 1]) * 16 + hexValue(in[i + 2]);
            if (x != 0) { out.push_back(static_cast<char>(x)); i += 3; continue; }
        }
        out.push_back(in[i++]);
    }
    return out;
}

struct EncOut { SBuf enc; std::optional<SBuf> dec; };
static EncOut doE(const std::string &bytes, const CharacterSet &cs) {
    const SBuf in(bytes.data(), bytes.size());
    EncOut r;
    r.enc = AnyP::Uri::Encode(in, cs);
    r.dec = AnyP::Uri::Decode(r.enc);
    return r;
}
static std::string str(const SBuf &b) { return std::string(b.rawContent(), b.length()); }

static const char *checkE(const std::string &in, const CharacterSet &cs, const EncOut &r) {
    const bool claim = !cs['%'] || in.find('%') == std::string::npos;
    if (claim && (!r.dec || str(*r.dec) != in)) return "decode(encode(x)) != x";
    if (!encodedFormOk(str(r.enc), cs)) return "encoded form has an octet that is neither ignored nor part of a %XX triplet";
    if (r.enc.length() > 3 * in.size()) return "encoded form longer than 3*len";
    return nullptr;
}
static const char *checkD(const std::string &in, const std::optional<SBuf> &dec) {
    std::string ref;
    const bool ok = refPctDecode(in, ref);
    if (ok != bool(dec)) return ok ? "well-formed input rejected" : "malformed pct-encoding accepted";
    if (ok && str(*dec) != ref) return "decoded octets differ from the reference";
    return nullptr;
}

struct EscOut { std::string esc, unesc; };
static EscOut doEsc(const std::string &bytes, int flags) {
    char *in = new char[bytes.size() + 1]; // exact size: ASan sees any over-read
    memcpy(in, bytes.data(), bytes.size()); in[bytes.size()] = 0;
    const char *esc = rfc1738_do_escape(in, flags);
    const size_t n = strlen(esc);
    EscOut r;
    r.esc.assign(esc, n);
    char *buf = new char[n + 1]; // exact size: ASan sees any access past the terminator
    memcpy(buf, esc, n + 1);
    rfc1738_unescape(buf);
    r.unesc.assign(buf, strlen(buf));
    delete[] buf;
    delete[] in;
    return r;
}
static const char *checkEsc(const std::string &in, int flags, const EscOut &r) {
    const bool escapesPercent = (flags & RFC1738_ESCAPE_UNSAFE) && !(flags & RFC1738_ESCAPE_NOPERCENT);
    if ((escapesPercent || in.find('%') == std::string::npos) && r.unesc != in) return "unescape(escape(x)) != x";
    if (r.esc.size() > 3 * in.size()) return "escaped form longer than 3*len";
    if (refUnescape(r.esc) != r.unesc) return "unescape result differs from the reference";
    return nullptr;
}
struct UnOut { std::string out, mem; };
static UnOut doU(const std::string &bytes) {
    const size_t n = bytes.size();
    char *buf = new char[n + 1];
    memcpy(buf, bytes.data(), n); buf[n] = 0;
    rfc1738_unescape(buf);
    UnOut r;
    r.mem.assign(buf, n + 1);
    r.out.assign(buf, strnlen(buf, n + 1));
    delete[] buf;
    return r;
}
static const char *checkU(const std::string &in, const UnOut &r) {
    if (r.out.size() > in.size()) return "unescaped string longer than the input";
    if (r.mem[in.size()] != 0) return "terminator of the input buffer overwritten";
    if (r.out != refUnescape(in)) return "unescape result differs from the reference";
    return nullptr;
}

template <class F>
static void sweep(unsigned lo, size_t k, std::string &cur, F &&f) {
    if (!k) { f(cur); return; }
    for (unsigned c = lo; c < 256; ++c) {
        cur.push_back(static_cast<char>(c));
        sweep(lo, k - 1, cur, f);
        cur.pop_back();
    }
}
struct SweepAcc {
    size_t n = 0, bad = 0; std::string first; Fnv h;
    void fail(const std::string &in) { if (!bad++) first = in; }
    void print() const { printf("n=%zu bad=%zu first=%s digest=%016llx\n", n, bad, bad ? hex(first).c_str() : "-", static_cast<unsigned long long>(h.h)); }
};
static bool parseNat(const std::string &w, long &v, long max) {
    if (w.empty() || w.size() > 9) return false;
    for (char c : w) if (c < '0' || c > '9') return false;
    v = atol(w.c_str());
    return v <= max;
}

int main(int argc, char **argv) {
    Mem::Init();
    if (argc > 1 && !strcmp(argv[1], "--dump-sets")) {
        dumpSet("PATH", PathChars());
        dumpSet("USERINFO", UserInfoChars());
        return 0;
    }
    if (argc > 1 && !strcmp(argv[1], "--dump-tables")) {
        printf("unsafe %s\n", hex(rfc1738_unsafe_chars, sizeof(rfc1738_unsafe_chars)).c_str());
        printf("reserved %s\n", hex(rfc1738_reserved_chars, sizeof(rfc1738_reserved_chars)).c_str());
        printf("flag CTRLS %d\nflag UNSAFE %d\nflag RESERVED %d\nflag NOSPACE %d\nflag NOPERCENT %d\n",
               RFC1738_ESCAPE_CTRLS, RFC1738_ESCAPE_UNSAFE, RFC1738_ESCAPE_RESERVED, RFC1738_ESCAPE_NOSPACE, RFC1738_ESCAPE_NOPERCENT);
        printf("flag ALL %d\nflag UNESCAPED %d\n", RFC1738_ESCAPE_ALL, RFC1738_ESCAPE_UNESCAPED);
        printf("char_is_signed %d\n", static_cast<char>(0x80) < 0 ? 1 : 0);
        return 0;
    }
    std::string line;
    while (std::getline(std::cin, line)) {
        std::vector<std::string> w;
        {
            size_t p = 0;
            while (p < line.size()) {
                while (p < line.size() && line[p] == ' ') ++p;
                size_t q = p;
                while (q < line.size() && line[q] != ' ') ++q;
                if (q > p) w.push_back(line.substr(p, q - p));
                p = q;
            }
        }
        std::string bytes;
        long flags = 0, n = 0;
        if (w.size() == 3 && w[0] == "E" && unhex(w[2], bytes)) {
            CharacterSet cs;
            if (!parseSet(w[1], cs)) { puts("bad-op"); fflush(stdout); continue; }
            const auto r = doE(bytes, cs);
            printf("enc=%s dec=%s\n", hex(r.enc).c_str(), r.dec ? hex(*r.dec).c_str() : "reject");
        } else if (w.size() == 2 && w[0] == "D" && unhex(w[1], bytes)) {
            const auto dec = AnyP::Uri::Decode(SBuf(bytes.data(), bytes.size()));
            if (dec) puts(hex(*dec).c_str()); else puts("reject:pct");
        } else if (w.size() == 3 && w[0] == "e" && parseNat(w[1], flags, 0xffff) && unhex(w[2], bytes)) {
            if (bytes.find('\0') != std::string::npos) { puts("reject:nul"); fflush(stdout); continue; }
            const auto r = doEsc(bytes, static_cast<int>(flags));
            printf("esc=%s unesc=%s\n", hex(r.esc).c_str(), hex(r.unesc).c_str());
        } else if (w.size() == 2 && w[0] == "u" && unhex(w[1], bytes)) {
            if (bytes.find('\0') != std::string::npos) { puts("reject:nul"); fflush(stdout); continue; }
            const auto r = doU(bytes);
            printf("%s mem=%s\n", hex(r.out).c_str(), hex(r.mem).c_str());
        } else if (w.size() == 4 && w[0] == "XE" && parseNat(w[2], n, 64) && unhex(w[3], bytes)) {
            CharacterSet cs;
            if (!parseSet(w[1], cs) || static_cast<size_t>(n) < bytes.size() || static_cast<size_t>(n) > bytes.size() + 3) { puts("bad-op"); fflush(stdout); continue; }
            SweepAcc a;
            sweep(0, n - bytes.size(), bytes, [&](const std::string &in) {
                const auto r = doE(in, cs);
                ++a.n; a.h.item(r.enc); if (r.dec) a.h.item(*r.dec); else a.h.none();
                if (checkE(in, cs, r)) a.fail(in);
            });
            a.print();
        } else if (w.size() == 3 && w[0] == "XD" && parseNat(w[1], n, 64) && unhex(w[2], bytes)) {
            if (static_cast<size_t>(n) < bytes.size() || static_cast<size_t>(n) > bytes.size() + 3) { puts("bad-op"); fflush(stdout); continue; }
            SweepAcc a;
            sweep(0, n - bytes.size(), bytes, [&](const std::string &in) {
                const auto dec = AnyP::Uri::Decode(SBuf(in.data(), in.size()));
                ++a.n; if (dec) a.h.item(*dec); else a.h.none();
                if (checkD(in, dec)) a.fail(in);
            });
            a.print();
        } else if (w.size() == 4 && w[0] == "Xe" && parseNat(w[1], flags, 0xffff) && parseNat(w[2], n, 64) && unhex(w[3], bytes)) {
            if (static_cast<size_t>(n) < bytes.size() || static_cast<size_t>(n) > bytes.size() + 3) { puts("bad-op"); fflush(stdout); continue; }
            if (bytes.find('\0') != std::string::npos) { puts("reject:nul"); fflush(stdout); continue; }
            SweepAcc a;
            sweep(1, n - bytes.size(), bytes, [&](const std::string &in) {
                const auto r = doEsc(in, static_cast<int>(flags));
                ++a.n; a.h.item(r.esc); a.h.item(r.unesc);
                if (checkEsc(in, static_cast<int>(flags), r)) a.fail(in);
            });
            a.print();
        } else if (w.size() == 3 && w[0] == "Xu" && parseNat(w[1], n, 64) && unhex(w[2], bytes)) {
            if (static_cast<size_t>(n) < bytes.size() || static_cast<size_t>(n) > bytes.size() + 3) { puts("bad-op"); fflush(stdout); continue; }
            if (bytes.find('\0') != std::string::npos) { puts("reject:nul"); fflush(stdout); continue; }
            SweepAcc a;
            sweep(1, n - bytes.size(), bytes, [&](const std::string &in) {
                const auto r = doU(in);
                ++a.n; a.h.item(r.out); a.h.item(r.mem);
                if (checkU(in, r)) a.fail(in);
            });
            a.print();
        } else {
            puts("bad-op");
        }
        fflush(stdout);
    }
    return 0;
}
