"""C01 end-to-end harness: origin responses of every framing through the staged squid; observation = one canonical line.

Scenario line (space separated, 13 tokens):
  <cache> <ver> <method> <status> <ofr> <seed> <pieces> <cut> <end> <hsplit> <segs> <stall> <hv>
    cache   n : `cache deny all`      m : memory cache, the response is cacheable and fetched twice (the 2nd fetch may be a hit)
            d : ufs cache_dir without memory cache, fetched twice
    ver     11 | 10 | 10k     client request version (10k = HTTP/1.0 with Connection: keep-alive)
    method  GET | HEAD
    status  origin status code
    ofr     cl:<n> | ch | close      what the origin head declares: Content-Length: n / Transfer-Encoding: chunked / neither
    seed    seed of the body byte generator
    pieces  the origin's bytes after the head ("wire"), as a comma list of  d<n> (the next n generated body bytes) and
            x<hex> (literal framing bytes: chunk-size lines, CRLFs, extensions, trailers, garbage); '-' = nothing
    cut     number of wire bytes the origin really sends before it ends the connection, '-' = all of them
    end     fin (close after the last byte) | keep (leave the connection open) | rst (reset)
    hsplit  offset inside the head where the origin splits its first write, '-' = none; 'c<k>' = the origin sends only k bytes of
            the head and then ends (no wire bytes at all)
    segs    cumulative wire offsets where the origin splits its writes, '-' = one write
    stall   index of the segment after which the origin stalls for 60 ms, '-' = no stall
    hv      header variant (extra origin headers): 0 none, 1 Content-Type+ETag, 2 Content-Range matching the body (for 206), 3 HTTP/1.0 status line
Observation:
  st=<status> fr=<cl:n|chunked|close|none> len=<n> fnv=<16 hex> end=<complete|eof|timeout|reset|nohead|badframe:why> conn=<keep|close> next=<ok|bad:why|->
     (conn: what happened to the connection after a complete message: keep = a second request on it was answered; next: the answer to that request was
      the expected one / octets followed the message / the connection was announced to close but stayed open)
  [ | the same for the second fetch ] arrivals=<k>
"""
import os, re, socket, threading, time
from concurrent.futures import ThreadPoolExecutor
from e2e import rig

FNV_OFF, FNV_PRIME, M64 = 0xcbf29ce484222325, 0x100000001b3, (1 << 64) - 1
PROBE = b"probe-body-0123456789"
HEXD = b"0123456789abcdefABCDEF"
TCHAR = b"!#$%&'*+-.^_`|~0123456789abcdefghijklmnopqrstuvwxyzABCDEFGHIJKLMNOPQRSTUVWXYZ"


def body(n, seed):
    """LCG stream: x' = 1664525 x + 1013904223 mod 2^32, byte = x' >> 24"""
    x = (seed * 2654435761 + 12345) & 0xffffffff
    out = bytearray(n)
    for i in range(n):
        x = (x * 1664525 + 1013904223) & 0xffffffff
        out[i] = x >> 24
    return bytes(out)


_body_cache = {}
_body_lock = threading.Lock()


def body_cached(n, seed):
    with _body_lock:
        b = _body_cache.get((n, seed))
    if b is None:
        b = body(n, seed)
        with _body_lock:
            if len(_body_cache) > 64:
                _body_cache.clear()
            _body_cache[(n, seed)] = b
    return b


def fnv(b):
    h = FNV_OFF
    for x in b:
        h = ((h ^ x) * FNV_PRIME) & M64
    return "%016x" % h


def hx(b):
    return b.hex() if b else "-"


def unhx(s):
    return b"" if s == "-" else bytes.fromhex(s)


# ------------------------------------------------------------------------------------------------ scenario

def parse_pieces(tok):
    """-> list of ('d', n) / ('x', bytes) or None"""
    if tok == "-":
        return []
    out = []
    for p in tok.split(","):
        if len(p) < 2:
            return None
        if p[0] == "d" and p[1:].isdigit():
            out.append(("d", int(p[1:])))
        elif p[0] == "x":
            try:
                out.append(("x", bytes.fromhex(p[1:])))
            except ValueError:
                return None
        else:
            return None
    return out


def wire_of(pieces, seed):
    total = sum(n for k, n in pieces if k == "d")
    B = body_cached(total, seed)
    pos = 0
    out = []
    for k, v in pieces:
        if k == "d":
            out.append(B[pos:pos + v])
            pos += v
        else:
            out.append(v)
    return b"".join(out)


def parse_line(line):
    t = line.split(" ")
    if len(t) != 13:
        return None
    try:
        sc = {"cache": t[0], "ver": t[1], "method": t[2], "status": int(t[3]), "ofr": t[4], "seed": int(t[5]), "pieces": parse_pieces(t[6]),
              "cut": None if t[7] == "-" else int(t[7]), "end": t[8], "hsplit": t[9],
              "segs": [] if t[10] == "-" else [int(x) for x in t[10].split(",")], "stall": None if t[11] == "-" else int(t[11]), "hv": int(t[12])}
    except ValueError:
        return None
    if sc["cache"] not in ("n", "m", "d", "r") or sc["ver"] not in ("11", "10", "10k") or sc["method"] not in ("GET", "HEAD") or sc["pieces"] is None:
        return None
    if not (200 <= sc["status"] <= 599) or sc["end"] not in ("fin", "keep", "rst") or sc["hv"] not in (0, 1, 2, 3) or not (0 <= sc["seed"] < 1 << 30):
        return None
    m = re.fullmatch(r"cl:(\d{1,12})|ch|close", sc["ofr"])
    if not m:
        return None
    sc["cl"] = int(m.group(1)) if m.group(1) is not None else None
    if sc["hsplit"] != "-" and not re.fullmatch(r"c?\d{1,5}", sc["hsplit"]):
        return None
    if sum(n for k, n in sc["pieces"] if k == "d") > 8 << 20:
        return None
    sc["wire"] = wire_of(sc["pieces"], sc["seed"])
    if sc["cut"] is not None and sc["cut"] > len(sc["wire"]):
        return None
    sc["sent"] = sc["wire"] if sc["cut"] is None else sc["wire"][:sc["cut"]]
    sc["headcut"] = int(sc["hsplit"][1:]) if sc["hsplit"].startswith("c") else None
    if sc["headcut"] is not None:
        sc["sent"] = b""
    return sc


def no_body_status(status):
    return status in (204, 304) or status < 200


# ------------------------------------------------------------------------------------------------ strict chunked reference

def ref_dechunk(data):
    """RFC 9112 section 7.1 reader over a byte string. -> (verdict, body, consumed); verdict: complete | incomplete | invalid:<why>.
    Accepted: chunk-size = 1*HEXDIG (at most 16 digits), chunk-ext = *( BWS ";" BWS token [ BWS "=" BWS ( token / quoted-string ) ] ),
    CRLF line ends only, trailer fields up to an empty line."""
    pos, out = 0, []
    n = len(data)
    while True:
        # chunk-size
        i = pos
        while i < n and data[i] in HEXD:
            i += 1
        if i == n:
            return "incomplete", b"".join(out), pos
        if i == pos:
            return "invalid:chunk-size", b"".join(out), pos
        if i - pos > 16:
            return "invalid:chunk-size-long", b"".join(out), pos
        size = int(data[pos:i], 16)
        if size >= 1 << 63:
            return "invalid:chunk-size-overflow", b"".join(out), pos
        # extensions
        while True:
            j = i
            while j < n and data[j] in b" \t":
                j += 1
            if j == n:
                return "incomplete", b"".join(out), pos
            if data[j] != 0x3b:
                if j != i:
                    return "invalid:bws-before-crlf", b"".join(out), pos
                break
            j += 1
            while j < n and data[j] in b" \t":
                j += 1
            k = j
            while k < n and data[k] in TCHAR:
                k += 1
            if k == n:
                return "incomplete", b"".join(out), pos
            if k == j:
                return "invalid:ext-name", b"".join(out), pos
            i = k
            j = k
            while j < n and data[j] in b" \t":
                j += 1
            if j == n:
                return "incomplete", b"".join(out), pos
            if data[j] == 0x3d:
                j += 1
                while j < n and data[j] in b" \t":
                    j += 1
                if j == n:
                    return "incomplete", b"".join(out), pos
                if data[j] == 0x22:
                    k = j + 1
                    while True:
                        if k >= n:
                            return "incomplete", b"".join(out), pos
                        if data[k] == 0x5c:
                            k += 2
                            continue
                        if data[k] == 0x22:
                            k += 1
                            break
                        if data[k] in b"\r\n" or data[k] == 0:
                            return "invalid:quoted", b"".join(out), pos
                        k += 1
                    if k > n:
                        return "incomplete", b"".join(out), pos
                else:
                    k = j
                    while k < n and data[k] in TCHAR:
                        k += 1
                    if k == n:
                        return "incomplete", b"".join(out), pos
                    if k == j:
                        return "invalid:ext-value", b"".join(out), pos
                i = k
        if n - i < 2:
            return ("incomplete" if data[i:i + 1] in (b"", b"\r") else "invalid:crlf-after-size"), b"".join(out), pos
        if data[i:i + 2] != b"\r\n":
            return "invalid:crlf-after-size", b"".join(out), pos
        i += 2
        if size == 0:
            # trailer section
            while True:
                e = data.find(b"\r\n", i)
                if e < 0:
                    return "incomplete", b"".join(out), pos
                if e == i:
                    return "complete", b"".join(out), i + 2
                fld = data[i:e]
                if b":" not in fld or fld[:1] in b" \t:" or b"\n" in fld or b"\r" in fld:
                    return "invalid:trailer", b"".join(out), pos
                i = e + 2
        avail = data[i:i + size]
        out.append(avail)
        if len(avail) < size:
            return "incomplete", b"".join(out), pos
        i += size
        if n - i < 2:
            return ("incomplete" if data[i:i + 1] in (b"", b"\r") else "invalid:crlf-after-data"), b"".join(out), pos
        if data[i:i + 2] != b"\r\n":
            return "invalid:crlf-after-data", b"".join(out), pos
        pos = i + 2


def origin_truth(sc):
    """what the origin's response means, by the scenario alone: -> (complete?, body the message defines (or the part that exists), kind)"""
    if sc["headcut"] is not None:
        return False, b"", "nohead"
    if sc["method"] == "HEAD" or no_body_status(sc["status"]):
        return True, b"", "none"
    sent = sc["sent"]
    if sc["ofr"] == "ch":
        v, b, used = ref_dechunk(sent)
        return v == "complete", b, "chunked:" + v
    if sc["cl"] is not None:
        return len(sent) >= sc["cl"], sent[:sc["cl"]], "cl"
    return sc["end"] == "fin", sent, "close"


# ------------------------------------------------------------------------------------------------ origin side

class Origin(rig.Origin):
    """rig.Origin with TCP_NODELAY on accepted connections (write segmentation must reach squid as written)"""

    def _accept(self):
        while self.running:
            try:
                c, _ = self.sock.accept()
            except OSError:
                return
            try:
                c.setsockopt(socket.IPPROTO_TCP, socket.TCP_NODELAY, 1)
            except OSError:
                pass
            with self.lock:
                self.conns += 1
                k = self.conns
            threading.Thread(target=self._serve, args=(c, k), daemon=True).start()


def origin_head(sc):
    reason = {200: "OK", 203: "Non-Authoritative Information", 204: "No Content", 206: "Partial Content", 301: "Moved Permanently", 304: "Not Modified",
              404: "Not Found", 500: "Internal Server Error", 503: "Service Unavailable"}.get(sc["status"], "Status")
    h = ["%s %d %s" % ("HTTP/1.0" if sc["hv"] == 3 else "HTTP/1.1", sc["status"], reason), "Date: " + rig.date_now()]
    if sc["cache"] not in ("n", "r"):
        h.append("Cache-Control: public, max-age=3600")
    if sc["hv"] == 1:
        h += ["Content-Type: application/octet-stream", 'ETag: "c01"']
    if sc["hv"] == 2:
        n = sc["cl"] if sc["cl"] is not None else sum(v for k, v in sc["pieces"] if k == "d")
        if n > 0:
            h.append("Content-Range: bytes 0-%d/%d" % (n - 1, n))
    if sc["status"] == 301:
        h.append("Location: http://example.invalid/moved")
    if sc["ofr"] == "ch":
        h.append("Transfer-Encoding: chunked")
    elif sc["cl"] is not None:
        h.append("Content-Length: %d" % sc["cl"])
    if sc["end"] != "keep" and sc["hv"] != 3 and sc["seed"] % 2 == 0:
        h.append("Connection: close")
    return ("\r\n".join(h) + "\r\n\r\n").encode("latin-1")


def make_handler(sc):
    def handler(req):
        head = origin_head(sc)
        if sc["headcut"] is not None:
            k = min(sc["headcut"], len(head) - 1)
            acts = [("send", head[:k])] if k else []
            return acts + [("reset",) if sc["end"] == "rst" else ("close",)]
        sent = b"" if req["first"].startswith("HEAD ") else sc["sent"]
        acts = []
        if sc["hsplit"] != "-":
            k = max(1, min(int(sc["hsplit"]), len(head) - 1))
            acts += [("send", head[:k]), ("sleep", 0.002), ("send", head[k:])]
            first = b""
        else:
            first = head
        pos = 0
        nseg = 0
        for cpos in sorted(set(sc["segs"])) + [len(sent)]:
            cpos = min(cpos, len(sent))
            if cpos > pos or (first and cpos == len(sent)):
                acts.append(("send", first + sent[pos:cpos]))
                first = b""
                pos = cpos
                nseg += 1
                if pos < len(sent):
                    acts.append(("sleep", 0.06 if sc["stall"] is not None and sc["stall"] == nseg else 0.001))
        if first:
            acts.append(("send", first))
        if sc["end"] == "fin":
            acts.append(("close",))
        elif sc["end"] == "rst":
            acts.append(("reset",))
        return acts
    return handler


# ------------------------------------------------------------------------------------------------ client side (strict reader)

def recv_some(sock, deadline):
    """-> bytes ('' = EOF) | 'timeout' | 'reset'"""
    left = deadline - time.time()
    if left <= 0:
        return "timeout"
    sock.settimeout(left)
    try:
        return sock.recv(262144)
    except socket.timeout:
        return "timeout"
    except OSError:
        return "reset"


def read_response(sock, rest, head_request, timeout):
    """Strict HTTP/1.1 response reader. -> dict(status, hdrs, version, fr, body, end, rest, chunks)
    end: complete | eof | timeout | reset | nohead | badframe:<why>"""
    deadline = time.time() + timeout
    buf = rest
    while b"\r\n\r\n" not in buf:
        d = recv_some(sock, deadline)
        if not isinstance(d, bytes) or not d:
            return {"status": 0, "hdrs": [], "version": "", "fr": "none", "body": b"", "end": "nohead", "rest": b"", "chunks": 0, "how": d if not isinstance(d, bytes) else "eof"}
        buf += d
    i = buf.index(b"\r\n\r\n")
    head, buf = buf[:i + 4], buf[i + 4:]
    first, hdrs = rig.parse_head(head)
    m = re.match(r"HTTP/(\d\.\d) (\d{3})", first)
    status = int(m.group(2)) if m else 0
    res = {"status": status, "hdrs": hdrs, "version": m.group(1) if m else "", "chunks": 0}
    te = rig.hall(hdrs, "transfer-encoding")
    cls = rig.hall(hdrs, "content-length")

    def done(fr, body, end, rest=b""):
        res.update({"fr": fr, "body": body, "end": end, "rest": rest})
        return res
    if te and cls:
        return done("both", b"", "badframe:cl-and-te")
    if len(cls) > 1:
        return done("cl", b"", "badframe:two-cl")
    if head_request or status // 100 == 1 or status in (204, 304):
        if te:
            return done("chunked", b"", "badframe:te-on-bodyless")
        return done("none", b"", "complete", buf)
    if te:
        if [x.strip().lower() for x in te] != ["chunked"]:
            return done("chunked", b"", "badframe:te-value")
        body = []
        while True:
            while b"\r\n" not in buf:
                if len(buf) > 40:
                    return done("chunked", b"".join(body), "badframe:chunk-line-long")
                d = recv_some(sock, deadline)
                if not isinstance(d, bytes):
                    return done("chunked", b"".join(body), d)
                if not d:
                    return done("chunked", b"".join(body), "eof")
                buf += d
            line, buf = buf.split(b"\r\n", 1)
            if not re.fullmatch(rb"[0-9A-Fa-f]{1,16}", line):
                return done("chunked", b"".join(body), "badframe:chunk-size-line")
            n = int(line, 16)
            if n == 0:
                # squid sends no trailers: the terminating empty line must follow
                while len(buf) < 2:
                    d = recv_some(sock, deadline)
                    if not isinstance(d, bytes):
                        return done("chunked", b"".join(body), d)
                    if not d:
                        return done("chunked", b"".join(body), "eof")
                    buf += d
                if buf[:2] != b"\r\n":
                    return done("chunked", b"".join(body), "badframe:after-last-chunk")
                return done("chunked", b"".join(body), "complete", buf[2:])
            res["chunks"] += 1
            while len(buf) < n + 2:
                d = recv_some(sock, deadline)
                if not isinstance(d, bytes) or not d:
                    body.append(buf[:n])
                    return done("chunked", b"".join(body), d if not isinstance(d, bytes) else "eof")
                buf += d
            body.append(buf[:n])
            if buf[n:n + 2] != b"\r\n":
                return done("chunked", b"".join(body), "badframe:after-chunk-data")
            buf = buf[n + 2:]
    if cls:
        if not re.fullmatch(r"\d{1,18}", cls[0]):
            return done("cl", b"", "badframe:cl-value")
        n = int(cls[0])
        while len(buf) < n:
            d = recv_some(sock, deadline)
            if not isinstance(d, bytes) or not d:
                return done("cl:%d" % n, buf, d if not isinstance(d, bytes) else "eof")
            buf += d
        return done("cl:%d" % n, buf[:n], "complete", buf[n:])
    while True:
        d = recv_some(sock, deadline)
        if not isinstance(d, bytes):
            return done("close", buf, d)
        if not d:
            return done("close", buf, "eof")
        buf += d


def announced_close(r, ver):
    conn = ",".join(rig.hall(r["hdrs"], "connection")).lower()
    if "close" in conn:
        return True
    if ver != "11" and "keep-alive" not in conn:
        return True
    return r["fr"] == "close"


class Harness:
    def __init__(self, stage, workers=8):
        self.stage = stage
        self.origin = Origin()
        self.workers = workers
        self.sq = {}
        big = "cache_mem 256 MB\nmaximum_object_size_in_memory 16 MB\nmaximum_object_size 64 MB\nread_ahead_gap 64 KB\n"
        self.sq["n"] = rig.Squid(stage, conf="cache deny all\n")
        self.sq["m"] = rig.Squid(stage, conf=big)
        self.sq["d"] = rig.Squid(stage, conf="cache_dir ufs {dir}/cache 400 16 64\ncache_mem 0 MB\nmaximum_object_size_in_memory 0 KB\nmaximum_object_size 64 MB\n")
        self.sq["d"].init_dirs()
        # "r": the request is re-forwarded. Two parents: the first answers every request with a complete 502 (Squid discards it and
        # tries the next destination), the second is the scripted origin; what the client gets is decided by the second attempt alone
        self.peer_a = Origin()
        self.sq["r"] = rig.Squid(stage, conf="cache deny all\n"
                                 "cache_peer 127.0.0.1 parent %d 0 no-query no-digest no-netdb-exchange name=pa\n"
                                 "cache_peer 127.0.0.1 parent %d 0 no-query no-digest no-netdb-exchange name=pb\n"
                                 "never_direct allow all\n" % (self.peer_a.port, self.origin.port))
        for s in self.sq.values():
            self._start(s)
        self.n = 0
        self.lock = threading.Lock()
        self.crashes = 0
        # the follow-up request on a kept-alive client connection goes to a second origin, so that it never travels over an origin
        # connection a scenario left in a bad state: its outcome then speaks about the client connection only
        self.probe_origin = Origin()
        self.probe_origin.on("probe", lambda req: [("send", rig.simple_response(200, PROBE, [("Cache-Control", "no-store")]))])
        self.origin.on("probe", lambda req: [("send", rig.simple_response(200, PROBE, [("Cache-Control", "no-store")]))])   # "r": probes travel via the parents too
        self.peer_a.on("probe", lambda req: [("send", rig.simple_response(502, b"peer-a: bad gateway"))])

    def _start(self, s):
        for attempt in range(4):
            try:
                s.start(wait=40 * (attempt + 1))
                break
            except RuntimeError:
                s.stop(kill=True)
                p = os.path.join(s.dir, "cache.log")
                if os.path.exists(p):
                    os.truncate(p, 0)
                s.port = rig.free_port()
                txt = open(s.conf_path).read()
                txt = re.sub(r"http_port 127\.0\.0\.1:\d+", "http_port 127.0.0.1:%d" % s.port, txt)
                open(s.conf_path, "w").write(txt)
                if attempt == 3:
                    raise
        for _ in range(400):
            try:
                socket.create_connection(("127.0.0.1", s.port), timeout=1).close()
                return
            except OSError:
                time.sleep(0.02 * rig.VERIF_SLOW)
        raise RuntimeError("squid not accepting: " + s.cache_log()[-800:])

    def new_sid(self):
        with self.lock:
            self.n += 1
            return "b%d" % self.n

    def fetch(self, sc, sq, sid, T):
        hostport = "127.0.0.1:%d" % self.origin.port
        ver = "1.1" if sc["ver"] == "11" else "1.0"
        head = "%s %s HTTP/%s\r\nHost: %s\r\n" % (sc["method"], self.origin.url(sid, "o"), ver, hostport)
        if sc["ver"] == "10k":
            head += "Connection: keep-alive\r\n"
        head += "\r\n"
        c = socket.create_connection(("127.0.0.1", sq.port), timeout=T)
        try:
            c.sendall(head.encode())
            r = read_response(c, b"", sc["method"] == "HEAD", T)
            conn, nxt = "close", "-"
            if r["end"] == "complete":
                if announced_close(r, sc["ver"]):
                    # the connection must really end, and nothing may follow the message
                    d = r["rest"] or recv_some(c, time.time() + T)
                    conn = "close"
                    if isinstance(d, bytes) and d:
                        nxt = "bad:bytes-after-message"
                    elif d == "timeout":
                        nxt = "bad:not-closed"
                else:
                    conn = "keep"
                    if r["rest"]:
                        nxt = "bad:bytes-after-message"
                    else:
                        c.sendall(("GET %s HTTP/1.1\r\nHost: 127.0.0.1:%d\r\nConnection: close\r\n\r\n" % (self.probe_origin.url("probe", "x"), self.probe_origin.port)).encode())
                        r2 = read_response(c, b"", False, T)
                        if r2["end"] == "nohead" and r2.get("how") in ("eof", "reset"):
                            conn = "close"      # keep-alive was announced but the connection was closed after the complete message
                        elif r2["end"] != "complete":
                            nxt = "bad:probe-" + r2["end"]
                        elif r2["status"] != 200 or r2["body"] != PROBE:
                            nxt = "bad:probe-%d-%s" % (r2["status"], hx(r2["body"][:12]))
                        else:
                            nxt = "ok"
            elif r["end"] == "eof" and r["fr"] == "close":
                conn = "close"
        finally:
            try:
                c.close()
            except OSError:
                pass
        return "st=%d fr=%s len=%d fnv=%s end=%s conn=%s next=%s" % (r["status"], r["fr"], len(r["body"]), fnv(r["body"]), r["end"], conn, nxt), r

    def one(self, line):
        sc = parse_line(line)
        if sc is None:
            return "bad-op"
        sq = self.sq[sc["cache"]]
        sid = self.new_sid()
        self.origin.on(sid, make_handler(sc))
        if sc["cache"] == "r":
            self.peer_a.on(sid, lambda req: [("send", rig.simple_response(502, b"peer-a: bad gateway"))])
        T = (8 + len(sc["wire"]) / 400000.0) * rig.VERIF_SLOW
        obs, r = self.fetch(sc, sq, sid, T)
        self.last = r
        if sc["cache"] not in ("n", "r"):
            obs2, r2 = self.fetch(sc, sq, sid, T)
            obs += " | " + obs2
        if not sq.alive():
            return "abort:squid-died"
        return obs + " arrivals=%d" % len(self.origin.requests(sid))

    def run(self, lines):
        dead = [s for s in self.sq.values() if not s.alive()]
        for s in dead:      # restarts happen in the main thread only
            self._start(s)
        with ThreadPoolExecutor(max_workers=self.workers) as ex:
            return list(ex.map(rig.guarded(self.one, list(self.sq.values())), lines))

    def close(self):
        for s in self.sq.values():
            s.stop()
        self.origin.close()
        self.probe_origin.close()
        self.peer_a.close()
