// C04 in-process harness: the real strListGetItem / strListIsMember (src/StrList.cc), HttpHeaderEntry::parse,
// HttpHeader::getList / removeConnectionHeaderEntries / removeHopByHopEntries (src/HttpHeader.cc) and
// Http::HeaderLookupTable (src/http/RegisteredHeaders.cc) from the staged tree, built with ASan/UBSan.
//
//   L <hex list> <hex member>      items of the ','-list as strListGetItem yields them, and strListIsMember(list, member, ',')
//        -> items=<hex>,<hex>... | items=.   member=<0|1>
//   R <fields>                     fields = <hex name>:<hex value>,... (or `.`): every field goes through
//   K <fields>                     HttpHeaderEntry::parse("name: value", hoReply) and addEntry(); then
//                                  R: removeHopByHopEntries()   K: removeConnectionHeaderEntries()
//        -> reject:field            (HttpHeaderEntry::parse refused a field)
//        -> conn=<hex getList(Connection) | none> keep=<i>,<i>... | keep=.   (indices of the input fields that survive)
//           names=<hex canonical name>,...   (names of the survivors as squid will write them)
//   --dump-registry                -> one line per HdrType: id <hex name> list hopbyhop
#include "squid.h"
#include "HttpHeader.h"
#include "http/RegisteredHeaders.h"
#include "MemBuf.h"
#include "MemObject.h"
#include "SquidConfig.h"
#include "StrList.h"
#include "mem/forward.h"
#include "sbuf/SBuf.h"

#include <cstdio>
#include <cstring>
#include <iostream>
#include <string>
#include <vector>

class SquidConfig Config;

int64_t
MemObject::endOffset() const
{
    return 0;
}

static bool unhex(const std::string &h, std::string &r) {
    r.clear();
    if (h == "-") return true;
    if (h.size() % 2) return false;
    for (size_t i = 0; i + 1 < h.size(); i += 2) {
        int v = 0;
        for (int k = 0; k < 2; ++k) {
            const char c = h[i + k];
            int d;
            if (c >= '0' && c <= '9') d = c - '0';
            else if (c >= 'a' && c <= 'f') d = c - 'a' + 10;
            else return false;
            v = v * 16 + d;
        }
        r.push_back(static_cast<char>(v));
    }
    return true;
}
static std::string hex(const char *p, size_t n) {
    if (!n) return "-";
    static const char *d = "0123456789abcdef";
    std::string r;
    for (size_t i = 0; i < n; ++i) { const unsigned char c = p[i]; r.push_back(d[c >> 4]); r.push_back(d[c & 15]); }
    return r;
}

static std::vector<std::string> split(const std::string &s, char c) {
    std::vector<std::string> r;
    size_t i = 0;
    while (true) {
        const size_t j = s.find(c, i);
        if (j == std::string::npos) { r.push_back(s.substr(i)); break; }
        r.push_back(s.substr(i, j - i));
        i = j + 1;
    }
    return r;
}

static std::string opList(const std::string &list, const std::string &member) {
    // String copies into its own exact-size buffer (+NUL): over-reads are visible to ASan
    String s;
    if (!list.empty())
        s.assign(list.data(), list.size());
    std::string out = "items=";
    const char *pos = nullptr;
    const char *item = nullptr;
    int ilen = 0;
    int n = 0;
    while (strListGetItem(&s, ',', &item, &ilen, &pos)) {
        if (n++) out += ",";
        out += hex(item, ilen);
        if (n > 100000) break;
    }
    if (!n) out += ".";
    const SBuf m(member.data(), member.size());
    out += std::string(" member=") + (strListIsMember(&s, m, ',') ? "1" : "0");
    return out;
}

/// removeConnectionHeaderEntries() is protected
class OpenHeader: public HttpHeader
{
public:
    explicit OpenHeader(const http_hdr_owner_type o): HttpHeader(o) {}
    void connectionOnly() { removeConnectionHeaderEntries(); }
};

static std::string opRemove(const std::string &fields, bool hopByHop) {
    OpenHeader hdr(hoReply);
    std::vector<const HttpHeaderEntry *> mine;
    if (fields != ".") {
        for (const auto &f : split(fields, ',')) {
            const auto nv = split(f, ':');
            std::string name, value;
            if (nv.size() != 2 || !unhex(nv[0], name) || !unhex(nv[1], value))
                return "bad-op";
            const std::string field = name + ": " + value;
            char *buf = new char[field.size()];
            memcpy(buf, field.data(), field.size());
            HttpHeaderEntry *e = HttpHeaderEntry::parse(buf, buf + field.size(), hoReply);
            delete[] buf;
            if (!e)
                return "reject:field";
            hdr.addEntry(e);
            mine.push_back(e);
        }
    }
    std::string out = "conn=";
    if (hdr.has(Http::HdrType::CONNECTION)) {
        const String l = hdr.getList(Http::HdrType::CONNECTION);
        out += hex(l.rawBuf(), l.size());
    } else
        out += "none";
    if (hopByHop)
        hdr.removeHopByHopEntries();
    else
        hdr.connectionOnly();
    std::string keep, names;
    HttpHeaderPos pos = HttpHeaderInitPos;
    while (const HttpHeaderEntry *e = hdr.getEntry(&pos)) {
        int idx = -1;
        for (size_t i = 0; i < mine.size(); ++i)
            if (mine[i] == e) idx = static_cast<int>(i);
        if (!keep.empty()) { keep += ","; names += ","; }
        keep += std::to_string(idx);
        names += hex(e->name.rawContent(), e->name.length());
    }
    if (keep.empty()) { keep = "."; names = "."; }
    return out + " keep=" + keep + " names=" + names;
}

int main(int argc, char **argv) {
    Mem::Init();
    httpHeaderInitModule();
    Config.onoff.relaxed_header_parser = 1;
    if (argc > 1 && !strcmp(argv[1], "--dump-registry")) {
        for (int i = 0; i < static_cast<int>(Http::HdrType::enumEnd_); ++i) {
            const auto &r = Http::HeaderLookupTable.lookup(static_cast<Http::HdrType>(i));
            printf("%d %s %d %d\n", static_cast<int>(r.id), hex(r.name, strlen(r.name)).c_str(), r.list ? 1 : 0, r.hopbyhop ? 1 : 0);
        }
        return 0;
    }
    std::string line;
    while (std::getline(std::cin, line)) {
        std::string tok[3];
        size_t nt = 0, i = 0;
        while (i < line.size() && nt < 3) {
            while (i < line.size() && line[i] == ' ') ++i;
            size_t j = i;
            while (j < line.size() && line[j] != ' ') ++j;
            if (j > i) tok[nt++] = line.substr(i, j - i);
            i = j;
        }
        std::string out = "bad-op";
        std::string a, b;
        try {
            if (tok[0] == "L" && nt == 3 && unhex(tok[1], a) && unhex(tok[2], b))
                out = opList(a, b);
            else if ((tok[0] == "R" || tok[0] == "K") && nt == 2)
                out = opRemove(tok[1], tok[0] == "R");
        } catch (const std::exception &) {
            out = "throw";
        }
        puts(out.c_str());
        fflush(stdout);
    }
    return 0;
}
