// C08 harness, in-process half: the real descriptor table accounting of the staged tree (src/fd.cc, src/fde.cc; ASan/UBSan).
//   t <maxFD> <op>...      op = o<fd> (fd_open(fd, FD_SOCKET, "c08")) | c<fd> (fd_close(fd)) | h<opening>:<reserved> (query fdUsageHigh)
// The table is created afresh for every line with exactly maxFD entries (fde::Init after Squid_MaxFD = maxFD), so that an access
// outside the table is a sanitizer report.
//   -> ok n=<Number_FD> b=<Biggest_FD> open=<fd,fd,...|-> [high=<0|1>...]
// An assertion of fd.cc aborts the process; the runner reports that as abort:<message> for the line.
#include "squid.h"
#include "comm/Loops.h"
#include "fd.h"
#include "fde.h"
#include "globals.h"
#include "SquidConfig.h"

#include <cstdio>
#include <cstdlib>
#include <iostream>
#include <sstream>
#include <string>
#include <vector>

// the objects linked around fd.cc (tests/testHttpReply recipe) refer to the global configuration
class SquidConfig Config;

// the select-loop registration is outside this property (tests/stub_libcomm.o's fatal stub is weakened by the spec)
void Comm::SetSelect(int, unsigned int, PF *, void *, time_t) {}

static std::string handle(const std::string &line) {
    std::istringstream is(line);
    std::vector<std::string> w;
    for (std::string t; is >> t;) w.push_back(t);
    if (w.size() < 2 || w[0] != "t") return "bad-op";
    char *end = nullptr;
    const long maxFD = strtol(w[1].c_str(), &end, 10);
    if (*end || maxFD < 1 || maxFD > 4096) return "bad-op";
    if (fde::Table) {
        xfree(fde::Table);
        fde::Table = nullptr;
    }
    Squid_MaxFD = static_cast<int>(maxFD);
    Biggest_FD = -1;
    Number_FD = 0;
    fde::Init();
    std::string extra;
    for (size_t i = 2; i < w.size(); ++i) {
        const std::string &op = w[i];
        if (op.size() < 2) return "bad-op";
        if (op[0] == 'h') {
            int opening = 0, reserved = 0;
            if (sscanf(op.c_str() + 1, "%d:%d", &opening, &reserved) != 2) return "bad-op";
            Opening_FD = opening;
            RESERVED_FD = reserved;
            extra += std::string(" high=") + (fdUsageHigh() ? "1" : "0");
            continue;
        }
        const long fd = strtol(op.c_str() + 1, &end, 10);
        if (*end || fd < 0 || fd > 100000) return "bad-op";
        if (op[0] == 'o') fd_open(static_cast<int>(fd), FD_SOCKET, "c08");
        else if (op[0] == 'c') fd_close(static_cast<int>(fd));
        else return "bad-op";
    }
    std::string open;
    for (int i = 0; i < Squid_MaxFD; ++i) {
        if (fd_table[i].flags.open) {
            if (!open.empty()) open += ",";
            open += std::to_string(i);
        }
    }
    if (open.empty()) open = "-";
    return "ok n=" + std::to_string(Number_FD) + " b=" + std::to_string(Biggest_FD) + " open=" + open + extra;
}

int main() {
    std::string line;
    while (std::getline(std::cin, line))
        std::cout << handle(line) << "\n" << std::flush;
    return 0;
}
