// C09 harness, index level: the real buffer primitives under the HTTP/1 parsers (built with ASan/UBSan from the stage):
//   headersEnd (src/mime_header.cc) on an exact-size heap copy (so that a read behind the content is a sanitizer report),
//   SBuf::findFirstNotOf / findLastNotOf / startsWith (src/sbuf/SBuf.cc), Parser::Tokenizer operations (src/parser/Tokenizer.cc).
// One line in, one line out:
//   m he - - <hex s>                     -> n=<size> f=<0|1>
//   m ffn <SET> <pos|npos> <hex s>       -> r=<index|npos>
//   m fln <SET> <pos|npos> <hex s>       -> r=<index|npos>
//   m sw - - <hex s> <hex t>             -> r=<0|1>
//   m prefix <SET> <limit|npos> <hex s>  -> T <hex token> <hex rest> | F <hex rest>
//   m suffix <SET> <limit|npos> <hex s>  -> T <hex token> <hex rest> | F <hex rest>
//   m skipall|skipalltr <SET> - <hex s>  -> N <count> <hex rest>
//   m skipone|skiponetr <SET> - <hex s>  -> T <hex rest> | F <hex rest>
//   m skip|skipsuffix - - <hex s> <hex t> -> T <hex rest> | F <hex rest>
//   m skipchar - - <hex s> <hex t>       -> (t's first byte) T <hex rest> | F <hex rest>
// SET = ALPHA DIGIT TCHAR WSP CR LF SP HEXDIG VCHAR OBSTEXT CTL, with a leading '!' for the complement.
#include "squid.h"
#include "base/CharacterSet.h"
#include "base/TextException.h"
#include "mime_header.h"
#include "parser/Tokenizer.h"
#include "sbuf/SBuf.h"

#include <cstdio>
#include <cstdlib>
#include <cstring>
#include <iostream>
#include <sstream>
#include <string>
#include <vector>

static bool unhex(const std::string &h, std::string &r) {
    r.clear();
    if (h == "-") return true;
    if (h.size() % 2) return false;
    for (size_t i = 0; i < h.size(); i += 2) {
        int v = 0;
        for (int k = 0; k < 2; ++k) {
            const char c = h[i + k];
            int d;
            if (c >= '0' && c <= '9') d = c - '0';
            else if (c >= 'a' && c <= 'f') d = c - 'a' + 10;
            else return false;
            v = v * 16 + d;
        }
        r.push_back(static_cast<char>(v));
    }
    return true;
}
static std::string hex(const char *p, size_t n) {
    if (!n) return "-";
    static const char *d = "0123456789abcdef";
    std::string r;
    for (size_t i = 0; i < n; ++i) { const unsigned char c = p[i]; r.push_back(d[c >> 4]); r.push_back(d[c & 15]); }
    return r;
}
static std::string hex(const SBuf &s) { return hex(s.rawContent(), s.length()); }

static bool findSet(const std::string &nameIn, CharacterSet &out) {
    std::string name = nameIn;
    bool neg = false;
    if (!name.empty() && name[0] == '!') { neg = true; name = name.substr(1); }
    const CharacterSet *s = nullptr;
    if (name == "ALPHA") s = &CharacterSet::ALPHA;
    else if (name == "DIGIT") s = &CharacterSet::DIGIT;
    else if (name == "TCHAR") s = &CharacterSet::TCHAR;
    else if (name == "WSP") s = &CharacterSet::WSP;
    else if (name == "CR") s = &CharacterSet::CR;
    else if (name == "LF") s = &CharacterSet::LF;
    else if (name == "SP") s = &CharacterSet::SP;
    else if (name == "HEXDIG") s = &CharacterSet::HEXDIG;
    else if (name == "VCHAR") s = &CharacterSet::VCHAR;
    else if (name == "OBSTEXT") s = &CharacterSet::OBSTEXT;
    else if (name == "CTL") s = &CharacterSet::CTL;
    if (!s) return false;
    out = neg ? s->complement() : *s;
    return true;
}

static bool parsePos(const std::string &t, SBuf::size_type &v) {
    if (t == "npos") { v = SBuf::npos; return true; }
    if (t.empty() || t.size() > 9) return false;
    for (char c : t) if (c < '0' || c > '9') return false;
    v = static_cast<SBuf::size_type>(std::strtoul(t.c_str(), nullptr, 10));
    return true;
}

static std::string posStr(SBuf::size_type v) {
    return v == SBuf::npos ? std::string("npos") : std::to_string(v);
}

static std::string handle(const std::string &line) {
    std::istringstream is(line);
    std::vector<std::string> w;
    for (std::string t; is >> t;) w.push_back(t);
    if (w.size() < 5 || w[0] != "m") return "bad-op";
    const std::string &op = w[1];
    std::string s, t;
    if (!unhex(w[4], s)) return "bad-op";
    if (w.size() > 5 && !unhex(w[5], t)) return "bad-op";
    CharacterSet set("none", "");
    const bool haveSet = findSet(w[2], set);
    SBuf::size_type lim = SBuf::npos;
    const bool haveLim = parsePos(w[3], lim);

    if (op == "he") {
        char *exact = static_cast<char *>(malloc(s.size() ? s.size() : 1));
        memcpy(exact, s.data(), s.size());
        bool fold = false;
        const size_t n = headersEnd(exact, s.size(), fold);
        free(exact);
        // and the SBuf overload
        bool fold2 = false;
        const size_t n2 = headersEnd(SBuf(s.data(), s.size()), fold2);
        if (n != n2 || fold != fold2) return "overloads-differ";
        return "n=" + std::to_string(n) + " f=" + (fold ? "1" : "0");
    }
    const SBuf buf(s.data(), s.size());
    const SBuf tokenArg(t.data(), t.size());
    if (op == "ffn") {
        if (!haveSet || !haveLim) return "bad-op";
        return "r=" + posStr(buf.findFirstNotOf(set, lim));
    }
    if (op == "fln") {
        if (!haveSet || !haveLim) return "bad-op";
        return "r=" + posStr(buf.findLastNotOf(set, lim));
    }
    if (op == "sw")
        return std::string("r=") + (buf.startsWith(tokenArg) ? "1" : "0");

    Parser::Tokenizer tk(buf);
    if (op == "prefix" || op == "suffix") {
        if (!haveSet || !haveLim) return "bad-op";
        SBuf tok;
        const bool ok = op == "prefix" ? tk.prefix(tok, set, lim) : tk.suffix(tok, set, lim);
        if (ok) return "T " + hex(tok) + " " + hex(tk.remaining());
        return "F " + hex(tk.remaining());
    }
    if (op == "skipall" || op == "skipalltr") {
        if (!haveSet) return "bad-op";
        const auto n = op == "skipall" ? tk.skipAll(set) : tk.skipAllTrailing(set);
        return "N " + std::to_string(n) + " " + hex(tk.remaining());
    }
    bool r;
    if (op == "skipone") { if (!haveSet) return "bad-op"; r = tk.skipOne(set); }
    else if (op == "skiponetr") { if (!haveSet) return "bad-op"; r = tk.skipOneTrailing(set); }
    else if (op == "skip") r = tk.skip(tokenArg);
    else if (op == "skipsuffix") r = tk.skipSuffix(tokenArg);
    else if (op == "skipchar") { if (t.empty()) return "bad-op"; r = tk.skip(t[0]); }
    else return "bad-op";
    return std::string(r ? "T " : "F ") + hex(tk.remaining());
}

int main() {
    std::string line;
    while (std::getline(std::cin, line)) {
        std::string out;
        try {
            out = handle(line);
        } catch (const std::exception &e) {
            out = std::string("exception:") + e.what();
            for (auto &c : out) if (c == ' ' || c == '\n') c = '_';
        }
        std::cout << out << "\n" << std::flush;
    }
    return 0;
}
