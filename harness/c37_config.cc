// C37 harness: zero-initialised storage standing in for the global `SquidConfig Config` (only Config.dns.packet_max is
// read by src/dns/rfc3596.cc). Deliberately does not include SquidConfig.h: the real object drags in most of squid.
extern "C++" {
alignas(64) char Config[1 << 20];
}
