// C32 harness: the real html_quote() from the staged tree (built with ASan/UBSan).
//   q <hex>      -> hex of html_quote(bytes)            (input must be NUL-free)
//   u <hex>      -> hex of the reference entity decoder applied to bytes (harness-side reference)
//   --dump-table -> 255 lines "<byte> <hex of html_quote of that single byte>"
#include "squid.h"
#include "html/Quoting.h"
#include <cstdio>
#include <cstring>
#include <iostream>
#include <string>
#include <vector>

static std::string unhex(const std::string &h) {
    std::string r;
    if (h == "-") return r;
    for (size_t i = 0; i + 1 < h.size(); i += 2)
        r.push_back(static_cast<char>(std::stoi(h.substr(i, 2), nullptr, 16)));
    return r;
}
static std::string hex(const std::string &s) {
    if (s.empty()) return "-";
    static const char *d = "0123456789abcdef";
    std::string r;
    for (unsigned char c : s) { r.push_back(d[c >> 4]); r.push_back(d[c & 15]); }
    return r;
}

// reference decoder, written from the HTML character-reference grammar restricted to what html_quote emits
static std::string refUnquote(const std::string &s) {
    std::string r;
    size_t i = 0;
    while (i < s.size()) {
        if (s[i] == '&') {
            size_t semi = std::string::npos;
            for (size_t k = i + 1; k < s.size() && k <= i + 6; ++k)
                if (s[k] == ';') { semi = k; break; }
            if (semi != std::string::npos) {
                const std::string body = s.substr(i + 1, semi - i - 1);
                int val = -1;
                if (body == "lt") val = '<';
                else if (body == "gt") val = '>';
                else if (body == "quot") val = '"';
                else if (body == "amp") val = '&';
                else if (body == "apos") val = '\'';
                else if (body.size() >= 2 && body.size() <= 4 && body[0] == '#') {
                    bool ok = true; int n = 0;
                    for (size_t k = 1; k < body.size(); ++k) { if (body[k] < '0' || body[k] > '9') ok = false; else n = n * 10 + (body[k] - '0'); }
                    if (ok && n < 256) val = n;
                }
                if (val >= 0) { r.push_back(static_cast<char>(val)); i = semi + 1; continue; }
            }
        }
        r.push_back(s[i++]);
    }
    return r;
}

int main(int argc, char **argv) {
    if (argc > 1 && !strcmp(argv[1], "--dump-table")) {
        for (int ch = 1; ch < 256; ++ch) {
            // exact-size heap copy so that ASan sees any over-read
            char *in = new char[2]; in[0] = static_cast<char>(ch); in[1] = 0;
            printf("%d %s\n", ch, hex(html_quote(in)).c_str());
            delete[] in;
        }
        return 0;
    }
    std::string line;
    while (std::getline(std::cin, line)) {
        const auto sp = line.find(' ');
        const std::string op = line.substr(0, sp);
        const std::string arg = sp == std::string::npos ? "-" : line.substr(sp + 1);
        const std::string bytes = unhex(arg);
        if (op == "q") {
            if (bytes.find('\0') != std::string::npos) { puts("reject:nul"); fflush(stdout); continue; }
            char *in = new char[bytes.size() + 1];
            memcpy(in, bytes.data(), bytes.size()); in[bytes.size()] = 0;
            const char *out = html_quote(in);
            puts(hex(out).c_str());
            delete[] in;
        } else if (op == "u") {
            puts(hex(refUnquote(bytes)).c_str());
        } else {
            puts("bad-op");
        }
        fflush(stdout);
    }
    return 0;
}
