// C58 harness: the real Ipc::TypedMsgHdr (src/ipc/TypedMsgHdr.cc) and String from the staged tree, ASan/UBSan.
//
// One input line = one scenario with a sender message S (default constructed) and a receiver message R
// (prepForReading()); both live on the heap so that ASan sees accesses beyond the object. Ops are blank separated:
//   sender:   T,<type>  setType      I,<int>  putInt      S,<hex>  putString      F,<hex>  putFixed (= putPod)
//   transfer: x   R.prepForReading(); the bytes sendmsg would take from S's iov are stored where recvmsg stores them
//             X   R = S (operator=)
//             W,<hex>  R.prepForReading(); these wire bytes (at most sizeof(DataBuffer)) arrive in R's iov, like recvmsg
//             w,<type>,<size>,<hex>  same, wire image composed from the fields (raw part zero padded)
//   receiver: c,<type> checkType   i getInt   s getString   f,<n> getFixed(n bytes)   m hasMoreData   y rawType
//             C  R = copy of R (copy constructor; resets the read offset)    o  private offset and size (model comparison)
// Output: one token per op (x and X answer x:<R has iov>:<type_>:<size>:<hex of raw[0,size)>):  "+" done, "!" an exception was thrown (Must), values as i:<n> s:<hex> f:<hex> m:<0|1> y:<n>
//   o:<offset>:<size>;  "oob" = the call returned normally after copying from beyond data.raw (offset past the buffer).
#include "squid.h"
#include "base/TextException.h"
#include "ipc/TypedMsgHdr.h"
#include "SquidString.h"

#include <cstddef>
#include <cstdio>
#include <cstdlib>
#include <cstring>
#include <iostream>
#include <sstream>
#include <string>
#include <vector>

using Ipc::TypedMsgHdr;

static const size_t RawSize = TypedMsgHdr::maxSize;
static_assert(offsetof(TypedMsgHdr::DataBuffer, type_) == 0, "layout: type_");
static_assert(offsetof(TypedMsgHdr::DataBuffer, size) == 8, "layout: size");
static_assert(offsetof(TypedMsgHdr::DataBuffer, raw) == 16, "layout: raw");
static_assert(sizeof(TypedMsgHdr::DataBuffer) == 16 + TypedMsgHdr::maxSize, "layout: sizeof");
static_assert(sizeof(int) == 4 && sizeof(size_t) == 8, "ILP64 little endian host expected");

static bool unhex(const std::string &h, std::string &r) {
    r.clear();
    if (h == "-") return true;
    if (h.size() % 2) return false;
    for (size_t i = 0; i < h.size(); i += 2) {
        int v = 0;
        for (int k = 0; k < 2; ++k) {
            const char c = h[i + k];
            int d;
            if (c >= '0' && c <= '9') d = c - '0';
            else if (c >= 'a' && c <= 'f') d = c - 'a' + 10;
            else return false;
            v = v * 16 + d;
        }
        r.push_back(static_cast<char>(v));
    }
    return true;
}
static std::string hex(const char *p, size_t n) {
    if (!n) return "-";
    static const char *d = "0123456789abcdef";
    std::string r;
    for (size_t i = 0; i < n; ++i) { const unsigned char c = p[i]; r.push_back(d[c >> 4]); r.push_back(d[c & 15]); }
    return r;
}
static std::vector<std::string> split(const std::string &s, char sep) {
    std::vector<std::string> r;
    std::string cur;
    for (char c : s) { if (c == sep) { r.push_back(cur); cur.clear(); } else cur.push_back(c); }
    r.push_back(cur);
    return r;
}
static bool num(const std::string &s, long long &v) {
    if (s.empty()) return false;
    char *e = nullptr;
    errno = 0;
    v = strtoll(s.c_str(), &e, 10);
    return *e == 0 && errno == 0;
}
static bool unum(const std::string &s, unsigned long long &v) {
    if (s.empty() || s[0] == '-') return false;
    char *e = nullptr;
    errno = 0;
    v = strtoull(s.c_str(), &e, 10);
    return *e == 0 && errno == 0;
}

// what recvmsg does with `n` arriving bytes: they land in the single iov of the prepared message
static void receive(TypedMsgHdr &r, const char *bytes, size_t n) {
    r.prepForReading();
    const size_t room = r.msg_iov[0].iov_len;
    memcpy(r.msg_iov[0].iov_base, bytes, n < room ? n : room);
}

// what the receiver now holds: <has iov>:<type_>:<size>:<hex of raw[0, min(size, sizeof raw))>
static std::string received(const TypedMsgHdr &r) {
    std::ostringstream os;
    const size_t n = r.data.size < RawSize ? r.data.size : RawSize;
    os << (r.msg_iov ? 1 : 0) << ":" << r.data.type_ << ":" << r.data.size << ":" << hex(r.data.raw, n);
    return os.str();
}

static std::string runLine(const std::string &line) {
    TypedMsgHdr *S = new TypedMsgHdr;
    TypedMsgHdr *R = new TypedMsgHdr;
    R->prepForReading();
    std::string out;
    bool bad = false;
    for (const auto &op : split(line, ' ')) {
        if (op.empty()) continue;
        const auto f = split(op, ',');
        std::ostringstream os;
        std::string bytes;
        long long v = 0;
        unsigned long long u = 0;
        try {
            if (f[0] == "T" && f.size() == 2 && num(f[1], v) && v >= -2147483647LL - 1 && v <= 2147483647LL) {
                S->setType(static_cast<int>(v)); os << "+";
            } else if (f[0] == "I" && f.size() == 2 && num(f[1], v) && v >= -2147483647LL - 1 && v <= 2147483647LL) {
                S->putInt(static_cast<int>(v)); os << "+";
            } else if (f[0] == "S" && f.size() == 2 && unhex(f[1], bytes)) {
                String s;
                if (!bytes.empty()) s.assign(bytes.data(), bytes.size());
                S->putString(s); os << "+";
            } else if (f[0] == "F" && f.size() == 2 && unhex(f[1], bytes)) {
                char *exact = new char[bytes.size() ? bytes.size() : 1];
                memcpy(exact, bytes.data(), bytes.size());
                try { S->putFixed(exact, bytes.size()); } catch (...) { delete[] exact; throw; }
                delete[] exact;
                os << "+";
            } else if (f[0] == "x" && f.size() == 1) {
                if (S->msg_iov) {
                    // sendmsg transmits iov_len bytes from iov_base
                    std::string wire(static_cast<const char *>(S->msg_iov[0].iov_base), S->msg_iov[0].iov_len);
                    receive(*R, wire.data(), wire.size());
                } else {
                    R->prepForReading();
                }
                os << "x:" << received(*R);
            } else if (f[0] == "X" && f.size() == 1) {
                *R = *S; os << "X:" << received(*R);
            } else if (f[0] == "W" && f.size() == 2 && unhex(f[1], bytes) && bytes.size() <= sizeof(TypedMsgHdr::DataBuffer)) {
                receive(*R, bytes.data(), bytes.size()); os << "+";
            } else if (f[0] == "w" && f.size() == 4 && num(f[1], v) && v >= -2147483647LL - 1 && v <= 2147483647LL &&
                       unum(f[2], u) && unhex(f[3], bytes) && bytes.size() <= RawSize) {
                std::string wire(16, '\0');
                const int t = static_cast<int>(v);
                const size_t sz = static_cast<size_t>(u);
                memcpy(&wire[0], &t, 4);
                memcpy(&wire[8], &sz, 8);
                wire += bytes;
                receive(*R, wire.data(), wire.size()); os << "+";
            } else if (f[0] == "c" && f.size() == 2 && num(f[1], v) && v >= -2147483647LL - 1 && v <= 2147483647LL) {
                R->checkType(static_cast<int>(v)); os << "+";
            } else if (f[0] == "i" && f.size() == 1) {
                const int n = R->getInt();
                if (R->offset > RawSize) os << "oob"; else os << "i:" << n;
            } else if (f[0] == "s" && f.size() == 1) {
                String s;
                R->getString(s);
                if (R->offset > RawSize) os << "oob"; else os << "s:" << hex(s.rawBuf(), s.size());
            } else if (f[0] == "f" && f.size() == 2 && unum(f[1], u) && u <= 70000) {
                char *exact = new char[u ? u : 1];
                try { R->getFixed(exact, u); } catch (...) { delete[] exact; throw; }
                if (u && R->offset > RawSize) os << "oob"; else os << "f:" << hex(exact, u);
                delete[] exact;
            } else if (f[0] == "m" && f.size() == 1) {
                os << "m:" << (R->hasMoreData() ? 1 : 0);
            } else if (f[0] == "y" && f.size() == 1) {
                os << "y:" << R->rawType();
            } else if (f[0] == "C" && f.size() == 1) {
                TypedMsgHdr *copy = new TypedMsgHdr(*R);
                delete R;
                R = copy;
                os << "+";
            } else if (f[0] == "o" && f.size() == 1) {
                os << "o:" << R->offset << ":" << R->data.size;
            } else {
                bad = true;
            }
        } catch (...) {
            os.str("");
            os << "!";
        }
        if (bad) break;
        if (!out.empty()) out += ' ';
        out += os.str();
    }
    delete S;
    delete R;
    if (bad) return "bad-op";
    return out.empty() ? "-" : out;
}

int main(int argc, char **argv) {
    if (argc > 1 && !strcmp(argv[1], "--probe-size-check")) {
        // used by translate/typedmsg_cfg.py: is a wire-supplied size above sizeof(raw) refused by get*()?
        puts(runLine("w,1,4097,01020304 f,1").c_str());
        return 0;
    }
    std::string line;
    while (std::getline(std::cin, line)) {
        puts(runLine(line).c_str());
        fflush(stdout);
    }
    return 0;
}
