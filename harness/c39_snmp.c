/* C39 harness, SNMP part: the real lib/snmplib decoder (asn1.c, snmp_msg.c, snmp_pdu.c, snmp_vars.c, snmp_api.c, coexistance.c)
 * from the staged tree, compiled with ASan (recover mode, outlined checks: see c39_track.h) and UBSan.
 *
 *   s <hex datagram> <hex tail>
 *        The datagram is placed at the start of an arena that stands for snmpHandleUdp()'s receive buffer (SNMP_REQUEST_SIZE octets,
 *        zeroed by its memset) and what follows it in memory; <tail> = the octets memory holds behind the buffer (at most 256).
 *   S <hex datagram> <hex tail>   same, but <tail> lies directly behind the datagram (arbitrary memory; not a state squid can be in).  Everything from offset SNMP_REQUEST_SIZE on is ASan-poisoned: touching
 *        it is a genuine sanitizer report.  Every access of the decoder to the arena is tracked:
 *             over = (highest offset touched + 1) - len, 0 if the decoder stayed inside the datagram.
 *        Then snmp_parse() (= what snmpDecodePacket calls) runs and the decoded PDU is printed canonically.
 *   -> ok ver=V comm=HEX cmd=C reqid=N es=N ei=N nr=N mr=N co=B vars=K [oid/type/value]... over=K
 *   -> fail err=E dbg=D over=K          E = snmp_errno, D = class of the last snmplib_debug() message
 *   a genuine ASan report during the line appends " asan=<kind>"
 */
#include "squid.h"
#include <stdio.h>
#include <stdlib.h>
#include <string.h>
#include <stdarg.h>
#include <sys/types.h>
#include <netinet/in.h>

#include "asn1.h"
#include "snmp.h"
#include "snmp_vars.h"
#include "snmp_pdu.h"
#include "snmp_session.h"
#include "snmp_msg.h"
#include "snmp_api.h"
#include "snmp_api_error.h"
#include "snmp_coexist.h"

extern int snmp_errno;
extern void (*snmplib_debug_hook)(int, char *, ...);

#include "c39_track.h"
void __asan_poison_memory_region(void const volatile *addr, size_t size);
void __asan_unpoison_memory_region(void const volatile *addr, size_t size);

#define BUFSZ 4096              /* SNMP_REQUEST_SIZE (checked in main) */
#define ARENA (BUFSZ + 256)
static unsigned char *arena;

static int dbgClass;
static void dbgHook(int lvl, char *msg, ...)
{
    (void)lvl;
    if (strstr(msg, "(Header)")) dbgClass = 1;
    else if (strstr(msg, "(Version)")) dbgClass = 2;
    else if (strstr(msg, "(Community)")) dbgClass = 3;
    else if (strstr(msg, "Cannot zero-terminate")) dbgClass = 4;
    else if (strstr(msg, "unsupported ASCII nul")) dbgClass = 5;
    else if (strstr(msg, "SMI_COUNTER64")) dbgClass = 6;
    else if (strstr(msg, "bad type returned")) dbgClass = 7;
    else if (strstr(msg, "Continuing anyway") || strstr(msg, "Unable to parse Version")) dbgClass = 8;
    else if (strstr(msg, "Unable to translate PDU")) dbgClass = 9;
    else dbgClass = 99;
}

static int hexval(int c) { return c >= '0' && c <= '9' ? c - '0' : c >= 'a' && c <= 'f' ? c - 'a' + 10 : c >= 'A' && c <= 'F' ? c - 'A' + 10 : -1; }
/* -> number of bytes, or -1 */
static long unhex(const char *h, unsigned char *out, size_t cap)
{
    size_t n = 0;
    if (!strcmp(h, "-")) return 0;
    for (; h[0] && h[1]; h += 2) {
        int a = hexval(h[0]), b = hexval(h[1]);
        if (a < 0 || b < 0 || n >= cap) return -1;
        out[n++] = (unsigned char)(a * 16 + b);
    }
    return h[0] ? -1 : (long)n;
}
static void puthex(const unsigned char *p, size_t n)
{
    if (!n) { putchar('-'); return; }
    for (size_t i = 0; i < n; ++i) printf("%02x", p[i]);
}
static void putoid(const oid *o, int n)
{
    if (n <= 0) { putchar('-'); return; }
    for (int i = 0; i < n; ++i) printf(i ? ".%u" : "%u", (unsigned)o[i]);
}

static void doSnmp(const char *dg, const char *tail, int faithful)
{
    static unsigned char tmp[ARENA];
    long n = unhex(dg, tmp, ARENA);
    if (n <= 0) { puts(n == 0 ? "reject:empty" : "bad-input"); return; }   /* snmpHandleUdp ignores len <= 0 */
    if (n > BUFSZ - 1) n = BUFSZ - 1;                                       /* recvfrom(sock, buf, sizeof(buf)-1): a longer datagram is cut */
    memset(arena, 0, ARENA);
    memcpy(arena, tmp, (size_t)n);
    long t = unhex(tail, tmp, ARENA - BUFSZ);
    if (t < 0) { puts("bad-input"); return; }
    /* s: the tail lies behind the (zeroed) buffer;  S: directly behind the datagram (arbitrary memory, not what squid has) */
    memcpy(faithful ? arena + BUFSZ : arena + n, tmp, (size_t)t);
    const size_t dgLen = (size_t)n;
    vfTrackReset(dgLen);
    dbgClass = 0;
    snmp_errno = 0;

    struct snmp_session session;
    memset(&session, 0, sizeof(session));
    session.Version = SNMP_VERSION_1;
    struct snmp_pdu *pdu = snmp_pdu_create(0);

    __asan_poison_memory_region(arena + BUFSZ, ARENA - BUFSZ);
    u_char *community = snmp_parse(&session, pdu, arena, (int)n);
    __asan_unpoison_memory_region(arena, ARENA);

    if (!community) {
        printf("fail err=%d dbg=%d over=%zu", snmp_errno, dbgClass, vfOver());
    } else {
        printf("ok ver=%d comm=", (int)session.Version);
        puthex(community, (size_t)session.community_len);
        int nv = 0;
        for (struct variable_list *v = pdu->variables; v; v = v->next_variable) ++nv;
        printf(" cmd=%d reqid=%d es=%d ei=%d nr=%d mr=%d", pdu->command, pdu->reqid, pdu->errstat, pdu->errindex,
               pdu->non_repeaters, pdu->max_repetitions);
        /* what snmpDecodePacket does next when the ACL allows: 1 = a command the agent answers (GETBULK becomes GETNEXT) */
        printf(" co=%d", snmp_coexist_V2toV1(pdu));
        printf(" vars=%d", nv);
        for (struct variable_list *v = pdu->variables; v; v = v->next_variable) {
            putchar(' ');
            putoid(v->name, v->name_length);
            printf("/%u/", (unsigned)v->type);
            switch (v->type) {
            case ASN_INTEGER:
                printf("%d", *v->val.integer);
                break;
            case SMI_COUNTER32: case SMI_GAUGE32: case SMI_TIMETICKS:
                printf("%u", *(unsigned *)v->val.integer);
                break;
            case ASN_OCTET_STR: case SMI_IPADDRESS: case SMI_OPAQUE:
                puthex(v->val.string, (size_t)v->val_len);
                /* the decoder promises a terminator behind the value */
                if (v->val.string[v->val_len] != 0) printf("!noterm");
                break;
            case ASN_OBJECT_ID:
                putoid(v->val.objid, (int)(v->val_len / (int)sizeof(oid)));
                break;
            default:
                putchar('-');
            }
        }
        printf(" over=%zu", vfOver());
    }
    if (vfForeign[0]) printf(" asan=%s", vfForeign);
    putchar('\n');
    /* what snmpDecodePacket does with the pieces */
    snmp_free_pdu(pdu);
    if (community) xfree(community);
}

int main(int argc, char **argv)
{
    if (argc > 1 && !strcmp(argv[1], "--dump")) {
        printf("sizeof_int %zu\n", sizeof(int));
        return 0;
    }
    static char line[3 * ARENA + 64];
    arena = malloc(ARENA);
    vfArena = arena;
    vfArenaSize = ARENA;
    snmplib_debug_hook = dbgHook;
    while (fgets(line, sizeof(line), stdin)) {
        size_t l = strlen(line);
        while (l && (line[l - 1] == '\n' || line[l - 1] == '\r')) line[--l] = 0;
        char *op = strtok(line, " ");
        char *a = op ? strtok(NULL, " ") : NULL;
        char *b = a ? strtok(NULL, " ") : NULL;
        if (op && (!strcmp(op, "s") || !strcmp(op, "S")) && a) doSnmp(a, b ? b : "-", op[0] == 's');
        else puts("bad-op");
        fflush(stdout);
    }
    return 0;
}
