"""C60 end-to-end scenario runner: client + origin (e2e/rig.py) + ICAP stub (e2e/icap_stub.py) around the staged squid.

A scenario is one line of `key=value` tokens in a fixed order (the Lean driver reads them by position):

  m=rq|rs      REQMOD (the adapted message is the request the origin receives) / RESPMOD (the response the client receives)
  p=n|<N>      the service's OPTIONS offers no preview / Preview: N
  b=0|1        icap_service ... bypass=
  u=0|1        the service's OPTIONS allows 206 (icap_206_enable is on)
  vk=n|k|u     virgin message has no body / a body with Content-Length / a body of unknown length (chunked)
  vl=<len>     virgin body length (bytes are a fixed function of the length: vbody(len))
  pre=<len>    virgin body bytes sent before the ICAP stub acted; the rest is held back until then
  at=h|p|c<n>|e  when the ICAP stub acts (see e2e/icap_stub.py)
  act=204|200|200n|200r|206|e<code>|g|x|r|100   what it does
  al=<len>     adapted body length (abody(len))
  acl=0|1      adapted head carries Content-Length
  ch=<n>       chunk size of the adapted body (0 = one chunk)
  cut=-|i<n>|t<n>|b<n>|z|y   the ICAP reply stops: never / after n bytes of the ICAP head / after the ICAP head and n bytes of the
               adapted HTTP head / right after the n-th adapted body byte (both heads complete; b0 = right after the heads) /
               after all body chunks but before the last-chunk / in the middle of the last-chunk
  end=k|c|r    afterwards keep / close / reset the ICAP connection
  seg=<n>      write segmentation of the ICAP reply
  uob=<n>      use-original-body offset for act=206

Observation (one line):  c=<status>:<mark>:<len>:<relV>:<relA>:<complete>  o=<arrivals>:<mark>:<len>:<relV>:<relA>:<complete>  i=<xacts>:<sawVirgin>:<did>
  mark  V = the virgin head (X-Mark: V), A = the adapted head, O = the origin's own reply to a REQMOD-adapted request,
        E = a squid error page, - = none;  rel = eq | p<n> (proper prefix of length n) | no
"""
import os, re, threading, time
from concurrent.futures import ThreadPoolExecutor
import sys

VERIF = os.path.dirname(os.path.dirname(os.path.abspath(__file__)))
if VERIF not in sys.path:
    sys.path.insert(0, VERIF)
from e2e import rig
from e2e.icap_stub import IcapStub, chunked, reply_parts, body_offset

KEYS = ["m", "p", "b", "u", "vk", "vl", "pre", "at", "act", "al", "acl", "ch", "cut", "end", "seg", "uob"]
PREVIEWS = ["n", "0", "5", "100", "4096"]
BACKUP = 65536          # BodyPipe::MaxCapacity == TheBackupLimit


def _lcg(n, seed):
    out = bytearray(n)
    x = seed & 0xFFFFFFFF
    for i in range(n):
        x = (x * 1664525 + 1013904223) & 0xFFFFFFFF
        out[i] = 97 + ((x >> 24) % 26) if (x >> 13) & 7 else 48 + ((x >> 20) % 10)
    return bytes(out)


_cache = {}


def vbody(n):
    k = ("v", n)
    if k not in _cache:
        _cache[k] = _lcg(n, 0x51ed27 + 7 * n)
    return _cache[k]


def abody(n):
    k = ("a", n)
    if k not in _cache:
        _cache[k] = _lcg(n, 0xa5a5a5 + 13 * n).upper()
    return _cache[k]


def parse(line):
    toks = line.split(" ")
    if len(toks) != len(KEYS):
        return None
    d = {}
    for k, t in zip(KEYS, toks):
        if not t.startswith(k + "="):
            return None
        d[k] = t[len(k) + 1:]
    try:
        for k in ("b", "u", "vl", "pre", "al", "acl", "ch", "seg", "uob"):
            d[k] = int(d[k])
    except ValueError:
        return None
    if d["m"] not in ("rq", "rs") or d["p"] not in PREVIEWS or d["vk"] not in ("n", "k", "u") or d["end"] not in ("k", "c", "r"):
        return None
    if not re.fullmatch(r"h|p|e|c\d+", d["at"]) or not re.fullmatch(r"204|200|200n|200r|206|200x|206x|e\d{3}|g|x|r|100", d["act"]):
        return None
    if not re.fullmatch(r"-|[itb]\d+|z|y", d["cut"]):
        return None
    if d["vk"] == "n" and (d["vl"] or d["pre"]):
        return None
    if d["pre"] > d["vl"] or d["vl"] > 400000 or d["al"] > 400000:
        return None
    if d["at"] not in ("h", "p") and d["pre"] != d["vl"]:
        return None      # the stub would wait for body bytes that are held back until it acts
    if d["cut"] != "-" and d["end"] == "k":
        return None      # a cut reply on an open connection only ends with the I/O timeout
    return d


def fmt(d):
    return " ".join("%s=%s" % (k, d[k]) for k in KEYS)


def service_name(d):
    return "%s_p%s_u%d_b%d" % (d["m"], d["p"], d["u"], d["b"])


def rel(got, ref):
    if got == ref:
        return "eq"
    if ref.startswith(got):
        return "p%d" % len(got)
    return "no"


def adapted_expected(d):
    """the adapted message body the ICAP service asked for"""
    a = abody(d["al"])
    if d["act"] == "206":
        return a + vbody(d["vl"])[d["uob"]:]
    if d["act"] == "200n":
        return b""
    return a


class Harness:
    def __init__(self, stage, pconn=False):
        self.origin = rig.Origin()
        self.icap = IcapStub()
        conf = ["cache deny all", "icap_enable on", "icap_preview_enable on", "icap_206_enable on",
                "icap_persistent_connections " + ("on" if pconn else "off"), "icap_service_failure_limit -1",
                "adaptation_send_client_ip off", "icap_io_timeout 20 seconds", "icap_connect_timeout 10 seconds",
                os.environ.get("C60_SQUID_CONF", "")]
        names = []
        for m in ("rq", "rs"):
            for p in PREVIEWS:
                for u in (0, 1):
                    for b in (0, 1):
                        n = "%s_p%s_u%d_b%d" % (m, p, u, b)
                        names.append(n)
                        conf.append("icap_service %s %s_precache %s bypass=%d" % (n, "reqmod" if m == "rq" else "respmod", self.icap.uri(n), b))
        for n in names:
            conf.append("acl a_%s urlpath_regex /%s/" % (n, n))
            conf.append("adaptation_access %s allow a_%s" % (n, n))
        self.stage = stage
        self.conf = "\n".join(conf) + "\n"
        self.names = names
        self.squid = None
        self.n = 0
        self.lock = threading.Lock()
        self.crashes = 0
        self.restarts = 0
        self.start_squid()

    def start_squid(self):
        """(re)start squid -- main thread only"""
        if self.squid is not None:
            try:
                self.squid.stop(kill=True)
            except Exception:
                pass
        with self.icap.lock:
            del self.icap.options_seen[:]
        for attempt in range(4):
            try:
                self.squid = rig.Squid(self.stage, conf=self.conf).start(wait=90)
                break
            except RuntimeError:
                if attempt == 3:
                    raise
        names = self.names
        # wait until every service has fetched its OPTIONS (squid treats a service without options as down)
        t0 = time.time()
        while time.time() - t0 < 30 * rig.VERIF_SLOW:
            with self.icap.lock:
                got = set(self.icap.options_seen)
            if got >= set(names):
                break
            time.sleep(0.05)
        time.sleep(0.2)

    def one(self, line):
        d = parse(line)
        if d is None:
            return "bad-op"
        with self.lock:
            self.n += 1
            sid = "c%dx%d" % (os.getpid() % 100000, self.n)
        svc = service_name(d)
        V = vbody(d["vl"])
        A = abody(d["al"])
        gate = "g-" + sid
        url = self.origin.url(sid, svc + "/x")
        host = "127.0.0.1:%d" % self.origin.port
        # ---- ICAP behaviour
        if d["m"] == "rs" or d["act"] == "200r":
            ahead = b"HTTP/1.1 200 OK\r\nDate: " + rig.date_now().encode() + b"\r\nX-Mark: A\r\nContent-Type: text/plain\r\n"
        else:
            ahead = ("POST %s HTTP/1.1\r\nHost: %s\r\nX-Mark: A\r\nContent-Type: text/plain\r\n" % (url, host)).encode()
        if d["act"] == "200n":
            ahead += b"Content-Length: 0\r\n" if d["acl"] else b""
        elif d["acl"]:
            ahead += b"Content-Length: %d\r\n" % len(adapted_expected(d))
        ahead += b"\r\n"
        beh = {"at": d["at"], "act": d["act"], "head": ahead, "body": A, "chunk": d["ch"], "cut": None,
               "end": d["end"], "seg": d["seg"], "uob": d["uob"], "gate": gate}
        if d["cut"] != "-":
            parts = reply_parts("RESPMOD" if d["m"] == "rs" else "REQMOD", beh, self.icap.istag)
            if parts is not None:
                ih, hh, bs = parts
                k, n = d["cut"][0], int(d["cut"][1:] or 0)
                if k == "i":
                    beh["cut"] = min(n, len(ih))
                elif k == "t":
                    beh["cut"] = len(ih) + min(n, max(len(hh) - 1, 0))
                elif k == "b":
                    beh["cut"] = len(ih) + len(hh) + (0 if n == 0 or not bs else body_offset(len(A), d["ch"], min(n, len(A)) or None))
                elif k == "z":
                    beh["cut"] = len(ih) + len(hh) + (body_offset(len(A), d["ch"], None) if bs else 0)
                else:
                    beh["cut"] = len(ih) + len(hh) + (body_offset(len(A), d["ch"], None) + 3 if bs else 0)
        self.icap.on(sid, beh)
        T = 12 * rig.VERIF_SLOW
        # ---- origin behaviour
        if d["m"] == "rs":
            head = b"HTTP/1.1 200 OK\r\nDate: " + rig.date_now().encode() + b"\r\nX-Mark: V\r\nContent-Type: text/plain\r\n"
            if d["vk"] == "n":
                acts = [("send", head + b"Content-Length: 0\r\n\r\n")]
            elif d["vk"] == "k":
                acts = [("send", head + b"Content-Length: %d\r\n\r\n" % len(V) + V[:d["pre"]])]
                if d["pre"] < len(V):
                    acts += [("wait_event", gate, 10), ("send", V[d["pre"]:])]
            else:
                first = head + b"Transfer-Encoding: chunked\r\n\r\n"
                if d["pre"]:
                    first += b"%x\r\n" % d["pre"] + V[:d["pre"]] + b"\r\n"
                if d["pre"] < len(V):
                    acts = [("send", first), ("wait_event", gate, 10), ("send", b"%x\r\n" % (len(V) - d["pre"]) + V[d["pre"]:] + b"\r\n0\r\n\r\n")]
                else:
                    acts = [("send", first + b"0\r\n\r\n")]     # one write: the end of the body is known before the ICAP transaction starts
            self.origin.on(sid, lambda req: acts)
        else:
            self.origin.on(sid, lambda req: [("send", rig.simple_response(200, b"origin-reply", headers=[("X-Mark", "O")]))])
        # ---- client
        c = rig.Client(self.squid.port, timeout=12)
        if d["m"] == "rs":
            c.send(("GET %s HTTP/1.1\r\nHost: %s\r\nConnection: close\r\n\r\n" % (url, host)).encode())
        else:
            rh = ("POST %s HTTP/1.1\r\nHost: %s\r\nX-Mark: V\r\nContent-Type: text/plain\r\nConnection: close\r\n" % (url, host)).encode()
            if d["vk"] == "n":
                c.send(rh + b"Content-Length: 0\r\n\r\n")
            elif d["vk"] == "k":
                c.send(rh + b"Content-Length: %d\r\n\r\n" % len(V) + V[:d["pre"]])
                if d["pre"] < len(V):
                    self.icap.event(gate).wait(timeout=10 * rig.VERIF_SLOW)
                    c.send(V[d["pre"]:])
            else:
                first = rh + b"Transfer-Encoding: chunked\r\n\r\n"
                if d["pre"]:
                    first += b"%x\r\n" % d["pre"] + V[:d["pre"]] + b"\r\n"
                if d["pre"] < len(V):
                    c.send(first)
                    self.icap.event(gate).wait(timeout=10 * rig.VERIF_SLOW)
                    c.send(b"%x\r\n" % (len(V) - d["pre"]) + V[d["pre"]:] + b"\r\n0\r\n\r\n")
                else:
                    c.send(first + b"0\r\n\r\n")
        r = c.response()
        c.close()
        self.icap.event(gate).set()
        if r is None:
            time.sleep(0.3)      # a dying squid needs a moment to be seen as dead
        if d["m"] == "rs":
            # the origin thread may still be blocked in its gate wait; nothing to collect from it
            pass
        if not self.squid.alive():
            return "abort:squid-died"
        Aexp = adapted_expected(d)
        # ---- canonical observation
        if r is None:
            cobs = "0:-:0:-:-:0"
        else:
            mark = rig.hget(r["hdrs"], "x-mark", None)
            if rig.hget(r["hdrs"], "x-squid-error") is not None:
                mark = "E"
            mark = mark or "-"
            cobs = "%d:%s:%d:%s:%s:%d" % (r["status"], mark, len(r["body"]), rel(r["body"], V), rel(r["body"], Aexp), 1 if r["complete"] else 0)
        reqs = self.origin.requests(sid)
        if d["m"] == "rq" and not reqs:
            # an aborted request body may still be on its way into the origin stub's record
            t0 = time.time()
            while time.time() - t0 < 0.3 and not reqs:
                time.sleep(0.02)
                reqs = self.origin.requests(sid)
        if reqs:
            q = reqs[0]
            oobs = "%d:%s:%d:%s:%s:%d" % (len(reqs), rig.hget(q["hdrs"], "x-mark", "-"), len(q["body"]), rel(q["body"], V), rel(q["body"], Aexp), 1 if q["body_complete"] else 0)
        else:
            oobs = "0:-:0:-:-:0"
        recs = self.icap.records(sid)
        saw = "-"
        did = "-"
        if recs:
            k = recs[-1]
            got = k["preview"] + k["rest"]
            saw = "ok" if V.startswith(got) else "BAD"
            did = ",".join(k["did"]) or "-"
            vm = b"X-Mark: V" in (k["parts"].get("res-hdr", b"") if d["m"] == "rs" else k["parts"].get("req-hdr", b""))
            if not vm:
                saw = "BADHDR"
        self.icap.forget(sid)
        return "c=%s o=%s i=%d:%s:%s" % (cobs, oobs, len(recs), saw, did)

    def batch(self, lines, workers):
        with ThreadPoolExecutor(max_workers=workers) as ex:
            return list(ex.map(rig.guarded(self.one, [self.squid]), lines))

    def run(self, lines):
        outs = self.batch(lines, int(os.environ.get("C60_WORKERS", "6")))
        # a scenario that kills squid takes its neighbours down with it: restart and replay the casualties one by one
        rounds = 0
        while not self.squid.alive() and rounds < 3:
            rounds += 1
            dead = [i for i, o in enumerate(outs) if o.startswith("abort:") or o.startswith("c=0:")]
            self.restarts += 1
            self.start_squid()
            for i in dead:
                if self.restarts > 40:
                    break
                outs[i] = self.batch([lines[i]], 1)[0]
                if not self.squid.alive():
                    probs = self.squid.problems()
                    outs[i] = "abort:squid-died " + (re.sub(r"\s+", "_", probs[0])[:120] if probs else "")
                    self.crashes += 1
                    self.restarts += 1
                    self.start_squid()
        return outs

    def close(self):
        if self.squid:
            self.squid.stop()
        self.origin.close()
        self.icap.close()


class DevStage:
    """minimal stand-in for vf.stage.Stage when running this file by hand: python3 harness/c60.py <stage dir> < lines"""

    def __init__(self, d):
        self.dir = d
        self.repo = os.path.join(d, "repo")
        self.work = os.path.join(d, "work")
        os.makedirs(self.work, exist_ok=True)


if __name__ == "__main__":
    st = DevStage(sys.argv[1])
    h = Harness(st)
    try:
        lines = [l.rstrip("\n") for l in sys.stdin if l.strip() and not l.startswith("#")]
        for l, o in zip(lines, h.run(lines)):
            print(l)
            print("   -> " + o)
        if "--log" in sys.argv:
            open("/tmp/c60_cache.log","w").write(h.squid.cache_log())
    finally:
        h.close()
