"""C47 end-to-end harness: the staged squid with a url_rewrite / external_acl helper whose every byte is scripted by the check.

The helper process is e2e/helpers/c47_relay.py (a relay); the "brain" below sees every request line Squid writes and decides
every write(2) of the helper; each write is acknowledged only after Squid has consumed it, so one write == one helperHandleRead.

Scenario line (shared with the in-process harness and the Lean driver):
    <E|U> <rw|acl> c=<concurrency> b=<base> n=<N> <hex read>,<hex read>,...        ("-" = no reads)
  N requests are submitted first (ids base+1..base+N when concurrent), then the reads are delivered one by one.
  Inside the hex reads the ASCII placeholders PPPPP (origin port) and XXXXXX (run id) are substituted by equally long strings.
Observation: `d:<t1>,<t2>,...,<tN>` in request order (concurrent) / helper dispatch order (non-concurrent); token per request:
    .        no helper reply was applied within the window (request still waiting)
    =        forwarded with its own URL unchanged (reply without rewrite: ERR / OK / unusable)
    r<tag>   forwarded to .../r<tag>  (rw)          a<tag> allowed with log=<tag> / x<tag> denied with log=<tag> (acl)
    e<code>  answered locally with <code> and no tag
"""
import os, re, socket, threading, time, select, subprocess, sys
from e2e import rig

RELAY = os.path.join(os.path.dirname(os.path.dirname(os.path.abspath(__file__))), "e2e", "helpers", "c47_relay.py")
RELAY_C = os.path.join(os.path.dirname(RELAY), "c47_relay.c")
CONC = 60


def build_relay(stage):
    """the stub as a command line for squid.conf: the C relay compiled into the stage's work dir (python relay as a fallback)"""
    exe = os.path.join(stage.work, "c47_relay")
    os.makedirs(stage.work, exist_ok=True)
    if not os.path.exists(exe):
        r = subprocess.run(["gcc", "-O1", "-o", exe + ".tmp%d" % os.getpid(), RELAY_C], capture_output=True, text=True)
        if r.returncode == 0:
            os.chmod(exe + ".tmp%d" % os.getpid(), 0o755)
            os.replace(exe + ".tmp%d" % os.getpid(), exe)
    if os.path.exists(exe):
        return exe
    py = "/usr/bin/python3" if os.path.exists("/usr/bin/python3") else sys.executable
    return "%s -S -E %s" % (py, RELAY)


class Brain:
    """control server for one relay at a time"""

    def __init__(self, path):
        self.path = path
        try:
            os.unlink(path)
        except OSError:
            pass
        self.srv = socket.socket(socket.AF_UNIX, socket.SOCK_STREAM)
        self.srv.bind(path)
        os.chmod(path, 0o777)
        self.srv.listen(8)
        self.cv = threading.Condition()
        self.conn = None
        self.gen = 0
        self.lines = []
        self.partial = b""
        self.acks = []
        self.eof = False
        self.running = True
        threading.Thread(target=self._accept, daemon=True).start()

    def _accept(self):
        while self.running:
            try:
                c, _ = self.srv.accept()
            except OSError:
                return
            f = c.makefile("rb")
            hello = f.readline()
            with self.cv:
                self.conn, self.lines, self.partial, self.acks, self.eof = c, [], b"", [], False
                self.gen += 1
                g = self.gen
                self.cv.notify_all()
            threading.Thread(target=self._reader, args=(c, f, g), daemon=True).start()

    def _reader(self, c, f, g):
        while True:
            try:
                h = f.readline()
            except OSError:
                h = b""
            with self.cv:
                if g != self.gen:
                    return
                if not h or h.startswith(b"E"):
                    self.eof = True
                    self.cv.notify_all()
                    if not h:
                        return
                    continue
                if h.startswith(b"I "):
                    d = f.read(int(h[2:]))
                    self.partial += d
                    while b"\n" in self.partial:
                        l, self.partial = self.partial.split(b"\n", 1)
                        self.lines.append(l)
                elif h.startswith(b"A "):
                    self.acks.append(int(h[2:]))
                self.cv.notify_all()

    def wait(self, pred, timeout):
        end = time.time() + timeout * rig.VERIF_SLOW
        with self.cv:
            while not pred():
                left = end - time.time()
                if left <= 0:
                    return False
                self.cv.wait(left)
            return True

    def connected(self):
        return self.conn is not None and not self.eof

    def nlines(self):
        return len(self.lines)

    def write(self, data, timeout=6.0):
        """one write(2) by the helper; returns bytes left unread by Squid (0 normally), None on failure"""
        with self.cv:
            if self.conn is None or self.eof:
                return None
            k = len(self.acks)
            try:
                self.conn.sendall(b"W %d\n" % len(data) + data)
            except OSError:
                return None
        if not self.wait(lambda: len(self.acks) > k or self.eof, timeout):
            return None
        with self.cv:
            return self.acks[k] if len(self.acks) > k else None

    def kill(self):
        with self.cv:
            c = self.conn
            if c is None:
                return
            try:
                c.sendall(b"Q\n")
            except OSError:
                pass
        self.wait(lambda: self.eof, 2.0)
        with self.cv:
            try:
                c.close()
            except OSError:
                pass
            self.conn = None
            self.gen += 1
            self.lines, self.partial, self.acks, self.eof = [], b"", [], False

    def close(self):
        self.running = False
        self.kill()
        try:
            self.srv.close()
        except OSError:
            pass


_runid = [0]
_rlock = threading.Lock()


def new_runid():
    with _rlock:
        _runid[0] += 1
        return "%06d" % (_runid[0] % 1000000)


class Instance:
    """one squid + one helper of the given kind and concurrency"""

    def __init__(self, stage, origin, kind, conc, relay=RELAY):
        self.stage, self.origin, self.kind, self.conc, self.relay = stage, origin, kind, conc, relay
        self.lock = threading.Lock()
        self.squid = None
        self.brain = None
        self.k = 0
        self.start()

    def start(self):
        t0 = time.time()
        try:
            self._start()
        finally:
            if os.environ.get("C47_TIMES"):
                print("  start %.2fs" % (time.time() - t0), flush=True)

    def _start(self):
        if self.squid is not None:
            self.stop()
        self.k += 1
        os.makedirs(self.stage.work, exist_ok=True)
        sock = os.path.join(self.stage.work, "c47-%d-%s-%d-%d.sock" % (os.getpid(), self.kind, id(self) % 100000, self.k))
        self.brain = Brain(sock)
        if self.kind == "rw":
            conf = ("url_rewrite_program %s %s rw\nurl_rewrite_children 1 startup=0 idle=1 concurrency=%d queue-size=200\n"
                    "url_rewrite_access deny manager\ncache deny all\n" % (self.relay, sock, self.conc))
            access = "http_access allow all\n"
            logformat = "squid"
        else:
            conf = ("external_acl_type ext ttl=0 negative_ttl=0 cache=0 children-max=1 children-startup=0 children-idle=1 concurrency=%d queue-size=200 %%URI %s %s acl\n"
                    "acl e external ext\ncache deny all\nlogformat c47 %%ru %%>Hs %%ea\naccess_log stdio:{dir}/c47.log c47\n" % (self.conc, self.relay, sock))
            access = "http_access allow manager\nhttp_access allow e\nhttp_access deny all\n"
            logformat = "squid"
        conf += "mime_table /dev/null\n"     # no icons to load: the instance starts several times faster
        for attempt in range(5):
            try:
                self.squid = rig.Squid(self.stage, conf=conf, access=access, logformat=logformat).start()
                break
            except RuntimeError:       # e.g. the free port found a moment ago was taken meanwhile
                if attempt == 4:
                    raise
        self.last = 0     # last channel id used on the current helper session
        if not hasattr(self, "rtt"):
            self.rtt = 0.05   # recent client->squid->helper->origin->client round trip: every wait below scales with it
        self.calibrate()

    def calibrate(self):
        """one plain transaction through the helper: measures the round trip the waits are scaled with"""
        try:
            t0 = time.time()
            c, url = self.client("cal%d" % self.k, "x")
            if self.brain.wait(lambda: self.brain.connected() and any(url.encode() in l for l in self.brain.lines), 20.0):
                l = [x for x in self.brain.lines if url.encode() in x][0]
                i = self.line_id(l)
                self.brain.write((b"%d ERR\n" % i) if self.conc and i is not None else b"ERR\n")
                if self.conc and i is not None:
                    self.last = max(self.last, i)
                if self.finish(c, 20.0) is not None:
                    self.rtt = max(self.rtt, time.time() - t0)
            c.close()
        except OSError:
            pass

    def patience(self):
        """how long to wait for something that normally takes one round trip (grows with the load of the machine)"""
        return max(0.4, 12 * self.rtt) / rig.VERIF_SLOW

    def stop(self):
        try:
            self.brain.close()
        except Exception:
            pass
        try:
            self.squid.stop(kill=True)
        except Exception:
            pass
        self.squid = None

    # ---- pieces ------------------------------------------------------------------------------------------------
    def fresh_helper(self):
        """end the helper process and wait until Squid has noticed (it starts a new one with the next request)"""
        was = self.brain.connected()
        before = self.squid.cache_log().count(" exited")
        self.brain.kill()
        self.last = 0
        if was:
            t_end = time.time() + 2.0 * rig.VERIF_SLOW
            while self.squid.cache_log().count(" exited") <= before and time.time() < t_end and self.squid.alive():
                time.sleep(0.003)

    def client(self, run, name):
        url = self.origin.url(run, name)
        c = rig.Client(self.squid.port, timeout=5.0)
        c.send(("GET %s HTTP/1.1\r\nHost: 127.0.0.1:%d\r\nConnection: close\r\n\r\n" % (url, self.origin.port)).encode())
        return c, url

    @staticmethod
    def finish(c, timeout):
        """-> response dict or None (no response within the window)"""
        r, _, _ = select.select([c.s], [], [], max(0.0, timeout * rig.VERIF_SLOW))
        if not r and not c.rest:
            return None
        return c.response(timeout=2.0)

    def line_id(self, l):
        m = re.match(rb"(\d+) ", l)
        return int(m.group(1)) if m else None

    def burn(self, run, upto):
        """advance the session's channel counter to `upto` with requests answered at once (one whole line per write)"""
        while self.last < upto:
            k = min(40, upto - self.last) if self.conc else 1
            base = self.brain.nlines() if self.brain.connected() else 0
            cs = [self.client(run, "burn%d_%d" % (self.last, i))[0] for i in range(k)]
            if not self.brain.wait(lambda: self.brain.connected() and self.brain.nlines() >= base + k, 5.0):
                for c in cs:
                    c.close()
                return False
            ids = [self.line_id(l) for l in self.brain.lines[base:base + k]]
            if self.conc:
                self.brain.write(b"".join(b"%d ERR\n" % i for i in ids))
            else:
                self.brain.write(b"ERR\n")
            for c in cs:
                self.finish(c, 3.0)
                c.close()
            self.last = max([i for i in ids if i is not None] + [self.last + k])
        return True

    def resync(self, run, ids):
        """bring a concurrent session back to 'between replies, nothing waiting' without restarting anything: end the current
        line, answer every channel of the scenario once more (whole lines; unknown channels are dropped by Squid), then prove
        with a fence request that a reply reaches its request again"""
        if not self.brain.connected() or self.brain.write(b"\n") != 0:
            return False
        for k in range(0, len(ids), 30):
            if self.brain.write(b"".join(b"%d ERR\n" % i for i in ids[k:k + 30])) != 0:
                return False
        lf = self.brain.nlines()
        fc, furl = self.client(run, "fence2")
        ok = False
        if self.brain.wait(lambda: any(furl.encode() in l for l in self.brain.lines[lf:]) or self.brain.eof, self.patience()):
            fl = [l for l in self.brain.lines[lf:] if furl.encode() in l]
            if fl and self.line_id(fl[0]) is not None:
                fid = self.line_id(fl[0])
                self.brain.write(b"%d ERR\n" % fid)
                self.last = max(self.last, fid)
                ok = self.finish(fc, self.patience()) is not None
        fc.close()
        return ok

    # ---- a scenario ----------------------------------------------------------------------------------------------
    def run(self, conc, base, n, reads):
        with self.lock:
            for attempt in range(3):
                t0 = time.time()
                out = self._run(conc, base, n, reads)
                if os.environ.get("C47_TIMES"):
                    print("  inner %.2fs %s" % (time.time() - t0, out[:40]), flush=True)
                if not out.startswith("retry"):
                    return out
                self.start()
            return "abort:" + out

    def _run(self, conc, base, n, reads):
        t_pre = time.time()
        if not self.squid.alive():
            self.start()
        run = new_runid()
        # placeholders are substituted in the whole stream (equal lengths), then the stream is cut at the same offsets again
        whole = b"".join(reads).replace(b"PPPPP", b"%05d" % self.origin.port).replace(b"XXXXXX", run.encode())
        reads2, p = [], 0
        for r in reads:
            reads2.append(whole[p:p + len(r)])
            p += len(r)
        reads = reads2
        want_base = base if conc else 0
        if conc:
            if self.last > base:
                self.fresh_helper()
            if self.last < base and not self.burn(run, base):
                return "retry:burn"
            if self.last != base:
                return "retry:base %d != %d" % (self.last, base)
        T = [time.time()]
        if os.environ.get("C47_TIMES"):
            print("  pre %.2f base=%d" % (T[0] - t_pre, base), flush=True)
        # submit
        l0 = self.brain.nlines() if self.brain.connected() else 0
        clients = []
        for j in range(n):
            c, url = self.client(run, "q%d" % (j + 1))
            clients.append((c, url))
            if conc:
                if not self.brain.wait(lambda: self.brain.connected() and self.brain.nlines() >= l0 + j + 1, 5.0):
                    return "retry:request %d did not reach the helper" % (j + 1)
                if self.line_id(self.brain.lines[l0 + j]) != base + j + 1 or url.encode() not in self.brain.lines[l0 + j]:
                    return "retry:unexpected request line %r" % self.brain.lines[l0 + j]
            else:
                time.sleep(0.004 * rig.VERIF_SLOW)
        self.last = base + n
        T.append(time.time())
        # the scripted reads
        eoms = 0
        anomalous = write_failed = False
        for r in reads:
            if not conc:
                # a non-concurrent helper answers after it has been asked (the first wait includes starting the helper process)
                self.brain.wait(lambda: self.brain.connected() and self.brain.nlines() - l0 > eoms, 5.0 if eoms == 0 else 0.5)
            left = self.brain.write(r)
            if left is None or left != 0:
                anomalous = write_failed = True
                break
            eoms += r.count(b"\n")
        T.append(time.time())
        # fence: one more request answered in one write; when it completes, every earlier delivery has been acted upon
        fence_ok = False
        midline = bool(reads) and not reads[-1].endswith(b"\n")
        # (a stream that stops in the middle of a line gets no fence: the fence's reply would become part of that line)
        if not anomalous and self.brain.connected() and not midline:
            lf = self.brain.nlines()
            t_f = time.time()
            fc, furl = self.client(run, "fence")
            if self.brain.wait(lambda: any(furl.encode() in l for l in self.brain.lines[lf:]) or self.brain.eof, self.patience()):
                fl = [l for l in self.brain.lines[lf:] if furl.encode() in l]
                if fl:
                    fid = self.line_id(fl[0])
                    self.brain.write((b"%d ERR\n" % fid) if conc else b"ERR\n")
                    if conc:
                        self.last = max(self.last, fid)
                    fence_ok = self.finish(fc, self.patience()) is not None
                    if fence_ok:
                        self.rtt = max(time.time() - t_f, 0.8 * self.rtt)
            fc.close()
        T.append(time.time())
        # collect
        results = []
        grace = self.patience() * (0.6 if fence_ok else 1.0)
        t_end = time.time() + grace * rig.VERIF_SLOW
        for c, url in clients:
            resp = self.finish(c, max(0.0, t_end - time.time()) / rig.VERIF_SLOW)
            results.append(resp)
            c.close()
        toks = []
        seen = self.origin.requests(run)
        by_client = {}
        alog = ""
        if self.kind == "acl":
            # the access.log record is written when the transaction ends, which may be a moment after the client has its reply
            want = [url for (c, url), resp in zip(clients, results) if resp is not None]
            t_log = time.time() + 1.0 * rig.VERIF_SLOW
            while True:
                try:
                    alog = open(os.path.join(self.squid.dir, "c47.log"), errors="replace").read()
                except OSError:
                    alog = ""
                have = set(l.split(" ")[0] for l in alog.splitlines())
                if all(u in have for u in want) or time.time() > t_log:
                    break
                time.sleep(0.005)
        for j, ((c, url), resp) in enumerate(zip(clients, results)):
            name = "q%d" % (j + 1)
            if resp is None:
                toks.append(".")
                anomalous = True
                continue
            body = resp["body"]
            m = re.match(rb"path=/s\w+/(\w+)", body)
            if self.kind == "rw":
                if m:
                    p = m.group(1).decode()
                    toks.append("=" if p == name else p if p.startswith("r") else "?" + p)
                else:
                    toks.append("e%d" % resp["status"])
            else:
                tag = None
                for l in alog.splitlines():
                    f = l.split(" ")
                    if f[0] == url and len(f) >= 3:
                        tag = f[2]
                if m:
                    toks.append("a" + tag if tag and tag != "-" else "=")
                else:
                    toks.append("x" + tag if tag and tag != "-" else "e%d" % resp["status"])
        if not conc:
            # report in helper dispatch order; never-dispatched requests follow in client order
            order = []
            for l in self.brain.lines[l0:] if self.brain.connected() or self.brain.lines else []:
                for j, (c, url) in enumerate(clients):
                    if url.encode() in l and j not in order:
                        order.append(j)
            order += [j for j in range(n) if j not in order]
            toks = [toks[j] for j in order]
        T.append(time.time())
        if os.environ.get("C47_TIMES"):
            print("  phases submit/reads/fence/collect " + " ".join("%.2f" % (b - a) for a, b in zip(T, T[1:])) + " fence_ok=%s wf=%s" % (fence_ok, write_failed), flush=True)
        if not self.squid.alive():
            out = "abort:squid-died " + ";".join(self.squid.problems()[:2])
            self.start()
            return out.replace(" ", "_")
        if write_failed or not fence_ok:
            # the session may be in the middle of a reply, and requests may be left waiting inside Squid
            if not (conc and not write_failed and not midline and self.resync(run, list(range(base + 1, self.last + 2)))):
                self.start()
        return "d:" + ",".join(toks)


def origin_handler(req):
    path = req["first"].split(" ")[1]
    path = re.sub(r"^http://[^/]+", "", path)
    return [("send", rig.simple_response(200, ("path=" + path).encode()))]


class E2E:
    def __init__(self, stage, per_key=3):
        self.stage = stage
        self.origin = rig.Origin()
        self.origin.handlers = _Default(origin_handler)
        self.per_key = per_key
        self.relay = build_relay(stage)
        self.pool = {}
        self.plock = threading.Lock()
        self.rr = {}

    def instance(self, kind, conc):
        key = (kind, conc)
        with self.plock:
            lst = self.pool.setdefault(key, [])
            i = self.rr.get(key, 0)
            self.rr[key] = i + 1
            if len(lst) < self.per_key:
                inst = Instance(self.stage, self.origin, kind, conc, self.relay)
                lst.append(inst)
                return inst
            return lst[i % len(lst)]

    def one(self, line):
        try:
            impl, kind, c, b, n, rs = line.split(" ")
            conc, base, n = int(c[2:]), int(b[2:]), int(n[2:])
            reads = [] if rs == "-" else [bytes.fromhex(x) for x in rs.split(",")]
            if kind not in ("rw", "acl") or not c.startswith("c=") or n > 40 or base > 100000:
                raise ValueError
        except ValueError:
            return "bad-op"
        if conc not in (0, CONC):
            return "bad-op"
        inst = self.instance(kind, conc)
        try:
            t0 = time.time()
            out = inst.run(conc, base, n, reads)
            if os.environ.get("C47_TIMES"):
                print("%.2fs %s b=%d n=%d reads=%d %s" % (time.time() - t0, kind, base, n, len(reads), out[:50]), flush=True)
            return out
        except Exception as e:
            return "abort:harness " + re.sub(r"\s+", "_", repr(e))[:160]

    def close(self):
        for lst in self.pool.values():
            for i in lst:
                i.stop()
        self.pool = {}
        self.origin.close()


class _Default(dict):
    def __init__(self, fn):
        super().__init__()
        self.fn = fn

    def get(self, k, d=None):
        return self.fn
