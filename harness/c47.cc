// C47 in-process harness: the real helper.cc (submit queue, dispatch, helperHandleRead, helperReturnBuffer,
// Helper::Session::popRequest) and the real helper/Reply.cc, driven read event by read event.
//
// input : U <kind> c=<concurrency> b=<base> n=<N> <hex read>,<hex read>,... | -
//         one fresh Helper::Client + one Helper::Session per line; nextRequestId=<base>; N requests are submitted with
//         helperSubmit(); then for every read the bytes are placed at rbuf+roffset (what comm_read does) and the
//         registered callback helperHandleRead is invoked with that length.
// output: d:<t1>,..,<tN> s:<roffset>/<ignoreToEom>/<serial of replyXaction|->/<stats.pending>/<nextRequestId>/<queued>[ closed]
//         t = hex of the raw accumulated reply handed to Helper::Reply::finalize() for the final callback of request j
//         ("-" = empty reply, "." = no callback happened)
#include "squid.h"
#include "helper.cc"
#include "base/AsyncCallQueue.h"
#include "CommCalls.h"

#include <iostream>
#include <string>
#include <vector>
#include <sstream>

// ---- the little of Comm the code under test touches (everything else comes from the tree's test stubs) ----
static int commReads = 0;
static char *lastReadBuf = nullptr;
static int lastReadSize = -1;
static AsyncCall::Pointer pendingRead;
void comm_read_base(const Comm::ConnectionPointer &, char *buf, int size, AsyncCall::Pointer &cb)
{
    ++commReads;
    lastReadBuf = buf;
    lastReadSize = size;
    pendingRead = cb; // Comm keeps the callback (and with it a cbdata lock on the session) until the read completes
}
static int commWrites = 0;
static AsyncCall::Pointer pendingWrite;
void Comm::Write(const Comm::ConnectionPointer &, const char *, int, AsyncCall::Pointer &cb, FREE *)
{
    ++commWrites;
    pendingWrite = cb;
}
bool Comm::IsConnOpen(const Comm::ConnectionPointer &c) { return c != nullptr && c->isOpen(); }
void Comm::Connection::close() { fd = -1; } // closePipesSafely(): the descriptor is gone; close handlers are not run here
// never reached: the harness creates the session itself instead of forking a helper process
pid_t ipcCreate(int, const char *, const char *const [], const char *, Ip::Address &, int *, int *, void **) { return -1; }

// ---- observation ----
struct Ctx {
    CBDATA_CLASS(Ctx);
public:
    explicit Ctx(int s): serial(s) {}
    int serial;
};
CBDATA_CLASS_INIT(Ctx);

static std::vector<std::string> lastRaw;   // per serial: raw bytes at the latest finalize()
static std::vector<int> calledBack;        // per serial: number of callbacks
static std::vector<std::string> delivered; // per serial: raw bytes at the callback
static Helper::Session *theSrv = nullptr;

extern "C" void __real__ZN6Helper5Reply8finalizeEv(Helper::Reply *);
extern "C" void __wrap__ZN6Helper5Reply8finalizeEv(Helper::Reply *self)
{
    // the raw accumulated reply, before the real finalize() consumes the result code and the kv-pairs
    if (theSrv && theSrv->replyXaction && &theSrv->replyXaction->reply == self) {
        auto *ctx = static_cast<Ctx *>(theSrv->replyXaction->request.data);
        const MemBuf &mb = self->other();
        std::string raw;
        if (!const_cast<MemBuf &>(mb).isNull())
            raw.assign(const_cast<MemBuf &>(mb).content(), mb.contentSize());
        if (ctx && ctx->serial >= 1 && ctx->serial <= (int)lastRaw.size())
            lastRaw[ctx->serial - 1] = raw;
    }
    __real__ZN6Helper5Reply8finalizeEv(self);
}

static void
replyCallback(void *data, const Helper::Reply &)
{
    auto *ctx = static_cast<Ctx *>(data);
    if (ctx->serial >= 1 && ctx->serial <= (int)calledBack.size()) {
        ++calledBack[ctx->serial - 1];
        delivered[ctx->serial - 1] = lastRaw[ctx->serial - 1];
    }
}

static std::string
hex(const std::string &s)
{
    if (s.empty())
        return "-";
    static const char *d = "0123456789abcdef";
    std::string o;
    for (unsigned char c : s) {
        o += d[c >> 4];
        o += d[c & 15];
    }
    return o;
}

static bool
unhex(const std::string &h, std::string &out)
{
    out.clear();
    if (h == "-")
        return true;
    if (h.size() % 2)
        return false;
    for (size_t i = 0; i < h.size(); i += 2) {
        int v = 0;
        for (int k = 0; k < 2; ++k) {
            char c = h[i + k];
            int x = (c >= '0' && c <= '9') ? c - '0' : (c >= 'a' && c <= 'f') ? c - 'a' + 10 : -1;
            if (x < 0)
                return false;
            v = v * 16 + x;
        }
        out += (char)v;
    }
    return true;
}

static void
drainWrites()
{
    // the helper accepted everything Squid wrote: complete the write(s) the way Comm does, through the stored callback
    int guard = 0;
    while (pendingWrite != nullptr && guard++ < 1000) {
        AsyncCall::Pointer cb = pendingWrite;
        pendingWrite = nullptr;
        CommIoCbParams &params = GetCommParams<CommIoCbParams>(cb);
        params.conn = theSrv->writePipe;
        params.flag = Comm::OK;
        params.xerrno = 0;
        ScheduleCallHere(cb);
        AsyncCallQueue::Instance().fire();
    }
}

/// complete the pending comm_read() with len bytes already placed in its buffer
static void
completeRead(const size_t len)
{
    AsyncCall::Pointer cb = pendingRead;
    pendingRead = nullptr;
    CommIoCbParams &params = GetCommParams<CommIoCbParams>(cb);
    params.conn = theSrv->readPipe;
    params.buf = lastReadBuf;
    params.size = len;
    params.flag = Comm::OK;
    params.xerrno = 0;
    ScheduleCallHere(cb);
    AsyncCallQueue::Instance().fire();
}

static std::string
runLine(const std::string &line)
{
    std::istringstream is(line);
    std::string impl, kind, c, b, n, rs, extra;
    if (!(is >> impl >> kind >> c >> b >> n >> rs) || (is >> extra))
        return "bad-op";
    if (c.compare(0, 2, "c=") || b.compare(0, 2, "b=") || n.compare(0, 2, "n="))
        return "bad-op";
    long conc, base, N;
    try {
        conc = std::stol(c.substr(2));
        base = std::stol(b.substr(2));
        N = std::stol(n.substr(2));
    } catch (...) {
        return "bad-op";
    }
    if (conc < 0 || conc > 1000 || base < 0 || base > 4000000000L || N < 0 || N > 200)
        return "bad-op";
    std::vector<std::string> reads;
    if (rs != "-") {
        std::stringstream ss(rs);
        std::string tok;
        while (std::getline(ss, tok, ',')) {
            std::string r;
            if (!unhex(tok, r))
                return "bad-op";
            reads.push_back(r);
        }
    }

    // --- a fresh helper client with one running session, set up like Helper::Client::openSessions() does ---
    Helper::Client::Pointer hlp = Helper::Client::Make("verif");
    hlp->childs.n_max = 1;
    hlp->childs.n_startup = 1;
    hlp->childs.n_idle = 1;
    hlp->childs.concurrency = conc;
    hlp->childs.n_running = 1;
    hlp->childs.n_active = 1;
    hlp->childs.queue_size = 1000;
    hlp->ipc_type = IPC_STREAM;
    hlp->eom = '\n';
    const auto srv = new Helper::Session;
    theSrv = srv;
    srv->hIpc = nullptr;
    srv->pid = 1;
    srv->initStats();
    srv->readPipe = new Comm::Connection;
    srv->readPipe->fd = 7;
    srv->writePipe = new Comm::Connection;
    srv->writePipe->fd = 7;
    srv->rbuf = (char *)memAllocBuf(ReadBufSize, &srv->rbuf_sz);
    srv->wqueue = new MemBuf;
    srv->roffset = 0;
    srv->nextRequestId = base;
    srv->replyXaction = nullptr;
    srv->ignoreToEom = false;
    srv->parent = hlp;
    dlinkAddTail(srv, &srv->link, &hlp->servers);
    {
        AsyncCall::Pointer call = commCbCall(5, 4, "helperHandleRead", CommIoCbPtrFun(helperHandleRead, srv));
        comm_read(srv->readPipe, srv->rbuf, srv->rbuf_sz - 1, call);
    }

    lastRaw.assign(N, std::string());
    delivered.assign(N, std::string());
    calledBack.assign(N, 0);
    std::vector<Ctx *> ctxs;
    for (long j = 1; j <= N; ++j) {
        auto *ctx = new Ctx(j);
        ctxs.push_back(ctx);
        const std::string req = "q" + std::to_string(j) + "\n";
        helperSubmit(hlp, req.c_str(), replyCallback, ctx);
        drainWrites();
    }

    bool closed = false;
    std::string note;
    for (const auto &r : reads) {
        if (srv->flags.closing) {
            closed = true;
            break;
        }
        // comm_read(readPipe, rbuf + roffset, spaceSize): the kernel returns at most spaceSize bytes per read
        if (lastReadBuf != srv->rbuf + srv->roffset || lastReadSize != (int)(srv->rbuf_sz - srv->roffset - 1)) {
            note = " bad-rearm";
            break;
        }
        if ((int)r.size() > lastReadSize || r.empty())
            return "bad-op";
        memcpy(lastReadBuf, r.data(), r.size());
        const int readsBefore = commReads;
        completeRead(r.size());
        drainWrites();
        if (srv->flags.closing)
            closed = true;
        else if (commReads != readsBefore + 1)
            note = " no-rearm";
    }

    std::string out = "d:";
    for (long j = 0; j < N; ++j) {
        if (j)
            out += ",";
        if (calledBack[j] > 1)
            out += "dup!";
        out += calledBack[j] ? hex(delivered[j]) : std::string(".");
    }
    if (!N)
        out += "-";
    std::string cur = "-";
    if (srv->replyXaction) {
        auto *ctx = static_cast<Ctx *>(srv->replyXaction->request.data);
        cur = std::to_string(ctx ? ctx->serial : 0);
    }
    out += " s:" + std::to_string(srv->roffset) + "/" + (srv->ignoreToEom ? "1" : "0") + "/" + cur + "/" +
           std::to_string(srv->stats.pending) + "/" + std::to_string(srv->nextRequestId) + "/" + std::to_string(hlp->queue.size());
    if (closed)
        out += " closed";
    out += note;
    // leak the session deliberately (one per line): tearing it down needs the real Comm close path
    theSrv = nullptr;
    pendingRead = nullptr;
    pendingWrite = nullptr;
    return out;
}

int
main(int, char **)
{
    Mem::Init();
    fde::Table = static_cast<fde *>(xcalloc(64, sizeof(fde)));
    squid_curtime = 1700000000;
    current_time.tv_sec = squid_curtime;
    std::string line;
    while (std::getline(std::cin, line)) {
        std::cout << runLine(line) << std::endl;
    }
    return 0;
}
