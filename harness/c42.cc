// C42 harness: the real ACLIP (src/acl/Ip.cc: parse -> parseGlobal / acl_ip_data::FactoryParse -> DecodeMask ->
// Acl::SplayInserter<acl_ip_data*>::Merge -> Splay<acl_ip_data*>; match -> Splay::find with aclIpAddrNetworkCompare) and
// the real Ip::Address (src/ip/Address.cc), compiled from the stage with ASan/UBSan, fed through the real
// ConfigParser::strtokFile.
//
//   a <val>,<val>,...|~  <probe>,<probe>,...|~
//        values (the ACL parameters in configuration order), each one of
//            all | ipv4 | ipv6
//            <fam><style>:<addr1>:<addr2|->:<mask|->
//                fam 4: addresses are 8 hex digits (the 32-bit IPv4 address), text = dotted quad
//                fam 6: addresses are 32 hex digits, text = hex groups; style 0 = eight groups without leading zeros,
//                       1 = longest zero run compressed to "::", 2 = eight upper-case 4-digit groups
//                mask:  n<decimal 0..999> = "/<decimal>",  d<8 hex> = "/<dotted quad>" (fam 4 only)
//        The harness renders the squid.conf text of every value ("10.0.0.0-10.0.0.255/24", "fe80::/10", ...), joins the
//        texts with single spaces into one configuration line, seeds ConfigParser with it and calls ACLIP::parse();
//        then ACLIP::match(probe) for every probe (32 hex digits = the 16 address bytes; IPv4 = ::ffff:a.b.c.d) in order.
//     -> ok <any4><any6> <events>|~ <shape> <bits>|~ <shape>
//        any4/any6 = matchAnyIpv4 / matchAnyIpv6 after parse (0/1)
//        events = what squid logged while parsing, in order, joined with ',':
//                 w  "Netmask masks away part of the specified IP"     m  "Netmasks are deprecated"
//                 n  "Ignoring <new> because it is already covered by <old>"
//                 o  "Ignoring earlier <old> because it is covered by <new>"
//                 c  "Merging overlapping <new> and <old> into <combined>"
//                 g  "'<token>' needs to be replaced by the term 'all'"
//        shape  = the splay tree after parse() / after the last match(): node = '(' left value right ')', nil = '',
//                 the empty tree = "~"; value = addr1.addr2.mask, each the 128-bit number in hex without leading zeros
//        bits   = one 0/1 per probe
//     -> reject:self-destruct   parse() called self_destruct() (bad address / bad netmask)
//     -> reject:exception       parse() threw
//     -> the process dies with a sanitizer report (the framework turns that into abort:<summary>) or with exit 87 "hang"
//        when one line takes longer than 60 s (Merge never terminates)
//   k <op> <a> <b>   Ip::Address comparison operators called directly (a, b = 32 hex digits):
//        op lt le gt ge eq cmp(matchIPAddr)  -> 0/1 (cmp: -1/0/1)
//   f <addr> <mask>  -> <addr & mask> <changed 0/1> <addr | ~mask> <cidr()> <isAnyAddr><isNoAddr><isIPv4>
#include "squid.h"
#include "acl/Ip.h"
#include "acl/Acl.h"
#include "acl/Gadgets.h"
#include "cache_cf.h"
#include "ConfigParser.h"
#include "debug/Stream.h"
#include "ip/Address.h"
#include "ip/tools.h"
#include "sbuf/SBuf.h"
#include "wordlist.h"
#include "Parsing.h"

#include <cctype>
#include <climits>
#include <csignal>
#include <cstdio>
#include <cstring>
#include <iostream>
#include <sstream>
#include <string>
#include <unistd.h>
#include <vector>

// ---- cache_cf.cc surface (what tests/stub_cache_cf.o provides), with a throwing self_destruct ----------------
const char *cfg_directive = nullptr;
const char *cfg_filename = nullptr;
int config_lineno = 0;
char config_input_line[BUFSIZ] = {};
struct SelfDestruct {};
void self_destruct(void) { throw SelfDestruct(); }
static void notNeeded(const char *what) { fprintf(stderr, "harness: unexpected call of %s\n", what); abort(); }
void parse_int(int *) { notNeeded("parse_int"); }
void parse_onoff(int *) { notNeeded("parse_onoff"); }
void parse_eol(char *volatile *) { notNeeded("parse_eol"); }
void parse_wordlist(wordlist **) { notNeeded("parse_wordlist"); }
void requirePathnameExists(const char *, const char *) {}
void parse_time_t(time_t *) { notNeeded("parse_time_t"); }
void ConfigParser::ParseUShort(unsigned short *) { notNeeded("ParseUShort"); }
void ConfigParser::ParseWordList(wordlist **) { notNeeded("ParseWordList"); }
void parseBytesOptionValue(size_t *, const char *, char const *) { notNeeded("parseBytesOptionValue"); }
void dump_acl_access(StoreEntry *, const char *, acl_access *) { notNeeded("dump_acl_access"); }
void dump_acl_list(StoreEntry *, ACLList *) { notNeeded("dump_acl_list"); }

// ---- debug sink (what tests/stub_debug.o provides) that remembers the important messages ----------------------
static std::string LastMessages;
char *Debug::debugOptions;
char *Debug::cache_log = nullptr;
int Debug::rotateNumber = 0;
int Debug::Levels[MAX_DEBUG_SECTIONS];
int Debug::override_X = 0;
bool Debug::log_syslog = false;
void Debug::ForceAlert() {}
void ResyncDebugLog(FILE *) {}
FILE *DebugStream() { return stderr; }
void _db_rotate_log(void) {}
void Debug::FormatStream(std::ostream &buf)
{
    const static std::ostringstream cleanStream;
    buf.flags(cleanStream.flags() | std::ios::fixed);
    buf.width(cleanStream.width());
    buf.precision(2);
    buf.fill(' ');
}
void Debug::LogMessage(const Context &context)
{
    if (context.level > DBG_IMPORTANT)
        return;
    LastMessages += context.buf.str();
    LastMessages += "\n";
}
std::ostream &Debug::Extra(std::ostream &os) { FormatStream(os); os << "\n    "; return os; }
bool Debug::StderrEnabled() { return false; }
void Debug::PrepareToDie() {}
void Debug::parseOptions(char const *) {}
Debug::Context *Debug::Current = nullptr;
Debug::Context::Context(const int aSection, const int aLevel):
    section(aSection), level(aLevel), sectionLevel(Levels[aSection]), upper(Current), forceAlert(false)
{
    FormatStream(buf);
}
std::ostringstream &Debug::Start(const int section, const int level)
{
    Current = new Context(section, level);
    return Current->buf;
}
void Debug::Finish()
{
    if (Current) {
        LogMessage(*Current);
        delete Current;
        Current = nullptr;
    }
}
std::ostream &ForceAlert(std::ostream &s) { return s; }

// ---- the ACL under test: ACLIP is abstract and its operator new is fatal(); a stack object of a trivial subclass ----
class TestIpAcl : public ACLIP
{
public:
    char const *typeString() const override { return "src"; }
    int match(ACLChecklist *) override { return 0; }
    int matchAddress(const Ip::Address &a) { return ACLIP::match(a); }
    const SplayNode<acl_ip_data *> *root() const { return data ? data->head : nullptr; } // -fno-access-control
    bool any4() const { return matchAnyIpv4; }
    bool any6() const { return matchAnyIpv6; }
};

// ---- line protocol ---------------------------------------------------------------------------------------
static int hexDigit(char c)
{
    if (c >= '0' && c <= '9') return c - '0';
    if (c >= 'a' && c <= 'f') return c - 'a' + 10;
    return -1;
}

static bool parseHexBytes(const std::string &h, size_t nbytes, unsigned char *out)
{
    if (h.size() != nbytes * 2) return false;
    for (size_t i = 0; i < nbytes; ++i) {
        const int a = hexDigit(h[2 * i]), b = hexDigit(h[2 * i + 1]);
        if (a < 0 || b < 0) return false;
        out[i] = static_cast<unsigned char>(a * 16 + b);
    }
    return true;
}

static std::vector<std::string> splitOn(const std::string &s, char sep)
{
    std::vector<std::string> r;
    size_t p = 0;
    for (;;) {
        const size_t q = s.find(sep, p);
        if (q == std::string::npos) { r.push_back(s.substr(p)); break; }
        r.push_back(s.substr(p, q - p));
        p = q + 1;
    }
    return r;
}

static std::string text4(const unsigned char *b)
{
    char buf[32];
    snprintf(buf, sizeof(buf), "%u.%u.%u.%u", b[0], b[1], b[2], b[3]);
    return buf;
}

static std::string text6(const unsigned char *b, int style)
{
    unsigned g[8];
    for (int i = 0; i < 8; ++i) g[i] = (b[2 * i] << 8) | b[2 * i + 1];
    char buf[8];
    std::string r;
    if (style == 2) {
        for (int i = 0; i < 8; ++i) { snprintf(buf, sizeof(buf), "%04X", g[i]); if (i) r += ':'; r += buf; }
        return r;
    }
    int bestAt = -1, bestLen = 0;
    if (style == 1) {
        for (int i = 0; i < 8;) {
            if (g[i]) { ++i; continue; }
            int j = i;
            while (j < 8 && !g[j]) ++j;
            if (j - i > bestLen) { bestLen = j - i; bestAt = i; }
            i = j;
        }
    }
    for (int i = 0; i < 8;) {
        if (i == bestAt) { r += "::"; i += bestLen; continue; }
        if (!r.empty() && r.back() != ':') r += ':';
        snprintf(buf, sizeof(buf), "%x", g[i]);
        r += buf;
        ++i;
    }
    return r;
}

/// squid.conf text of one value token; false if the token is not in the harness grammar
static bool renderValue(const std::string &tok, std::string &out)
{
    if (tok == "all" || tok == "ipv4" || tok == "ipv6") { out = tok; return true; }
    const auto f = splitOn(tok, ':');
    if (f.size() != 4 || f[0].size() != 2) return false;
    const char fam = f[0][0];
    const int style = f[0][1] - '0';
    if ((fam != '4' && fam != '6') || style < 0 || style > 2 || (fam == '4' && style != 0)) return false;
    const size_t n = fam == '4' ? 4 : 16;
    unsigned char a1[16], a2[16];
    if (!parseHexBytes(f[1], n, a1)) return false;
    out = fam == '4' ? text4(a1) : text6(a1, style);
    if (f[2] != "-") {
        if (!parseHexBytes(f[2], n, a2)) return false;
        out += '-';
        out += fam == '4' ? text4(a2) : text6(a2, style);
    }
    if (f[3] != "-") {
        if (f[3].size() < 2) return false;
        if (f[3][0] == 'n') {
            const std::string d = f[3].substr(1);
            if (d.size() > 3) return false;
            for (const char c : d) if (c < '0' || c > '9') return false;
            if (d.size() > 1 && d[0] == '0') return false; // no leading zeros
            out += '/';
            out += d;
        } else if (f[3][0] == 'd' && fam == '4') {
            unsigned char m[4];
            if (!parseHexBytes(f[3].substr(1), 4, m)) return false;
            out += '/';
            out += text4(m);
        } else
            return false;
    }
    return true;
}

static std::string hexNum(const Ip::Address &a)
{
    struct in6_addr raw;
    a.getInAddr(raw);
    static const char *d = "0123456789abcdef";
    std::string r;
    for (int i = 0; i < 16; ++i) {
        r.push_back(d[raw.s6_addr[i] >> 4]);
        r.push_back(d[raw.s6_addr[i] & 15]);
    }
    const size_t p = r.find_first_not_of('0');
    return p == std::string::npos ? "0" : r.substr(p);
}

static std::string valueText(const acl_ip_data *v)
{
    return hexNum(v->addr1) + "." + hexNum(v->addr2) + "." + hexNum(v->mask);
}

static void shapeOf(const SplayNode<acl_ip_data *> *n, std::string &out, int depth)
{
    if (!n) return;
    if (depth > 100000) { out += "!deep!"; return; }
    out += '(';
    shapeOf(n->left, out, depth + 1);
    out += valueText(n->data);
    shapeOf(n->right, out, depth + 1);
    out += ')';
}

static std::string shape(const TestIpAcl &acl)
{
    if (!acl.root()) return "~";
    std::string s;
    shapeOf(acl.root(), s, 0);
    return s;
}

/// the messages squid logged during parse(), as events
static std::string eventsOf(const std::string &log)
{
    std::string ev;
    std::istringstream is(log);
    std::string l;
    while (std::getline(is, l)) {
        const char *e = nullptr;
        if (l.find("Netmask masks away part of the specified IP") != std::string::npos) e = "w";
        else if (l.find("Netmasks are deprecated") != std::string::npos) e = "m";
        else if (l.find("WARNING: Ignoring earlier ") != std::string::npos) e = "o";
        else if (l.find("WARNING: Ignoring ") != std::string::npos) e = "n";
        else if (l.find("WARNING: Merging overlapping ") != std::string::npos) e = "c";
        else if (l.find("needs to be replaced by the term 'all'") != std::string::npos) e = "g";
        if (e) {
            if (!ev.empty()) ev += ',';
            ev += e;
        }
    }
    return ev.empty() ? "~" : ev;
}

static bool addressOf(const std::string &h, Ip::Address &out)
{
    struct in6_addr raw;
    if (!parseHexBytes(h, 16, raw.s6_addr)) return false;
    out = raw;
    return true;
}

static std::string handleA(const std::string &vals, const std::string &probesField)
{
    std::vector<std::string> texts;
    if (vals != "~") {
        for (const auto &t : splitOn(vals, ',')) {
            std::string text;
            if (!renderValue(t, text)) return "bad-op";
            texts.push_back(text);
        }
    }
    std::vector<Ip::Address> probes;
    if (probesField != "~") {
        for (const auto &h : splitOn(probesField, ',')) {
            Ip::Address a;
            if (!addressOf(h, a)) return "bad-op";
            probes.push_back(a);
        }
    }
    ConfigParser::RecognizeQuotedValues = ConfigParser::StrictMode = false;

    std::string cfg;
    for (size_t i = 0; i < texts.size(); ++i) {
        if (i) cfg += ' ';
        cfg += texts[i];
    }
    // exact-size heap buffer so that ASan sees over-reads; ConfigParser keeps pointers into it only during parse()
    char *buf = new char[cfg.size() + 1];
    memcpy(buf, cfg.c_str(), cfg.size() + 1);
    ConfigParser::SetCfgLine(buf);
    LastMessages.clear();

    TestIpAcl acl;
    std::string result;
    try {
        acl.parse();
    } catch (const SelfDestruct &) {
        result = "reject:self-destruct";
    } catch (const std::exception &e) {
        result = "reject:exception";
    }
    ConfigParser::SetCfgLine(nullptr); // frees the token copies the parser made
    delete[] buf;
    if (!result.empty())
        return result;

    const std::string events = eventsOf(LastMessages);
    const std::string shape1 = shape(acl);
    if (acl.empty() != (shape1 == "~" && !acl.any4() && !acl.any6()))
        return "harness-inconsistency:empty()";
    std::string bits;
    for (const auto &p : probes)
        bits += acl.matchAddress(p) ? '1' : '0';
    if (bits.empty()) bits = "~";
    std::string flags;
    flags += acl.any4() ? '1' : '0';
    flags += acl.any6() ? '1' : '0';
    return "ok " + flags + " " + events + " " + shape1 + " " + bits + " " + shape(acl);
}

static std::string handleK(const std::string &op, const std::string &ah, const std::string &bh)
{
    Ip::Address a, b;
    if (!addressOf(ah, a) || !addressOf(bh, b)) return "bad-op";
    if (op == "lt") return a < b ? "1" : "0";
    if (op == "le") return a <= b ? "1" : "0";
    if (op == "gt") return a > b ? "1" : "0";
    if (op == "ge") return a >= b ? "1" : "0";
    if (op == "eq") return a == b ? "1" : "0";
    if (op == "cmp") return std::to_string(a.matchIPAddr(b));
    return "bad-op";
}

static std::string handleF(const std::string &ah, const std::string &mh)
{
    Ip::Address a, m;
    if (!addressOf(ah, a) || !addressOf(mh, m)) return "bad-op";
    Ip::Address x = a;
    const int changed = x.applyMask(m);
    Ip::Address y = a;
    y.turnMaskedBitsOn(m);
    std::string r = hexNum(x) + " " + (changed ? "1" : "0") + " " + hexNum(y) + " " + std::to_string(a.cidr()) + " ";
    r += a.isAnyAddr() ? '1' : '0';
    r += a.isNoAddr() ? '1' : '0';
    r += a.isIPv4() ? '1' : '0';
    return r;
}

static std::string handle(const std::string &line)
{
    std::istringstream is(line);
    std::string op, a, b, c, extra;
    if (!(is >> op)) return "bad-op";
    if (op == "a") {
        if (!(is >> a >> b) || (is >> extra)) return "bad-op";
        return handleA(a, b);
    }
    if (op == "k") {
        if (!(is >> a >> b >> c) || (is >> extra)) return "bad-op";
        return handleK(a, b, c);
    }
    if (op == "f") {
        if (!(is >> a >> b) || (is >> extra)) return "bad-op";
        return handleF(a, b);
    }
    if (op == "t") { // debugging aid: the rendered configuration text
        if (!(is >> a)) return "bad-op";
        std::string text, all;
        for (const auto &t : splitOn(a, ',')) {
            if (!renderValue(t, text)) return "bad-op";
            if (!all.empty()) all += ' ';
            all += text;
        }
        return all;
    }
    return "bad-op";
}

static void onAlarm(int)
{
    static const char msg[] = "harness: line takes longer than 60 s (hang)\n";
    (void)!write(2, msg, sizeof(msg) - 1);
    _exit(87);
}

int main(int, char **)
{
    for (auto &l : Debug::Levels) l = DBG_IMPORTANT; // Merge() warnings are logged at level 1
    Ip::EnableIpv6 = IPV6_ON;
    signal(SIGALRM, onAlarm);
    std::string line;
    while (std::getline(std::cin, line)) {
        std::string out;
        alarm(60);
        try {
            out = handle(line);
        } catch (const std::exception &e) {
            out = std::string("exception:") + e.what();
        }
        alarm(0);
        puts(out.c_str());
        fflush(stdout);
    }
    return 0;
}
