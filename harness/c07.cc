// C07 in-process harness: the method classes and the re-forwardable statuses the retry gate reads, from the real code.
//   dump                      -> one line per Http::MethodType: "method <id> <hex image> <safe> <idem>", then
//                                "status <onerror> <code> ..." lists of Http::IsReforwardableStatus, then "relaxed <default>"
//   cls <relaxed 0|1> <hex>   -> "id=<n> safe=<0|1> idem=<0|1> image=<hex>"   (HttpRequestMethod(SBuf), as the request parser builds it)
//   rfs <onerror 0|1> <code>  -> "<0|1>"                                     (Http::IsReforwardableStatus)
//   nib <hasBody 0|1> <put> <consume> -> "<0|1>"                             (HttpRequest::bodyNibbled on a real BodyPipe)
#include "squid.h"
#include "http/RequestMethod.h"
#include "http/StatusCode.h"
#include "HttpRequest.h"
#include "MasterXaction.h"
#include "BodyPipe.h"
#include "SquidConfig.h"
#include "sbuf/SBuf.h"
#include "mem/forward.h"
#include <cstdio>
#include <cstring>
#include <string>
#include <iostream>

static std::string hexOf(const SBuf &s)
{
    if (s.isEmpty())
        return "-";
    static const char *d = "0123456789abcdef";
    std::string r;
    for (size_t i = 0; i < s.length(); ++i) {
        const unsigned char c = static_cast<unsigned char>(s[i]);
        r += d[c >> 4];
        r += d[c & 15];
    }
    return r;
}

static bool unhex(const std::string &h, std::string &out)
{
    out.clear();
    if (h == "-")
        return true;
    if (h.size() % 2)
        return false;
    for (size_t i = 0; i < h.size(); i += 2) {
        int v = 0;
        for (int k = 0; k < 2; ++k) {
            const char c = h[i + k];
            int x;
            if (c >= '0' && c <= '9') x = c - '0';
            else if (c >= 'a' && c <= 'f') x = c - 'a' + 10;
            else return false;
            v = v * 16 + x;
        }
        out += static_cast<char>(v);
    }
    return true;
}

class NullProducer: public BodyProducer
{
    CBDATA_CHILD(NullProducer);
public:
    NullProducer(): AsyncJob("C07Producer") {}
    void noteMoreBodySpaceAvailable(BodyPipe::Pointer) override {}
    void noteBodyConsumerAborted(BodyPipe::Pointer) override {}
    bool doneAll() const override { return false; }
};

class NullConsumer: public BodyConsumer
{
    CBDATA_CHILD(NullConsumer);
public:
    NullConsumer(): AsyncJob("C07Consumer") {}
    void noteMoreBodyDataAvailable(BodyPipe::Pointer) override {}
    void noteBodyProductionEnded(BodyPipe::Pointer) override {}
    void noteBodyProducerAborted(BodyPipe::Pointer) override {}
    bool doneAll() const override { return false; }
};

CBDATA_CLASS_INIT(NullProducer);
CBDATA_CLASS_INIT(NullConsumer);

static std::string nibbled(int hasBody, size_t put, size_t take)
{
    const auto mx = MasterXaction::MakePortless<XactionInitiator::initHtcp>();
    HttpRequest::Pointer req = new HttpRequest(mx);
    static NullProducer *producer = new NullProducer;
    static NullConsumer *consumer = new NullConsumer;
    if (hasBody) {
        req->body_pipe = new BodyPipe(producer);
        req->body_pipe->setBodySize(put + 1);
        std::string data(put, 'x');
        const auto stored = req->body_pipe->putMoreData(data.data(), data.size());
        if (!req->body_pipe->setConsumerIfNotLate(consumer))
            return "reject:late";
        if (take > stored)
            take = stored;
        if (take)
            req->body_pipe->consume(take);
    }
    const bool r = req->bodyNibbled();
    if (hasBody) {
        req->body_pipe->clearConsumer();
        req->body_pipe->clearProducer(false);
        req->body_pipe = nullptr;
    }
    return r ? "1" : "0";
}

int main(int argc, char **argv)
{
    Mem::Init();
    Config.onoff.relaxed_header_parser = 1;
    if (argc > 1 && !strcmp(argv[1], "dump")) {
        for (int i = Http::METHOD_NONE + 1; i < Http::METHOD_ENUM_END; ++i) {
            const HttpRequestMethod m(static_cast<Http::MethodType>(i));
            printf("method %d %s %d %d\n", i, hexOf(m.image()).c_str(), m.isHttpSafe() ? 1 : 0, m.isIdempotent() ? 1 : 0);
        }
        printf("other %d\n", static_cast<int>(Http::METHOD_OTHER));
        for (int on = 0; on < 2; ++on) {
            Config.retry.onerror = on;
            printf("status %d", on);
            for (int s = 0; s <= 1000; ++s)
                if (Http::IsReforwardableStatus(static_cast<Http::StatusCode>(s)))
                    printf(" %d", s);
            printf("\n");
        }
        return 0;
    }
    std::string line;
    while (std::getline(std::cin, line)) {
        char op[16] = "";
        int flag = 0;
        char arg[4096] = "";
        unsigned long a = 0, b = 0;
        std::string out = "bad-op";
        if (sscanf(line.c_str(), "%15s %d %4000s %lu", op, &flag, arg, &b) >= 3 && (flag == 0 || flag == 1)) {
            if (!strcmp(op, "cls")) {
                std::string tok;
                if (unhex(arg, tok) && !tok.empty()) {
                    Config.onoff.relaxed_header_parser = flag;
                    const HttpRequestMethod m(SBuf(tok.data(), tok.size()));
                    Config.onoff.relaxed_header_parser = 1;
                    out = "id=" + std::to_string(static_cast<int>(m.id())) + " safe=" + (m.isHttpSafe() ? "1" : "0") +
                          " idem=" + (m.isIdempotent() ? "1" : "0") + " image=" + hexOf(m.image());
                }
            } else if (!strcmp(op, "rfs")) {
                char *end = nullptr;
                const long code = strtol(arg, &end, 10);
                if (end && !*end && code >= 0 && code <= 100000) {
                    Config.retry.onerror = flag;
                    out = Http::IsReforwardableStatus(static_cast<Http::StatusCode>(code)) ? "1" : "0";
                }
            } else if (!strcmp(op, "nib")) {
                char *end = nullptr;
                a = strtoul(arg, &end, 10);
                if (end && !*end && a <= 4096 && b <= 4096)
                    out = nibbled(flag, a, b);
            }
        }
        puts(out.c_str());
        fflush(stdout);
    }
    return 0;
}
