"""C45 end-to-end rig: a small fixed universe of client addresses, host names, destination addresses and ports on the loopback
network 127.45.0.0/16, an origin that listens on every (destination address, port) pair, a DNS stub, and the staged squid started
once per generated configuration.

A scenario is one line:   <conf> <req> <req> ...
  <conf>  the generated squid.conf section: lines separated by `;`, the words of a line by `,`  (`-` = empty section)
  <req>   METHOD|client address|URL host|URL port or -|addresses the host resolves to, joined by + (or -)|PTR name of a numeric host or -
          optionally followed by |address to send as X-Forwarded-For
The resolution fields repeat what the universe says (the Lean model has no other source for them); a line whose fields disagree
with the universe is refused (`bad-universe`).

Observation: `reject:<class>` when squid refuses the configuration (class from the ERROR line in cache.log), `unmodelled` for
text outside the modelled grammar (decided here, before squid runs, by the same rules as the model), else one word per request:
  fwd      the request arrived at the origin exactly once and the origin's reply came back (status 200)
  deny     403 with X-Squid-Error: ERR_ACCESS_DENIED and nothing arrived at the origin
  dnsfail  503 with X-Squid-Error: ERR_DNS_FAIL and nothing arrived
  odd:...  anything else (status, X-Squid-Error, arrivals)
"""
import os, re, socket, struct, threading, time, fcntl, select, sys, subprocess

VERIF = os.path.dirname(os.path.dirname(os.path.abspath(__file__)))
if VERIF not in sys.path:
    sys.path.insert(0, VERIF)
from e2e import rig

# ------------------------------------------------------------------------------------------------ the universe

HOSTS_FILE = [("127.45.0.1", "a.example.com"), ("127.45.0.2", "b.example.com"), ("127.45.1.1", "www.sub.example.com"),
              ("127.45.2.9", "other.test")]
DNS_A = {"dyn.example.net": ["127.45.4.4"], "multi.example.net": ["127.45.2.9", "127.45.3.9"], "x-example.com": ["127.45.7.7"]}
DNS_PTR = {"127.45.5.5": "ptr.example.org"}
NX_NAMES = ["nx.example.net"]
NUMERIC = ["127.45.0.1", "127.45.5.5", "127.45.6.6", "127.45.1.1"]
ORIGIN_IPS = ["127.45.0.1", "127.45.0.2", "127.45.1.1", "127.45.2.9", "127.45.3.9", "127.45.4.4", "127.45.5.5", "127.45.6.6", "127.45.7.7"]
PORTS = [80, 443, 3128, 8080, 8081]
SRCS = ["127.0.0.1", "127.45.10.1", "127.45.10.2", "127.45.11.1", "127.46.0.1"]
LOCK_PATH = "/tmp/verif-c45-universe.lock"


def resolve(host):
    """-> (addresses, ptr name or None) the universe gives for a URL host (as written in the URL, any case)"""
    h = host.lower().rstrip(".")      # AnyP::Uri::parse removes trailing dots
    if re.fullmatch(r"\d+\.\d+\.\d+\.\d+", h):
        ptr = DNS_PTR.get(h)
        for ip, name in HOSTS_FILE:
            if ip == h:
                ptr = name
        return [h], ptr
    for ip, name in HOSTS_FILE:
        if name == h:
            return [ip], None
    if h in DNS_A:
        return list(DNS_A[h]), None
    return [], None


def all_hosts():
    return [n for _, n in HOSTS_FILE] + sorted(DNS_A) + NX_NAMES + NUMERIC


# ------------------------------------------------------------------------------------------------ DNS stub

class DnsStub:
    """A: DNS_A; PTR: DNS_PTR; AAAA / anything else for a known name: empty NOERROR; unknown names: NXDOMAIN"""

    def __init__(self):
        self.sock = None
        pid = os.getpid()
        last = None
        for i in range(200):
            cand = "127.54.%d.%d" % ((pid + i) % 250 + 1, (pid // 250 + i) % 250 + 1)
            s = socket.socket(socket.AF_INET, socket.SOCK_DGRAM)
            try:
                s.bind((cand, 53))
                self.sock, self.addr = s, cand
                break
            except OSError as e:
                last = e
                s.close()
        if self.sock is None:
            raise RuntimeError("cannot bind a DNS stub address: %s" % last)
        self.running = True
        self.queries = []
        threading.Thread(target=self._loop, daemon=True).start()

    def _loop(self):
        while self.running:
            try:
                data, peer = self.sock.recvfrom(4096)
            except OSError:
                return
            try:
                rep = self._answer(data)
            except Exception:
                rep = None
            if rep:
                try:
                    self.sock.sendto(rep, peer)
                except OSError:
                    pass

    def _answer(self, q):
        if len(q) < 12:
            return None
        tid, flags, qd = struct.unpack(">HHH", q[:6])
        if qd != 1:
            return None
        pos = 12
        labels = []
        while True:
            n = q[pos]
            pos += 1
            if n == 0:
                break
            labels.append(q[pos:pos + n].decode("latin-1").lower())
            pos += n
        qtype, qclass = struct.unpack(">HH", q[pos:pos + 4])
        question = q[12:pos + 4]
        name = ".".join(labels)
        self.queries.append((name, qtype))
        answers, count, rcode = b"", 0, 0
        if name in DNS_A:
            if qtype == 1:
                for ip in DNS_A[name]:
                    answers += b"\xc0\x0c" + struct.pack(">HHIH", 1, 1, 3600, 4) + socket.inet_aton(ip)
                    count += 1
        elif name.endswith(".in-addr.arpa") and qtype == 12:
            ip = ".".join(reversed(name[:-len(".in-addr.arpa")].split(".")))
            if ip in DNS_PTR:
                rd = b"".join(bytes([len(l)]) + l.encode() for l in DNS_PTR[ip].split(".")) + b"\0"
                answers += b"\xc0\x0c" + struct.pack(">HHIH", 12, 1, 3600, len(rd)) + rd
                count += 1
            else:
                rcode = 3
        else:
            rcode = 3
        hdr = struct.pack(">HHHHHH", tid, 0x8580 | rcode, 1, count, 0, 0)
        return hdr + question + answers

    def close(self):
        self.running = False
        try:
            self.sock.close()
        except OSError:
            pass


# ------------------------------------------------------------------------------------------------ origin on every (address, port)

class MultiOrigin(rig.Origin):
    """rig.Origin listening on every destination address x port of the universe (one accept loop over all sockets)"""

    def __init__(self):
        self.socks = []
        for ip in ORIGIN_IPS:
            for p in PORTS:
                s = socket.socket()
                s.setsockopt(socket.SOL_SOCKET, socket.SO_REUSEADDR, 1)
                s.bind((ip, p))
                s.listen(64)
                self.socks.append(s)
        self.sock = self.socks[0]
        self.port = PORTS[0]
        self.handlers = {}
        self.seen = {}
        self.events = {}
        self.lock = threading.Lock()
        self.running = True
        self.conns = 0
        self.th = threading.Thread(target=self._accept, daemon=True)
        self.th.start()

    def _accept(self):
        while self.running:
            try:
                ready, _, _ = select.select(self.socks, [], [], 0.5)
            except (OSError, ValueError):
                return
            for s in ready:
                try:
                    c, _ = s.accept()
                except OSError:
                    continue
                with self.lock:
                    self.conns += 1
                    k = self.conns
                threading.Thread(target=self._serve, args=(c, k), daemon=True).start()

    def close(self):
        self.running = False
        for s in self.socks:
            try:
                s.close()
            except OSError:
                pass


# ------------------------------------------------------------------------------------------------ scenario lines

def parse_line(line):
    """-> (conf lines as str, [req dict]) or None"""
    toks = [t for t in line.split(" ") if t]
    if not toks:
        return None
    conf = [] if toks[0] == "-" else [l.replace(",", " ") for l in toks[0].split(";")]
    reqs = []
    for t in toks[1:]:
        f = t.split("|")
        if len(f) not in (6, 7) or not f[0] or not f[2]:
            return None
        m, src, host, port, ips, rdns = f[:6]
        if not re.fullmatch(r"\d+\.\d+\.\d+\.\d+", src):
            return None
        if port != "-" and not re.fullmatch(r"0|[1-9][0-9]*", port):
            return None
        reqs.append({"method": m, "src": src, "host": host, "port": None if port == "-" else int(port),
                     "ips": [] if ips == "-" else ips.split("+"), "rdns": None if rdns == "-" else rdns,
                     "xff": f[6] if len(f) == 7 else None})
    return conf, reqs


def req_token(method, src, host, port, xff=None):
    ips, ptr = resolve(host)
    return "%s|%s|%s|%s|%s|%s" % (method, src, host, "-" if port is None else port, "+".join(ips) or "-", ptr or "-") + ("|" + xff if xff else "")


def conf_token(lines):
    return ";".join(",".join(l.split()) for l in lines) or "-"


# ---- the scope of the model (mirrors SquidModel/Acl/HttpIp.lean + HttpConf.lean: `unmodelled`) ----

V6_LITERALS = ["::1", "::1/128", "::/128", "fe80::/10"]
GLOBAL_WORDS = ["all", "ipv4", "ipv6", "0/0", "0.0.0.0/0", "0.0.0.0/0.0.0.0", "0.0.0.0-255.255.255.255", "0.0.0.0-0.0.0.0/0"]


def canon_dec(s):
    if re.fullmatch(r"0|[1-9][0-9]*", s):
        return int(s)
    return None


def quad(s):
    """-> int value, 'big' (an octet > 255) or None (not four canonical decimals)"""
    p = s.split(".")
    if len(p) != 4:
        return None
    v = [canon_dec(x) for x in p]
    if any(x is None for x in v):
        return None
    if any(x > 255 for x in v):
        return "big"
    return ((v[0] * 256 + v[1]) * 256 + v[2]) * 256 + v[3]


def decode_mask(m):
    """-> k (cleared low bits), 'bad' or None (unmodelled)"""
    if m == "":
        return 0
    a = canon_dec(m)
    if a is not None:
        if a > 128:
            return None
        if a > 32:
            return "bad"
        return 0 if a == 0 else 32 - a
    q = quad(m)
    if isinstance(q, int):
        c = 0
        for bit in range(31, -1, -1):
            if q >> bit & 1:
                c += 1
            else:
                break
        return 0 if c == 0 else 32 - c
    return None


def ip_token_scope(t):
    """-> 'ok' | 'unmodelled' | 'bad-ip' | 'bad-mask' for a src/dst value"""
    if t in GLOBAL_WORDS or t in V6_LITERALS:
        return "ok"
    if not re.fullmatch(r"[0-9./-]+", t):
        return "unmodelled"
    ab, sl, m = t.partition("/")
    a, da, b = ab.partition("-")
    if sl:
        if m == "" or "-" in m or "/" in m:
            return "unmodelled"
    else:
        m = ""
        if da and "-" in b:
            return "unmodelled"
        if not da and not isinstance(quad(a), int):
            return "unmodelled"
    qa = quad(a)
    if qa is None:
        return "unmodelled"
    if qa == "big":
        return "bad-ip"
    if da:
        qb = quad(b)
        if qb is None:
            return "unmodelled"
        if qb == "big":
            return "bad-ip"
    else:
        qb = 0
    k = decode_mask(m)
    if k is None:
        return "unmodelled"
    if k == "bad":
        return "bad-mask"
    if da and (qb < qa or (qb >> k << k) == 0):
        return "unmodelled"
    if (da and qa == 0) or qa == 0xFFFFFFFF or qb == 0xFFFFFFFF:
        return "unmodelled"
    return "ok"


def conf_scope(lines):
    """'ok' or 'unmodelled' for the generated section, following the order in which the model meets the lines (a rejecting
    line ends the walk: what follows is never looked at)"""
    types = {"all": "src", "manager": "other", "localhost": "src", "to_localhost": "dst", "to_linklocal": "dst", "connect": "method"}
    for l in lines:
        toks = []
        for t in l.split():
            if t.startswith("#"):
                break
            toks.append(t)
        if not toks:
            continue
        if toks[0] == "acl":
            if len(toks) < 3:
                return "ok"          # rejected: missing name / type
            name, ty, vals = toks[1].lower(), toks[2], toks[3:]       # ACL names are case-insensitive (NamedAcls)
            if ty not in ("src", "dst", "dstdomain", "port", "method"):
                return "unmodelled"
            if name in types and types[name] != ty:
                return "ok"          # rejected: type mismatch
            while vals and vals[0][0] in "-+":
                if vals[0] == "--":
                    vals = vals[1:]
                    break
                if vals[0] == "-n" and ty in ("dst", "dstdomain"):
                    vals = vals[1:]
                    continue
                return "unmodelled"
            if ty in ("src", "dst"):
                for v in vals:
                    s = ip_token_scope(v)
                    if s == "unmodelled":
                        return "unmodelled"
                    if s != "ok":
                        return "ok"  # rejected
            elif ty in ("dstdomain", "method"):
                if any(v[0] in "\"'" for v in vals):
                    return "unmodelled"
                if ty == "dstdomain" and any(v.startswith("..") for v in vals):
                    return "unmodelled"      # C41's finding; refused by ACLDomainData::parse since squid commit 7fcae3a
            elif ty == "port":
                if not all(port_token_ok(v) for v in vals):
                    return "ok"      # rejected by ACLIntRange::parse
            types[name] = ty
        elif toks[0] == "http_access":
            if len(toks) < 2 or toks[1] not in ("allow", "deny"):
                continue
            for t in toks[2:]:
                n = (t[1:] if t.startswith("!") else t).lower()
                if n not in types:
                    return "ok"      # rejected: ACL not found
                if types[n] == "other":
                    return "unmodelled"
        else:
            return "unmodelled"
    return "ok"


def port_token_ok(t):
    """does ACLIntRange::parse accept the token? (only used to know where the model stops reading; canonical forms only)"""
    m = re.fullmatch(r"(\d+)(?:-(\d+))?", t)
    if not m:
        return False
    a = int(m.group(1))
    b = int(m.group(2)) if m.group(2) is not None else a
    return a <= 65535 and b <= 65535 and b >= a


REJECT_PATTERNS = [
    (r"ACL not found", "acl-not-found"),
    (r"already exists with different type", "acl-type-mismatch"),
    (r"missing ACL name", "acl-no-name"),
    (r"missing ACL type", "acl-no-type"),
    (r"unknown (first|second) address", "bad-ip"),
    (r"unknown netmask", "bad-mask"),
    (r"ACLIntRange::parse: Invalid port value|larger than the type 'short'|No digits were found in the input value|is supposed to be a number|cannot be less than 0", "bad-port"),
]


def classify_reject(text):
    for pat, cls in REJECT_PATTERNS:
        if re.search(pat, text):
            return cls
    m = re.search(r"(FATAL|ERROR)[^\n]*", text)
    return "other:" + re.sub(r"\s+", "_", m.group(0))[:80] if m else "other"


# ------------------------------------------------------------------------------------------------ orphan protection

WATCH_SCRIPT = r"""
import os, sys, select, signal
pids = []
buf = b""
while True:
    r, _, _ = select.select([0], [], [], 1.0)
    if r:
        d = os.read(0, 4096)
        if not d:
            break
        buf += d
        while b"\n" in buf:
            l, buf = buf.split(b"\n", 1)
            try:
                pids.append(int(l))
            except ValueError:
                pass
for p in pids:
    try:
        os.killpg(p, signal.SIGKILL)
    except OSError:
        pass
"""


class Watchdog:
    """one helper process per harness: when the harness goes away (its end of the pipe closes) every registered squid process group
    is killed (squid drops privileges, which clears PR_SET_PDEATHSIG, so a per-child death signal would not do)"""

    def __init__(self):
        self.proc = subprocess.Popen(["/usr/bin/python3", "-S", "-E", "-c", WATCH_SCRIPT], stdin=subprocess.PIPE, start_new_session=True)

    def add(self, pid):
        try:
            self.proc.stdin.write(b"%d\n" % pid)
            self.proc.stdin.flush()
        except OSError:
            pass

    def close(self):
        try:
            self.proc.stdin.close()
            self.proc.wait(timeout=10)
        except Exception:
            pass


# ------------------------------------------------------------------------------------------------ the harness

ORIGIN_BODY = b"origin-body-c45"


class Harness:
    def __init__(self, stage, batch=8, workers=8):
        self.stage = stage
        self.batch = batch
        self.workers = workers
        self.crashes = 0
        self.reruns = 0
        self.lockf = open(LOCK_PATH, "a+")
        t0 = time.time()
        while True:
            try:
                fcntl.flock(self.lockf, fcntl.LOCK_EX | fcntl.LOCK_NB)
                break
            except OSError:
                if time.time() - t0 > 3600:
                    raise RuntimeError("another C45 run holds %s for more than an hour" % LOCK_PATH)
                time.sleep(1.0)
        self.watch = Watchdog()
        self.dns = DnsStub()
        self.origin = MultiOrigin()
        self.n = 0
        self.nlock = threading.Lock()
        self.hosts_path = os.path.join(stage.work, "c45-hosts")
        with open(self.hosts_path, "w") as f:
            for ip, name in HOSTS_FILE:
                f.write("%s %s\n" % (ip, name))
        os.chmod(self.hosts_path, 0o644)
        self.base = ("cache deny all\nhosts_file %s\ndns_nameservers %s\ndns_timeout 5 seconds\nnegative_dns_ttl 1 second\n"
                     "mime_table /dev/null\nconnect_timeout 10 seconds\n" % (self.hosts_path, self.dns.addr))

    # -- one request -------------------------------------------------------------------------------
    def _client(self, sq, src):
        s = socket.socket()
        s.bind((src, 0))
        s.settimeout(15 * rig.VERIF_SLOW)
        s.connect(("127.0.0.1", sq.port))
        c = rig.Client.__new__(rig.Client)
        c.s, c.rest, c.timeout = s, b"", 15.0
        return c

    def _one_request(self, sq, r):
        with self.nlock:
            self.n += 1
            sid = "z%d" % self.n
        method, host, port = r["method"], r["host"], r["port"]

        def handler(req):
            if req["first"].startswith("HEAD "):
                return [("send", rig.simple_response(200, b"", headers=[("Content-Length", str(len(ORIGIN_BODY)))], cl=False))]
            return [("send", rig.simple_response(200, ORIGIN_BODY))]
        self.origin.on(sid, handler)
        hostport = host if port is None else "%s:%d" % (host, port)
        c = self._client(sq, r["src"])
        try:
            if method.upper() == "CONNECT":
                p = 443 if port is None else port
                xh = "X-Forwarded-For: %s\r\n" % r["xff"] if r.get("xff") else ""
                c.send(("%s %s:%d HTTP/1.1\r\nHost: %s:%d\r\n%s\r\n" % (method, host, p, host, p, xh)).encode("latin-1"))
                head, c.rest = rig.read_head(c.s, c.rest, c.timeout)       # a CONNECT reply has no body: head only
                resp = None
                if head is not None:
                    first, hdrs = rig.parse_head(head)
                    m = re.match(r"HTTP/\d\.\d (\d{3})", first)
                    resp = {"status": int(m.group(1)) if m else 0, "hdrs": hdrs}
                if resp is not None and resp["status"] == 200:
                    c.send(("GET /s%s/t HTTP/1.1\r\nHost: %s\r\nConnection: close\r\n\r\n" % (sid, host)).encode("latin-1"))
                    inner = c.response()
                    ok_body = inner is not None and inner["status"] == 200 and inner["body"] == ORIGIN_BODY
                else:
                    ok_body = False
            else:
                head = ["%s http://%s/s%s/p HTTP/1.1" % (method, hostport, sid), "Host: " + hostport]
                if r.get("xff"):
                    head.append("X-Forwarded-For: " + r["xff"])
                body = b""
                if method.upper() in ("POST", "PUT", "PATCH"):
                    body = b"abc"
                    head.append("Content-Length: 3")
                head.append("Connection: close")
                c.send(("\r\n".join(head) + "\r\n\r\n").encode("latin-1") + body)
                resp = c.response(head_request=(method.upper() == "HEAD"))
                ok_body = resp is not None and (method.upper() == "HEAD" or resp["body"] == ORIGIN_BODY)
        finally:
            c.close()
        if resp is None:
            return "odd:no-response"
        xerr = (rig.hget(resp["hdrs"], "x-squid-error") or "-").split(" ")[0]
        arr = self.origin.requests(sid)
        if resp["status"] == 403 and xerr == "ERR_ACCESS_DENIED" and not arr:
            return "deny"
        if resp["status"] == 200 and len(arr) == 1 and ok_body and xerr == "-":
            return "fwd"
        if resp["status"] == 503 and xerr == "ERR_DNS_FAIL" and not arr:
            return "dnsfail"
        return "odd:%d:%s:%d" % (resp["status"], xerr, len(arr))

    # -- one scenario ------------------------------------------------------------------------------
    def prepare(self, line):
        """main thread: parse, scope check, start squid -> a job"""
        p = parse_line(line)
        if p is None:
            return {"out": "bad-op"}
        conf, reqs = p
        for r in reqs:
            ips, ptr = resolve(r["host"])
            if ips != r["ips"] or ptr != r["rdns"] or r["src"] not in SRCS or (r["port"] is not None and r["port"] not in PORTS) \
                    or r["host"].lower().rstrip(".") not in all_hosts() or r["host"].startswith(".") or ".." in r["host"] \
                    or (r["xff"] is not None and not re.fullmatch(r"\d+\.\d+\.\d+\.\d+", r["xff"])):
                return {"out": "bad-universe"}
        if conf_scope(conf) != "ok":
            return {"out": "unmodelled"}
        sq = rig.Squid(self.stage, conf=self.base, access="\n".join(conf) + "\n")
        self._spawn(sq)
        return {"sq": sq, "reqs": reqs, "conf": conf, "tries": 1}

    def _spawn(self, sq):
        """the first half of rig.Squid.start(): exec only (main thread); readiness is awaited later so that a batch starts in parallel.
        No preexec_fn (python then forks the whole interpreter: seconds per start on a loaded sandbox); the session is created by
        start_new_session and orphan protection is the harness-wide watchdog process."""
        sq._rm_shm()
        args = [sq.binary(), "-N", "-n", sq.name, "-f", sq.conf_path, "-d1"]
        sq.errlog = open(os.path.join(sq.dir, "stderr.log"), "ab")
        sq.proc = subprocess.Popen(args, env=sq.env, stdout=sq.errlog, stderr=sq.errlog, start_new_session=True)
        self.watch.add(sq.proc.pid)

    def await_ready(self, job, wait=120.0):
        """main thread: second half of start(); a squid that exits is either a refused configuration or a start problem (retried)"""
        if "out" in job:
            return
        while True:
            sq = job["sq"]
            t0 = time.time()
            ok = False
            while time.time() - t0 < wait * rig.VERIF_SLOW:
                if "Accepting HTTP Socket connections" in sq.cache_log():
                    ok = True
                    break
                if sq.proc.poll() is not None:
                    break
                time.sleep(0.03)
            if ok:
                return
            text = sq.cache_log()
            try:
                text += open(os.path.join(sq.dir, "stderr.log"), errors="replace").read()
            except OSError:
                pass
            sq.stop(kill=True)
            del job["sq"]
            if re.search(r"Bungled|FATAL: (ERROR: )?Invalid ACL", text) and not re.search(r"commBind|Address already in use", text):
                job["out"] = "reject:" + classify_reject(text)
                return
            if job["tries"] >= 4:
                job["out"] = "abort:squid-start " + re.sub(r"\s+", "_", text[-200:])[:160]
                return
            job["tries"] += 1
            sq = rig.Squid(self.stage, conf=self.base, access="\n".join(job["conf"]) + "\n")
            self._spawn(sq)
            job["sq"] = sq

    def execute(self, job):
        if "out" in job:
            return job["out"]
        sq = job["sq"]
        outs = []
        try:
            for r in job["reqs"]:
                o = None
                for attempt in range(3):          # flake guard: an `odd` observation is re-tried
                    try:
                        o = self._one_request(sq, r)
                    except OSError as e:
                        o = "odd:io-%s" % type(e).__name__
                    if not o.startswith("odd") or not sq.alive():
                        break
                    time.sleep(0.3 * rig.VERIF_SLOW)
                if o.startswith("odd"):
                    self._debug(sq, r, o)
                outs.append(o)
            if not sq.alive():
                probs = sq.problems()
                return "abort:squid-died " + (re.sub(r"\s+", "_", probs[0])[:120] if probs else "")
        finally:
            pass
        return " ".join(outs) if outs else "none"

    def _debug(self, sq, r, o):
        """an observation outside the vocabulary: keep what squid logged (out/C45-odd.log), the observation itself stays canonical"""
        try:
            os.makedirs(os.path.join(VERIF, "out"), exist_ok=True)
            with open(os.path.join(VERIF, "out", "C45-odd.log"), "a") as f:
                f.write("==== %s pid=%d %s %r alive=%s port=%d\n%s\n---- stderr\n%s\n---- access\n%s\n" % (
                    time.strftime("%H:%M:%S"), os.getpid(), o, r, sq.alive(), sq.port, sq.cache_log()[-2500:],
                    open(os.path.join(sq.dir, "stderr.log"), errors="replace").read()[-1500:], sq.access_log()[-600:]))
        except OSError:
            pass

    def _run_batch(self, lines):
        from concurrent.futures import ThreadPoolExecutor
        jobs = [self.prepare(l) for l in lines]
        for j in jobs:
            self.await_ready(j)
        with ThreadPoolExecutor(max_workers=self.workers) as ex:
            outs = list(ex.map(self.execute, jobs))
        for j in jobs:
            if "sq" in j:
                j["sq"].stop(kill=True)
        return outs

    def run(self, lines):
        res = []
        for i in range(0, len(lines), self.batch):
            res.extend(self._run_batch(lines[i:i + self.batch]))
        # flake guard: a scenario with an observation outside the vocabulary (or a squid that died / did not start) is run again
        # with a fresh squid; it is reported only when it shows up three times
        for attempt in range(2):
            bad = [k for k, o in enumerate(res) if "odd:" in o or o.startswith("abort")]
            if not bad:
                break
            self.reruns += len(bad)
            for i in range(0, len(bad), self.batch):
                idx = bad[i:i + self.batch]
                for k, o in zip(idx, self._run_batch([lines[k] for k in idx])):
                    res[k] = o
        return res

    def close(self):
        try:
            self.origin.close()
            self.dns.close()
            self.watch.close()
        finally:
            try:
                fcntl.flock(self.lockf, fcntl.LOCK_UN)
                self.lockf.close()
            except (OSError, ValueError):
                pass
