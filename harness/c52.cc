// C52 harness: the real templates of src/SquidMath.h from the staged tree, instantiated over all pairs (triples,
// quadruples) of integer types and run under ASan/UBSan. Values travel as decimal numbers; a value outside the
// range of its declared type is rejected (never silently converted). One output line per input line.
//
//   L  A B a b                 Less(A(a), B(b))                               -> 1 | 0
//   I  S s T t [U u]           IncreaseSum(S(s), T(t)[, U(u)])                -> none | <sum>
//   N  S T t [U u [V v]]       NaturalSum<S>(T(t)[, U(u)[, V(v)]])            -> none | <sum>
//   M  S v0 T t [U u]          S var = v0; r = SetToNaturalSumOrMax(var, ...) -> <var> <r>
//   C  R S s                   NaturalCast<R>(S(s))                           -> <value> | throws
//   XL A B alo ahi blo bhi     Less over the whole grid [alo..ahi] x [blo..bhi]
//   XI S T slo shi tlo thi     IncreaseSum(s, t) over the grid
//   XJ S T U slo shi tlo thi ulo uhi   IncreaseSum(s, t, u) over the grid
//                              -> n=<grid size> k=<number of true / of sums returned> h=<digest of all results>
//                                 bad=<results that differ from the wide-integer reference>[ first=<inputs>]
// Type names: i8 u8 i16 u16 i32 u32 i64 u64 ch ll ull (two-type forms). Three types (I with two summands, N with
// two summands, XL, XI): the eight fixed-width names. M with two summands and N with three summands: S any fixed-width
// name, summand types i32 u32 i64 u64. XJ: i8 u8 i16 u16.
//
// The thousands of template instantiations are spread over translation units: this file is compiled once per
// PART (0 = main and line handling, 1..5 = dispatch tables), see props/C52.py.
#ifndef PART
#error "compile with -DPART=0..5"
#endif
#include "squid.h"
#include "SquidMath.h"

#include <cstdio>
#include <cstring>
#include <iostream>
#include <optional>
#include <sstream>
#include <string>
#include <tuple>
#include <utility>
#include <vector>

typedef __int128 I;
typedef unsigned __int128 U;

using Types = std::tuple<int8_t, uint8_t, int16_t, uint16_t, int32_t, uint32_t, int64_t, uint64_t, char, long long, unsigned long long>;
static const char *Names[] = {"i8", "u8", "i16", "u16", "i32", "u32", "i64", "u64", "ch", "ll", "ull"};
constexpr size_t NT = std::tuple_size<Types>::value; // all names
constexpr size_t NF = 8;                             // fixed-width names
template <size_t K> using At = typename std::tuple_element<K, Types>::type;

struct Opt {
    bool has;
    I v;
};

static std::string dec(I v)
{
    if (v == 0)
        return "0";
    const bool neg = v < 0;
    U u = neg ? -static_cast<U>(v) : static_cast<U>(v);
    std::string s;
    while (u) {
        s.insert(s.begin(), char('0' + int(u % 10)));
        u /= 10;
    }
    return neg ? "-" + s : s;
}

static bool parseDec(const std::string &t, I &out)
{
    size_t i = 0;
    bool neg = false;
    if (i < t.size() && t[i] == '-') {
        neg = true;
        ++i;
    }
    if (i >= t.size() || t.size() - i > 30)
        return false;
    U u = 0;
    for (; i < t.size(); ++i) {
        if (t[i] < '0' || t[i] > '9')
            return false;
        u = u * 10 + U(t[i] - '0');
    }
    out = neg ? -static_cast<I>(u) : static_cast<I>(u);
    return true;
}

template <typename T> static I minOf() { return static_cast<I>(std::numeric_limits<T>::min()); }
template <typename T> static I maxOf() { return static_cast<I>(std::numeric_limits<T>::max()); }

struct Limits {
    I lo, hi;
};
template <size_t... K>
static std::vector<Limits> makeLimits(std::index_sequence<K...>)
{
    return { Limits{minOf<At<K>>(), maxOf<At<K>>()}... };
}
static const std::vector<Limits> Lim = makeLimits(std::make_index_sequence<NT>());

static int typeIndex(const std::string &n, size_t count)
{
    for (size_t k = 0; k < count; ++k)
        if (n == Names[k])
            return int(k);
    return -1;
}

// ---- single evaluations -------------------------------------------------------------------------------------

template <typename A, typename B> static bool lessT(I a, I b) { return Less(static_cast<A>(a), static_cast<B>(b)); }

template <typename S> static Opt toOpt(const std::optional<S> &r) { return r ? Opt{true, static_cast<I>(r.value())} : Opt{false, 0}; }

template <typename S, typename T> static Opt inc2T(I s, I t) { return toOpt<S>(IncreaseSum(static_cast<S>(s), static_cast<T>(t))); }
template <typename S, typename T, typename V> static Opt inc3T(I s, I t, I v)
{
    return toOpt<S>(IncreaseSum(static_cast<S>(s), static_cast<T>(t), static_cast<V>(v)));
}
template <typename S, typename T> static Opt nat1T(I t) { return toOpt<S>(NaturalSum<S>(static_cast<T>(t))); }
template <typename S, typename T, typename V> static Opt nat2T(I t, I v) { return toOpt<S>(NaturalSum<S>(static_cast<T>(t), static_cast<V>(v))); }
template <typename S, typename T, typename V, typename W> static Opt nat3T(I t, I v, I w)
{
    return toOpt<S>(NaturalSum<S>(static_cast<T>(t), static_cast<V>(v), static_cast<W>(w)));
}
template <typename S, typename T> static std::pair<I, I> set1T(I v0, I t)
{
    S var = static_cast<S>(v0);
    const S r = SetToNaturalSumOrMax(var, static_cast<T>(t));
    return {static_cast<I>(var), static_cast<I>(r)};
}
template <typename S, typename T, typename V> static std::pair<I, I> set2T(I v0, I t, I v)
{
    S var = static_cast<S>(v0);
    const S r = SetToNaturalSumOrMax(var, static_cast<T>(t), static_cast<V>(v));
    return {static_cast<I>(var), static_cast<I>(r)};
}
struct CastOut {
    bool threw;
    I v;
};
template <typename R, typename S> static CastOut castT(I s)
{
    try {
        return CastOut{false, static_cast<I>(NaturalCast<R>(static_cast<S>(s)))};
    } catch (const std::bad_optional_access &) {
        return CastOut{true, 0};
    }
}

// ---- sweeps -------------------------------------------------------------------------------------------------

struct Sweep {
    U n = 0, k = 0, bad = 0;
    uint64_t h = 1469598103934665603ULL;
    std::string first;
    void bit(bool b) { h = (h ^ (b ? 1u : 2u)) * 1099511628211ULL; }
    void val(I v) { h = (h ^ static_cast<uint64_t>(v)) * 1099511628211ULL; }
    std::string str() const
    {
        char buf[64];
        snprintf(buf, sizeof(buf), "%016llx", static_cast<unsigned long long>(h));
        std::string s = "n=" + dec(static_cast<I>(n)) + " k=" + dec(static_cast<I>(k)) + " h=" + buf + " bad=" + dec(static_cast<I>(bad));
        if (bad)
            s += " first=" + first;
        return s;
    }
};

template <typename A, typename B> static Sweep sweepLessT(I alo, I ahi, I blo, I bhi)
{
    Sweep sw;
    for (I a = alo; a <= ahi; ++a) {
        for (I b = blo; b <= bhi; ++b) {
            const bool r = Less(static_cast<A>(a), static_cast<B>(b));
            const bool ref = a < b; // the counters hold the exact mathematical values
            ++sw.n;
            sw.k += r ? 1 : 0;
            sw.bit(r);
            if (r != ref && !sw.bad++)
                sw.first = dec(a) + "," + dec(b);
        }
    }
    return sw;
}

// accounts for one result; returns whether it is what the wide-integer reference says
template <typename S>
static inline bool checkSum(Sweep &sw, const std::optional<S> &r, const I exact, const bool allNonNeg)
{
    const bool expectSome = allNonNeg && exact <= maxOf<S>();
    ++sw.n;
    sw.bit(r.has_value());
    if (r) {
        ++sw.k;
        sw.val(static_cast<I>(r.value()));
    }
    return expectSome ? (r && static_cast<I>(r.value()) == exact) : !r;
}

template <typename S, typename T> static Sweep sweepInc2T(I slo, I shi, I tlo, I thi)
{
    Sweep sw;
    for (I s = slo; s <= shi; ++s) {
        for (I t = tlo; t <= thi; ++t) {
            const auto r = IncreaseSum(static_cast<S>(s), static_cast<T>(t));
            if (!checkSum<S>(sw, r, s + t, s >= 0 && t >= 0) && !sw.bad++)
                sw.first = dec(s) + "," + dec(t);
        }
    }
    return sw;
}

template <typename S, typename T, typename V> static Sweep sweepInc3T(I slo, I shi, I tlo, I thi, I vlo, I vhi)
{
    Sweep sw;
    for (I s = slo; s <= shi; ++s)
        for (I t = tlo; t <= thi; ++t)
            for (I v = vlo; v <= vhi; ++v) {
                const auto r = IncreaseSum(static_cast<S>(s), static_cast<T>(t), static_cast<V>(v));
                if (!checkSum<S>(sw, r, s + t + v, s >= 0 && t >= 0 && v >= 0) && !sw.bad++)
                    sw.first = dec(s) + "," + dec(t) + "," + dec(v);
            }
    return sw;
}

// ---- dispatch tables ----------------------------------------------------------------------------------------

typedef bool (*LessFn)(I, I);
typedef Opt (*Fn1)(I);
typedef Opt (*Fn2)(I, I);
typedef Opt (*Fn3)(I, I, I);
typedef std::pair<I, I> (*SetFn1)(I, I);
typedef std::pair<I, I> (*SetFn2)(I, I, I);
typedef CastOut (*CastFn)(I);
typedef Sweep (*SweepFn2)(I, I, I, I);
typedef Sweep (*SweepFn3)(I, I, I, I, I, I);

// index arithmetic: pairs over all NT names; triples over the NF fixed-width names; F4(k) = i32 u32 i64 u64
#define PAIR() At<K / NT>, At<K % NT>
#define FPAIR() At<K / NF>, At<K % NF>
#define TRIPLE() At<K / (NF * NF)>, At<(K / NF) % NF>, At<K % NF>
#define S_F4_F4() At<K / 16>, At<4 + (K / 4) % 4>, At<4 + K % 4>
#define S_F4_F4_F4() At<K / 64>, At<4 + (K / 16) % 4>, At<4 + (K / 4) % 4>, At<4 + K % 4>
#define SMALL3() At<K / 16>, At<(K / 4) % 4>, At<K % 4>

#define TABLE(part, FnType, getter, tmpl, ARGS, COUNT) \
    FnType getter(size_t k); \
    PART_BODY_##part(FnType, getter, tmpl, ARGS, COUNT)
#define DEFINE_TABLE(FnType, getter, tmpl, ARGS, COUNT) \
    template <size_t... K> static FnType getter##Pick(size_t k, std::index_sequence<K...>) \
    { \
        static const FnType tab[] = { &tmpl<ARGS()>... }; \
        return tab[k]; \
    } \
    FnType getter(size_t k) { return getter##Pick(k, std::make_index_sequence<COUNT>()); }
#define SKIP_TABLE(FnType, getter, tmpl, ARGS, COUNT)

#if PART == 1
#define PART_BODY_1 DEFINE_TABLE
#else
#define PART_BODY_1 SKIP_TABLE
#endif
#if PART == 2
#define PART_BODY_2 DEFINE_TABLE
#else
#define PART_BODY_2 SKIP_TABLE
#endif
#if PART == 3
#define PART_BODY_3 DEFINE_TABLE
#else
#define PART_BODY_3 SKIP_TABLE
#endif
#if PART == 4
#define PART_BODY_4 DEFINE_TABLE
#else
#define PART_BODY_4 SKIP_TABLE
#endif
#if PART == 5
#define PART_BODY_5 DEFINE_TABLE
#else
#define PART_BODY_5 SKIP_TABLE
#endif

TABLE(1, LessFn, lessFn, lessT, PAIR, NT * NT)
TABLE(1, Fn2, inc2Fn, inc2T, PAIR, NT * NT)
TABLE(1, Fn1, nat1Fn, nat1T, PAIR, NT * NT)
TABLE(1, SetFn1, set1Fn, set1T, PAIR, NT * NT)
TABLE(1, CastFn, castFn, castT, PAIR, NT * NT)
TABLE(2, SweepFn2, sweepLessFn, sweepLessT, FPAIR, NF * NF)
TABLE(2, SweepFn2, sweepInc2Fn, sweepInc2T, FPAIR, NF * NF)
TABLE(2, SweepFn3, sweepInc3Fn, sweepInc3T, SMALL3, 64)
TABLE(3, Fn3, inc3Fn, inc3T, TRIPLE, NF * NF * NF)
TABLE(4, Fn2, nat2Fn, nat2T, TRIPLE, NF * NF * NF)
TABLE(5, Fn3, nat3Fn, nat3T, S_F4_F4_F4, NF * 64)
TABLE(5, SetFn2, set2Fn, set2T, S_F4_F4, NF * 16)

#if PART == 0
// ---- line handling ------------------------------------------------------------------------------------------

static std::string optStr(const Opt &o) { return o.has ? dec(o.v) : std::string("none"); }

struct Arg {
    int ty;
    I v;
};

// parses "<type> <value>" pairs; returns "" or the error token
static std::string typedArgs(const std::vector<std::string> &w, size_t from, size_t count, std::vector<Arg> &out)
{
    for (size_t i = from; i + 1 < w.size(); i += 2) {
        Arg a;
        a.ty = typeIndex(w[i], count);
        if (a.ty < 0 || !parseDec(w[i + 1], a.v))
            return "bad-op";
        out.push_back(a);
    }
    for (const auto &a : out)
        if (a.v < Lim[a.ty].lo || a.v > Lim[a.ty].hi)
            return "reject:range";
    return "";
}

static bool rangeOk(int ty, I lo, I hi) { return lo <= hi && lo >= Lim[ty].lo && hi <= Lim[ty].hi; }

static bool isF4(int ty) { return ty >= 4 && ty < 8; }
static bool isSmall(int ty) { return ty >= 0 && ty < 4; }

static std::string handle(const std::string &line)
{
    std::vector<std::string> w;
    {
        std::istringstream is(line);
        std::string t;
        while (is >> t)
            w.push_back(t);
    }
    if (w.empty())
        return "bad-op";
    const std::string &op = w[0];
    if (op == "L" && w.size() == 5) {
        std::vector<Arg> a;
        // L A B a b  ->  reorder into typed pairs
        std::vector<std::string> v = {"L", w[1], w[3], w[2], w[4]};
        const auto e = typedArgs(v, 1, NT, a);
        if (!e.empty())
            return e;
        return lessFn(a[0].ty * NT + a[1].ty)(a[0].v, a[1].v) ? "1" : "0";
    }
    if (op == "I" && (w.size() == 5 || w.size() == 7)) {
        std::vector<Arg> a;
        const auto e = typedArgs(w, 1, w.size() == 5 ? NT : NF, a);
        if (!e.empty())
            return e;
        if (a.size() == 2)
            return optStr(inc2Fn(a[0].ty * NT + a[1].ty)(a[0].v, a[1].v));
        return optStr(inc3Fn((a[0].ty * NF + a[1].ty) * NF + a[2].ty)(a[0].v, a[1].v, a[2].v));
    }
    if (op == "N" && (w.size() == 4 || w.size() == 6 || w.size() == 8)) {
        const size_t count = w.size() == 4 ? NT : NF;
        const int s = typeIndex(w[1], count);
        std::vector<Arg> a;
        const auto e = typedArgs(w, 2, count, a);
        if (s < 0 || e == "bad-op")
            return "bad-op";
        if (a.size() == 3 && !(isF4(a[0].ty) && isF4(a[1].ty) && isF4(a[2].ty)))
            return "bad-op";
        if (!e.empty())
            return e;
        if (a.size() == 1)
            return optStr(nat1Fn(s * NT + a[0].ty)(a[0].v));
        if (a.size() == 2)
            return optStr(nat2Fn((s * NF + a[0].ty) * NF + a[1].ty)(a[0].v, a[1].v));
        return optStr(nat3Fn(((s * 4 + (a[0].ty - 4)) * 4 + (a[1].ty - 4)) * 4 + (a[2].ty - 4))(a[0].v, a[1].v, a[2].v));
    }
    if (op == "M" && (w.size() == 5 || w.size() == 7)) {
        std::vector<Arg> a;
        const auto e = typedArgs(w, 1, w.size() == 5 ? NT : NF, a);
        if (e == "bad-op")
            return e;
        if (a.size() == 3 && !(isF4(a[1].ty) && isF4(a[2].ty)))
            return "bad-op";
        if (!e.empty())
            return e;
        const auto r = a.size() == 2 ? set1Fn(a[0].ty * NT + a[1].ty)(a[0].v, a[1].v) :
                       set2Fn((a[0].ty * 4 + (a[1].ty - 4)) * 4 + (a[2].ty - 4))(a[0].v, a[1].v, a[2].v);
        return dec(r.first) + " " + dec(r.second);
    }
    if (op == "C" && w.size() == 4) {
        const int r = typeIndex(w[1], NT);
        std::vector<Arg> a;
        const auto e = typedArgs(w, 2, NT, a);
        if (r < 0)
            return "bad-op";
        if (!e.empty())
            return e;
        const auto c = castFn(r * NT + a[0].ty)(a[0].v);
        return c.threw ? std::string("throws") : dec(c.v);
    }
    if ((op == "XL" || op == "XI") && w.size() == 7) {
        const int a = typeIndex(w[1], NF), b = typeIndex(w[2], NF);
        I r[4];
        if (a < 0 || b < 0)
            return "bad-op";
        for (int i = 0; i < 4; ++i)
            if (!parseDec(w[3 + i], r[i]))
                return "bad-op";
        if (!rangeOk(a, r[0], r[1]) || !rangeOk(b, r[2], r[3]))
            return "reject:range";
        const auto fn = op == "XL" ? sweepLessFn(a * NF + b) : sweepInc2Fn(a * NF + b);
        return fn(r[0], r[1], r[2], r[3]).str();
    }
    if (op == "XJ" && w.size() == 10) {
        const int a = typeIndex(w[1], NF), b = typeIndex(w[2], NF), c = typeIndex(w[3], NF);
        I r[6];
        if (!isSmall(a) || !isSmall(b) || !isSmall(c))
            return "bad-op";
        for (int i = 0; i < 6; ++i)
            if (!parseDec(w[4 + i], r[i]))
                return "bad-op";
        if (!rangeOk(a, r[0], r[1]) || !rangeOk(b, r[2], r[3]) || !rangeOk(c, r[4], r[5]))
            return "reject:range";
        return sweepInc3Fn((a * 4 + b) * 4 + c)(r[0], r[1], r[2], r[3], r[4], r[5]).str();
    }
    return "bad-op";
}

int main()
{
    std::string line;
    while (std::getline(std::cin, line)) {
        const std::string out = handle(line);
        fputs(out.c_str(), stdout);
        fputc('\n', stdout);
        fflush(stdout);
    }
    return 0;
}
#endif /* PART == 0 */
