// C20 harness: the real invalidation code of the staged tree, in-process under ASan/UBSan.
//
// The text of sameUrlHosts(), purgeEntriesByHeader(), Client::maybePurgeOthers() (src/clients/Client.cc) and of
// purgeEntriesByUrl() (src/client_side_reply.cc) is extracted verbatim from the staged sources by props/C20.py into
// c20_client.inc / c20_reply.inc and compiled here against
//   * the real AnyP::Uri (src/anyp/Uri.cc is pulled into this translation unit: parse, path(), addRelativePath(), absolute(),
//     authority(), Encode, urlIsRelative, the file-static PathChars()),
//   * the real HttpRequestMethod (src/http/RequestMethod.cc: purgesOthers, respMaybeCacheable, ++),
//   * small stand-ins for HttpRequest / HttpReply / Store::Root() / storeKeyPublic that record what is evicted
//     (C20Request::effectiveRequestUri is a replica of the 3-line HttpRequest::effectiveRequestUri).
//
//   P <method> <status> <scheme> <hex host> <port|-> <hex path> <hex Location|.> <hex Content-Location|.>
//        -> "evict=<methodid>:<hex url>,..."  in eviction order ("evict=-" when nothing is evicted), or "bad-components" when the
//           real parser does not reproduce the given components (the line is outside the canonical request URLs)
//   H <hex url1> <hex url2>   -> "same=0|1"            sameUrlHosts
//   R <hex>                   -> "rel=0|1"             urlIsRelative
//   A <scheme> <hex host> <port|-> <hex path> <hex rel> -> "abs=<hex>"   copy of the parsed URL, absolute(), addRelativePath(rel), absolute()
//   --dump  -> tables for translate/purge_tables.py
#include "squid.h"
#include "anyp/Uri.cc"
#include "base/CharacterSet.h"
#include "mem/forward.h"
#include "http/RegisteredHeaders.h"
#include "http/StatusCode.h"
#include "http/RequestMethod.h"
#include "sbuf/SBuf.h"
#include "store_key_md5.h"
#if USE_HTCP
#include "htcp.h"
#endif

#include <cstdio>
#include <cstring>
#include <iostream>
#include <string>
#include <vector>

static bool unhex(const std::string &h, std::string &r) {
    r.clear();
    if (h == "-") return true;
    if (h.size() % 2) return false;
    auto val = [](char c) -> int {
        if (c >= '0' && c <= '9') return c - '0';
        if (c >= 'a' && c <= 'f') return c - 'a' + 10;
        return -1;
    };
    for (size_t i = 0; i + 1 < h.size(); i += 2) {
        const int a = val(h[i]), b = val(h[i + 1]);
        if (a < 0 || b < 0) return false;
        r.push_back(static_cast<char>(a * 16 + b));
    }
    return true;
}
static std::string hex(const char *p, size_t n) {
    if (!n) return "-";
    static const char *d = "0123456789abcdef";
    std::string r;
    for (size_t i = 0; i < n; ++i) { const unsigned char c = p[i]; r.push_back(d[c >> 4]); r.push_back(d[c & 15]); }
    return r;
}
static std::string hex(const std::string &s) { return hex(s.data(), s.size()); }
static std::string hex(const SBuf &s) { return hex(s.rawContent(), s.length()); }

/// exact-size NUL-terminated heap copy: ASan sees any read past the terminator
struct CStr {
    char *p;
    explicit CStr(const std::string &s) : p(new char[s.size() + 1]) { memcpy(p, s.data(), s.size()); p[s.size()] = 0; }
    ~CStr() { delete[] p; }
    CStr(const CStr &) = delete;
};

// ------------------------------------------------------------------------------------------------ stand-ins
struct C20Request {
    HttpRequestMethod method;
    AnyP::Uri url;
    // replica of HttpRequest::effectiveRequestUri()
    const SBuf &effectiveRequestUri() const {
        if (method.id() == Http::METHOD_CONNECT || url.getScheme() == AnyP::PROTO_AUTHORITY_FORM)
            return url.authority(true); // host:port
        return url.absolute();
    }
};
struct C20ReqPtr {
    C20Request *p = nullptr;
    C20Request *operator->() const { return p; }
    C20Request *getRaw() const { return p; }
};
struct C20Header {
    const char *location = nullptr;
    const char *contentLocation = nullptr;
    const char *getStr(Http::HdrType id) const {
        if (id == Http::HdrType::LOCATION) return location;
        if (id == Http::HdrType::CONTENT_LOCATION) return contentLocation;
        return nullptr;
    }
};
struct C20StatusLine {
    int code = 0;
    Http::StatusCode status() const { return static_cast<Http::StatusCode>(code); }
};
namespace Http {
struct C20Reply {
    C20Header header;
    C20StatusLine sline;
};
}
struct C20Client {
    C20ReqPtr request;
    Http::C20Reply *theFinalReply = nullptr;
    void maybePurgeOthers();
};

static std::vector<std::pair<int, std::string>> c20Evicted;
struct C20Key { int method; std::string url; };
static C20Key c20LastKey;
static const cache_key *c20_storeKeyPublic(const char *url, const HttpRequestMethod &m) {
    c20LastKey.method = static_cast<int>(m.id());
    c20LastKey.url = url;
    return reinterpret_cast<const cache_key *>(&c20LastKey);
}
static const char *c20_storeKeyText(const cache_key *) { return "key"; }
template <class A, class B, class C, class D> static void c20_htcpClear(A, B, C, D) {}
struct C20Root {
    void evictIfFound(const cache_key *key) {
        const auto k = reinterpret_cast<const C20Key *>(key);
        c20Evicted.emplace_back(k->method, k->url);
    }
};
namespace C20Store {
static C20Root &Root() { static C20Root r; return r; }
}

// the extracted text sees the stand-ins under the real names
#define HttpRequest C20Request
#define Message C20Reply
#define Client C20Client
#define Store C20Store
#define storeKeyPublic c20_storeKeyPublic
#define storeKeyText c20_storeKeyText
#define neighborsHtcpClear c20_htcpClear

void purgeEntriesByUrl(HttpRequest *req, const char *url);
#include "c20_client.inc"
#include "c20_reply.inc"

#undef HttpRequest
#undef Message
#undef Client
#undef Store
#undef storeKeyPublic
#undef storeKeyText
#undef neighborsHtcpClear

// ------------------------------------------------------------------------------------------------ operations
static bool buildRequestUrl(C20Request &req, const std::string &methodStr, const std::string &scheme, const std::string &host,
                            const std::string &port, const std::string &path) {
    req.method = HttpRequestMethod{SBuf(methodStr)};
    std::string raw = scheme + "://" + host;
    if (port != "-") raw += ":" + port;
    raw += path;
    SBuf in;
    in.append(raw.data(), raw.size());
    const HttpRequestMethod parseAs(Http::METHOD_GET); // CONNECT targets are authority-form; the components are what matters
    if (!req.url.parse(parseAs, in))
        return false;
    // the line must name the canonical components
    if (scheme != std::string(req.url.getScheme().image().rawContent(), req.url.getScheme().image().length())) return false;
    if (host != req.url.host()) return false;
    if (port == "-") {
        // the parser fills in the default port
        if (!req.url.port() || *req.url.port() != *req.url.getScheme().defaultPort()) return false;
    } else {
        if (!req.url.port() || std::to_string(*req.url.port()) != port) return false;
    }
    if (path != std::string(req.url.path().rawContent(), req.url.path().length())) return false;
    return true;
}

static std::string doPurge(const std::vector<std::string> &w) {
    // P method status scheme host port path loc cloc
    if (w.size() != 9) return "bad-op";
    std::string host, path, loc, cloc;
    if (!unhex(w[4], host) || !unhex(w[6], path)) return "bad-op";
    const bool hasLoc = w[7] != ".", hasCloc = w[8] != ".";
    if (hasLoc && !unhex(w[7], loc)) return "bad-op";
    if (hasCloc && !unhex(w[8], cloc)) return "bad-op";
    if (loc.find('\0') != std::string::npos || cloc.find('\0') != std::string::npos) return "bad-op";
    C20Request req;
    if (!buildRequestUrl(req, w[1], w[3], host, w[5], path)) return "bad-components";
    const CStr l(loc), c(cloc);
    Http::C20Reply rep;
    rep.sline.code = atoi(w[2].c_str());
    rep.header.location = hasLoc ? l.p : nullptr;
    rep.header.contentLocation = hasCloc ? c.p : nullptr;
    C20Client cl;
    cl.request.p = &req;
    cl.theFinalReply = &rep;
    c20Evicted.clear();
    cl.maybePurgeOthers();
    std::string out = "evict=";
    if (c20Evicted.empty()) out += "-";
    for (size_t i = 0; i < c20Evicted.size(); ++i) {
        if (i) out += ",";
        out += std::to_string(c20Evicted[i].first) + ":" + hex(c20Evicted[i].second);
    }
    return out;
}

static std::string doSame(const std::vector<std::string> &w) {
    if (w.size() != 3) return "bad-op";
    std::string a, b;
    if (!unhex(w[1], a) || !unhex(w[2], b)) return "bad-op";
    if (a.find('\0') != std::string::npos || b.find('\0') != std::string::npos) return "bad-op";
    const CStr ca(a), cb(b);
    return std::string("same=") + (sameUrlHosts(ca.p, cb.p) ? "1" : "0");
}

static std::string doRel(const std::vector<std::string> &w) {
    if (w.size() != 2) return "bad-op";
    std::string a;
    if (!unhex(w[1], a)) return "bad-op";
    if (a.find('\0') != std::string::npos) return "bad-op";
    const CStr ca(a);
    return std::string("rel=") + (urlIsRelative(ca.p) ? "1" : "0");
}

static std::string doAddRel(const std::vector<std::string> &w) {
    // A scheme host port path rel
    if (w.size() != 6) return "bad-op";
    std::string host, path, rel;
    if (!unhex(w[2], host) || !unhex(w[4], path) || !unhex(w[5], rel)) return "bad-op";
    if (rel.find('\0') != std::string::npos) return "bad-op";
    C20Request req;
    if (!buildRequestUrl(req, "GET", w[1], host, w[3], path)) return "bad-components";
    (void)req.url.absolute(); // as maybePurgeOthers() does via effectiveRequestUri() before the copy is made
    AnyP::Uri tmp = req.url;
    const CStr r(rel);
    tmp.addRelativePath(r.p);
    return "abs=" + hex(tmp.absolute());
}

static void dump() {
    // methods
    for (HttpRequestMethod m(Http::METHOD_NONE); m != Http::METHOD_ENUM_END; ++m) {
        const SBuf img = m.image();
        printf("method %d %s %d %d %d\n", static_cast<int>(m.id()), hex(img).c_str(), m.purgesOthers() ? 1 : 0,
               m.respMaybeCacheable() ? 1 : 0, m.shouldInvalidate() ? 1 : 0);
    }
    printf("other %d\n", static_cast<int>(Http::METHOD_OTHER));
    printf("connect %d\n", static_cast<int>(Http::METHOD_CONNECT));
    printf("enumend %d\n", static_cast<int>(Http::METHOD_ENUM_END));
    printf("set PATH ");
    for (int i = 0; i < 256; ++i) putchar(PathChars()[static_cast<unsigned char>(i)] ? '1' : '0');
    putchar('\n');
    // does addRelativePath() invalidate the memoised absolute form?
    {
        AnyP::Uri u;
        const HttpRequestMethod get(Http::METHOD_GET);
        u.parse(get, SBuf("http://h.example/d/a"));
        (void)u.absolute();
        AnyP::Uri t = u;
        t.addRelativePath("b");
        const SBuf got = t.absolute();
        printf("addrel_touches %d\n", got == SBuf("http://h.example/d/b") ? 1 : 0);
        printf("addrel_probe %s\n", hex(got).c_str());
    }
    {
        const AnyP::UriScheme http(AnyP::PROTO_HTTP), https(AnyP::PROTO_HTTPS);
        printf("defport http %d\n", static_cast<int>(*http.defaultPort()));
        printf("defport https %d\n", static_cast<int>(*https.defaultPort()));
    }
    printf("max_url %d\n", static_cast<int>(MAX_URL));
}

int main(int argc, char **argv) {
    Mem::Init();
    AnyP::UriScheme::Init();
    if (argc > 1 && !strcmp(argv[1], "--dump")) {
        dump();
        return 0;
    }
    std::string line;
    while (std::getline(std::cin, line)) {
        std::vector<std::string> w;
        size_t i = 0;
        while (i < line.size()) {
            while (i < line.size() && line[i] == ' ') ++i;
            size_t j = i;
            while (j < line.size() && line[j] != ' ') ++j;
            if (j > i) w.push_back(line.substr(i, j - i));
            i = j;
        }
        std::string out;
        try {
            if (w.empty()) out = "bad-op";
            else if (w[0] == "P") out = doPurge(w);
            else if (w[0] == "H") out = doSame(w);
            else if (w[0] == "R") out = doRel(w);
            else if (w[0] == "A") out = doAddRel(w);
            else out = "bad-op";
        } catch (const std::exception &e) {
            out = std::string("exception:") + e.what();
            for (auto &ch : out) if (ch == ' ' || ch == '\n') ch = '_';
        }
        printf("%s\n", out.c_str());
        fflush(stdout);
    }
    return 0;
}
