// C27 harness: the real integer parsers of the staged tree (built with ASan/UBSan).
//   i64 <base> <allowSign 0|1> <limit> <hex>  -> Parser::Tokenizer::int64 on a fresh tokenizer over the bytes
//        "ok <value> <consumed> <hex of remaining()>"  (consumed = parsedSize())
//        "fail"            returned false, result/buffer/parsedSize untouched
//        "fail-touched:…"  returned false but something changed
//   ud <limit> <hex>                          -> Parser::Tokenizer::udec64
//        "ok <value> <consumed> <hex remaining>" | "throw:insufficient" | "throw:parse" | "throw:other"
//   po <hex>                                  -> httpHeaderParseOffset(cstr, &v, &end)   (bytes must be NUL-free)
//        "ok <value> <end - start>" | "fail" | "fail-touched"
//   pi <hex>                                  -> httpHeaderParseInt(cstr, &v)
//        "ok <value>" | "fail"
//   --dump-consts                             -> numeric limits used by the model
// A sanitizer abort is turned into "abort:<summary>" for that line by the framework.
#include "squid.h"
#include "HttpHeaderTools.h"
#include "base/TextException.h"
#include "parser/Tokenizer.h"
#include "parser/forward.h"
#include "sbuf/SBuf.h"

#include <climits>
#include <cstdio>
#include <cstring>
#include <iostream>
#include <sstream>
#include <string>
#include <vector>

static bool unhex(const std::string &h, std::string &r) {
    r.clear();
    if (h == "-") return true;
    if (h.size() % 2) return false;
    for (size_t i = 0; i < h.size(); i += 2) {
        int v = 0;
        for (int k = 0; k < 2; ++k) {
            const char c = h[i + k];
            int d;
            if (c >= '0' && c <= '9') d = c - '0';
            else if (c >= 'a' && c <= 'f') d = c - 'a' + 10;
            else if (c >= 'A' && c <= 'F') d = c - 'A' + 10;
            else return false;
            v = v * 16 + d;
        }
        r.push_back(static_cast<char>(v));
    }
    return true;
}
static std::string hex(const char *p, size_t n) {
    if (!n) return "-";
    static const char *d = "0123456789abcdef";
    std::string r;
    for (size_t i = 0; i < n; ++i) { const unsigned char c = p[i]; r.push_back(d[c >> 4]); r.push_back(d[c & 15]); }
    return r;
}
static std::string hex(const SBuf &s) { return hex(s.rawContent(), s.length()); }

static std::vector<std::string> words(const std::string &line) {
    std::vector<std::string> w;
    std::istringstream is(line);
    std::string x;
    while (is >> x) w.push_back(x);
    return w;
}

static bool parseLL(const std::string &s, long long &v) {
    if (s.empty()) return false;
    char *e = nullptr;
    errno = 0;
    v = strtoll(s.c_str(), &e, 10);
    return !errno && e && !*e;
}

static const int64_t Sentinel = 0x5a5a5a5a5a5a5a5aLL;

static std::string doI64(const std::vector<std::string> &w) {
    long long base, sign, limit;
    std::string bytes;
    if (w.size() != 5 || !parseLL(w[1], base) || !parseLL(w[2], sign) || !parseLL(w[3], limit) || !unhex(w[4], bytes))
        return "bad-op";
    if (base < INT_MIN || base > INT_MAX || limit < 0 || limit > 0xffffffffLL || (sign != 0 && sign != 1))
        return "bad-op";
    // exact-size heap copy as the source; SBuf copies it into its own store
    char *in = new char[bytes.size() ? bytes.size() : 1];
    memcpy(in, bytes.data(), bytes.size());
    const SBuf buf(in, bytes.size());
    delete[] in;
    Parser::Tokenizer tk(buf);
    int64_t result = Sentinel;
    const bool ok = tk.int64(result, static_cast<int>(base), sign != 0, static_cast<SBuf::size_type>(limit));
    if (!ok) {
        if (result != Sentinel) return "fail-touched:result";
        if (tk.parsedSize() != 0) return "fail-touched:parsed";
        if (tk.remaining() != buf) return "fail-touched:buffer";
        return "fail";
    }
    return "ok " + std::to_string(result) + " " + std::to_string(tk.parsedSize()) + " " + hex(tk.remaining());
}

static std::string doUdec(const std::vector<std::string> &w) {
    long long limit;
    std::string bytes;
    if (w.size() != 3 || !parseLL(w[1], limit) || !unhex(w[2], bytes) || limit < 0 || limit > 0xffffffffLL)
        return "bad-op";
    const SBuf buf(bytes.data(), bytes.size());
    Parser::Tokenizer tk(buf);
    try {
        const int64_t v = tk.udec64("verif", static_cast<SBuf::size_type>(limit));
        return "ok " + std::to_string(v) + " " + std::to_string(tk.parsedSize()) + " " + hex(tk.remaining());
    } catch (const Parser::InsufficientInput &) {
        return "throw:insufficient";
    } catch (const TextException &) {
        return "throw:parse";
    } catch (...) {
        return "throw:other";
    }
}

static char *cstrCopy(const std::string &bytes) {
    char *in = new char[bytes.size() + 1]; // exact size: ASan sees any over-read
    memcpy(in, bytes.data(), bytes.size());
    in[bytes.size()] = 0;
    return in;
}

static std::string doOffset(const std::vector<std::string> &w) {
    std::string bytes;
    if (w.size() != 2 || !unhex(w[1], bytes)) return "bad-op";
    if (bytes.find('\0') != std::string::npos) return "reject:nul";
    char *in = cstrCopy(bytes);
    int64_t v = Sentinel;
    char *const endSentinel = reinterpret_cast<char *>(&v); // something that is not inside `in`
    char *end = endSentinel;
    const bool ok = httpHeaderParseOffset(in, &v, &end);
    std::string out;
    if (!ok)
        out = (v != Sentinel || end != endSentinel) ? "fail-touched" : "fail";
    else if (end < in || end > in + bytes.size())
        out = "ok-bad-end";
    else
        out = "ok " + std::to_string(v) + " " + std::to_string(end - in);
    delete[] in;
    return out;
}

static std::string doInt(const std::vector<std::string> &w) {
    std::string bytes;
    if (w.size() != 2 || !unhex(w[1], bytes)) return "bad-op";
    if (bytes.find('\0') != std::string::npos) return "reject:nul";
    char *in = cstrCopy(bytes);
    int v = 0x5a5a5a5a;
    const int ok = httpHeaderParseInt(in, &v);
    delete[] in;
    if (!ok) return "fail";
    return "ok " + std::to_string(v);
}

int main(int argc, char **argv) {
    if (argc > 1 && !strcmp(argv[1], "--dump-consts")) {
        printf("npos %llu\n", static_cast<unsigned long long>(SBuf::npos));
        printf("maxSize %llu\n", static_cast<unsigned long long>(SBuf::maxSize));
        printf("int64Max %lld\n", static_cast<long long>(INT64_MAX));
        printf("int64Min %lld\n", static_cast<long long>(INT64_MIN));
        printf("llongMax %lld\n", LLONG_MAX);
        printf("llongMin %lld\n", LLONG_MIN);
        printf("longMax %ld\n", LONG_MAX);
        printf("longMin %ld\n", LONG_MIN);
        printf("intMax %d\n", INT_MAX);
        printf("intMin %d\n", INT_MIN);
        return 0;
    }
    std::string line;
    while (std::getline(std::cin, line)) {
        const auto w = words(line);
        std::string out;
        if (w.empty()) out = "bad-op";
        else if (w[0] == "i64") out = doI64(w);
        else if (w[0] == "ud") out = doUdec(w);
        else if (w[0] == "po") out = doOffset(w);
        else if (w[0] == "pi") out = doInt(w);
        else out = "bad-op";
        puts(out.c_str());
        fflush(stdout);
    }
    return 0;
}
