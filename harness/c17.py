"""C17 end-to-end harness: store/overwrite/purge histories on disk caches of the staged squid, clean restarts, hits afterwards.

Scenario line (space separated):
  <store> <nkeys> <phase1> <phase2>
    store   ufs | aufs | diskd | rock        (one squid instance per store type, `cache_dir <store> ...` with ample space)
    nkeys   number of URLs (keys 0..nkeys-1) of this scenario; every scenario has its own URL namespace
    phase   comma separated ops, '-' = none.  After EVERY phase all squids are shut down cleanly (SIGTERM, exit 0 awaited)
            and started again; requests are sent only after "Completed Validation Procedure" (the index rebuild is over).
    ops     S<k>.<n>.<seed>.<hv>  the origin gets a new version of key k (n body bytes from LCG(seed), header variant hv);
                                  GET with Cache-Control: no-cache (miss or reload); waits until store.log has the SWAPOUT
            F<k>                  plain GET (hit if cached, otherwise fetches and stores the origin's current version)
            G<k>                  GET with Cache-Control: only-if-cached (never contacts the origin)
            P<k>                  PURGE
            D<k>                  DELETE (forwarded; its 200 invalidates the cached GET entry)
Observation:
  <op results, comma separated> ; <final>
    op results   S=ok | F=H<ver> | F=M<ver> | G=H<ver> | G=M | P=<status> | D=<status>   (a trailing !what marks wrong bytes/headers)
    final        after the last restart, per key in order, an only-if-cached GET: H<ver> | M   (again with !what on wrong bytes)
    rock lines also carry ` img=<on-disk slot chains of the scenario's keys, read from the db file after the last shutdown>`
"""
import os, re, struct, threading, time, socket, signal, hashlib
from concurrent.futures import ThreadPoolExecutor
from e2e import rig

STORES = ("ufs", "aufs", "diskd", "rock")
ROCK_SLOT = 4096
ROCK_MB = 400
DIRCONF = {
    "ufs": "cache_dir ufs {dir}/cache 400 4 16\n",
    "aufs": "cache_dir aufs {dir}/cache 400 4 16\n",
    "diskd": "cache_dir diskd {dir}/cache 400 4 16\ndiskd_program {repo}/src/DiskIO/DiskDaemon/diskd\n",
    "rock": "cache_dir rock {dir}/cache %d max-size=2000000 slot-size=%d\n" % (ROCK_MB, ROCK_SLOT),
}
COMMON = ("cache_mem 8 MB\nmaximum_object_size 4 MB\ncache_store_log stdio:{dir}/store.log\nacl PURGE method PURGE\n"
          "mime_table /dev/null\n")
CTYPES = ["text/plain", "application/octet-stream", "text/html; charset=utf-8", None]


def body(n, seed, tag=b""):
    """version tag followed by an LCG stream (x' = 1664525 x + 1013904223 mod 2^32, byte = x' >> 24), cut to n bytes"""
    x = (seed * 2654435761 + 12345) & 0xffffffff
    out = bytearray(tag[:n])
    while len(out) < n:
        x = (x * 1664525 + 1013904223) & 0xffffffff
        out.append(x >> 24)
    return bytes(out)


def parse_ops(tok):
    if tok == "-":
        return []
    ops = []
    for o in tok.split(","):
        m = re.fullmatch(r"S(\d+)\.(\d+)\.(\d+)\.(\d)", o)
        if m:
            ops.append(("S", int(m.group(1)), int(m.group(2)), int(m.group(3)), int(m.group(4))))
            continue
        m = re.fullmatch(r"([FGPD])(\d+)", o)
        if m:
            ops.append((m.group(1), int(m.group(2))))
            continue
        return None
    return ops


def parse_line(line):
    t = line.split(" ")
    if len(t) != 4 or t[0] not in STORES or not t[1].isdigit():
        return None
    nk = int(t[1])
    ph = [parse_ops(t[2]), parse_ops(t[3])]
    if ph[0] is None or ph[1] is None or not (1 <= nk <= 8):
        return None
    for p in ph:
        for o in p:
            if o[1] >= nk or (o[0] == "S" and (o[2] > 3000000 or o[4] > 3)):
                return None
    return {"store": t[0], "nkeys": nk, "phases": ph}


class StoreLogTail(threading.Thread):
    """follows a squid's store.log: url -> list of (action, fileno)"""

    def __init__(self, path):
        super().__init__(daemon=True)
        self.path = path
        self.pos = 0
        self.cv = threading.Condition()
        self.swapouts = {}
        self.filenos = {}      # fileno -> set of urls stored there (rock: hash position; a second url = collision)
        self.keys = {}         # url -> cache key (hex) as logged
        self.released = set()  # file numbers released since the last start of the process
        self.reused = set()    # urls whose latest swap-out went to a file number that had been in use before
        self.running = True
        self.buf = b""
        self.poll_lock = threading.Lock()

    def poll(self):
        with self.poll_lock:
            self._poll()

    def _poll(self):
        try:
            with open(self.path, "rb") as f:
                f.seek(self.pos)
                d = f.read()
        except OSError:
            return
        if not d:
            return
        self.pos += len(d)
        self.buf += d
        lines = self.buf.split(b"\n")
        self.buf = lines.pop()
        with self.cv:
            for l in lines:
                f = l.split()
                if len(f) >= 13 and f[1] == b"SWAPOUT":
                    url = f[-1].decode("latin-1")
                    self.swapouts[url] = self.swapouts.get(url, 0) + 1
                    # a file number that is handed out again was released before (the release of an entry that came from the
                    # index rebuild is not logged): the unlink of its old file may still be queued
                    if f[3].decode() in self.filenos:
                        self.reused.add(url)
                    else:
                        self.reused.discard(url)
                    self.filenos.setdefault(f[3].decode(), set()).add(url)
                    self.keys[url] = f[4].decode()
                elif len(f) >= 5 and f[1] == b"RELEASE" and f[2] != b"-1":
                    self.released.add(f[3])
            self.cv.notify_all()

    def run(self):
        while self.running:
            self.poll()
            time.sleep(0.01)

    def restarted(self):
        with self.cv:
            self.released = set()

    def wait_swapouts(self, url, count, timeout):
        t0 = time.time()
        with self.cv:
            while self.swapouts.get(url, 0) < count:
                left = timeout - (time.time() - t0)
                if left <= 0:
                    return False
                self.cv.wait(min(left, 0.2))
        return True


class Scenario:
    def __init__(self, h, sc, sid):
        self.h, self.sc, self.sid = h, sc, sid
        self.cur = {}            # key -> current version number at the origin
        self.vers = {}           # (key, ver) -> (n, seed, hv)
        self.nswap = {}          # key -> SWAPOUT lines expected so far
        self.results = []
        self.failed = None
        h.origin.on(sid, self.handler)

    def url(self, k):
        return self.h.origin.url(self.sid, "k%d" % k)

    def new_version(self, k, n, seed, hv):
        """the dates of a version are fixed when the origin gets it (the cached copy must reproduce them)"""
        self.cur[k] = self.cur.get(k, 0) + 1
        self.vers[(k, self.cur[k])] = (n, seed, hv, rig.date_now(86400), rig.date_now(-864000 - self.cur[k]))

    def obj(self, k, ver):
        n, seed, hv, d_exp, d_lm = self.vers[(k, ver)]
        tag = b"[%s k%d v%d]" % (self.sid.encode(), k, ver)
        b = body(n, seed, tag)
        hd = [("ETag", '"%s-k%d-v%d"' % (self.sid, k, ver)), ("X-Ver", "k%dv%d" % (k, ver))]
        if hv in (0, 1, 3):
            hd.append(("Cache-Control", "max-age=86400"))
        if hv == 2:
            hd.append(("Expires", d_exp))
        if hv in (1, 2):
            hd.append(("Last-Modified", d_lm))
            hd.append(("X-Pad", "p" * (50 + 37 * ver)))
        if CTYPES[hv]:
            hd.append(("Content-Type", CTYPES[hv]))
        return b, hd, hv == 3

    def handler(self, req):
        m = re.search(r"/k(\d+)", req["first"])
        k = int(m.group(1)) if m else 0
        if req["first"].startswith("DELETE "):
            return [("send", rig.simple_response(200, b"deleted", [("Cache-Control", "no-store")]))]
        if k not in self.cur:
            self.new_version(k, 100 + 7 * k, 11 + k, 0)
        b, hd, chunked = self.obj(k, self.cur[k])
        if chunked:
            head = rig.simple_response(200, b"", hd + [("Transfer-Encoding", "chunked")], cl=False)
            acts = [("send", head)]
            step = max(1, (len(b) + 2) // 3)
            for i in range(0, len(b), step):
                seg = b[i:i + step]
                acts.append(("send", b"%x\r\n" % len(seg) + seg + b"\r\n"))
            acts.append(("send", b"0\r\n\r\n"))
            return acts
        return [("send", rig.simple_response(200, b, hd))]

    def check(self, r, k):
        """-> (ver or None, '' or '!what'): which origin version the 200 response carries and whether it is that version byte for byte"""
        xv = rig.hget(r["hdrs"], "x-ver") or ""
        m = re.fullmatch(r"k(\d+)v(\d+)", xv)
        if not m or int(m.group(1)) != k or (k, int(m.group(2))) not in self.vers:
            return None, "!unknown-version"
        ver = int(m.group(2))
        b, hd, _ = self.obj(k, ver)
        bad = ""
        if not r["complete"]:
            bad += "!incomplete"
        if r["body"] != b:
            bad += "!body(%d/%d)" % (len(r["body"]), len(b))
        for n, v in hd:
            if n.lower() in ("transfer-encoding",):
                continue
            if v not in rig.hall(r["hdrs"], n.lower()):
                bad += "!hdr-" + n
        cl = rig.hget(r["hdrs"], "content-length")
        if cl is not None and cl != str(len(b)):
            bad += "!cl"
        return ver, bad

    def get(self, k, headers=(), method="GET"):
        return rig.get(self.h.squids[self.sc["store"]].port, self.url(k), headers=headers, method=method, timeout=20)

    def do(self, op):
        sq = self.sc["store"]
        c, k = op[0], op[1]
        before = len(self.h.origin.requests(self.sid))
        if c == "S":
            self.new_version(k, op[2], op[3], op[4])
            r = self.get(k, [("Cache-Control", "no-cache")])
            if r is None or r["status"] != 200:
                return "S=fail%s" % (r["status"] if r else "")
            ver, bad = self.check(r, k)
            self.nswap[k] = self.nswap.get(k, 0) + 1
            if not self.h.tails[sq].wait_swapouts(self.url(k), self.nswap[k], 15 * rig.VERIF_SLOW):
                return "S=unsettled"
            return "S=ok" + ("" if ver == self.cur[k] else "!ver%s" % ver) + bad
        if c == "F":
            r = self.get(k)
            if r is None or r["status"] != 200:
                return "F=fail%s" % (r["status"] if r else "")
            ver, bad = self.check(r, k)
            fetched = len(self.h.origin.requests(self.sid)) > before
            if fetched:
                self.nswap[k] = self.nswap.get(k, 0) + 1
                if not self.h.tails[sq].wait_swapouts(self.url(k), self.nswap[k], 15 * rig.VERIF_SLOW):
                    return "F=unsettled"
            return "F=%s%s%s" % ("M" if fetched else "H", ver, bad)
        if c == "G":
            return "G=" + self.probe(k)
        if c == "P":
            r = self.get(k, method="PURGE")
            return "P=%s" % (r["status"] if r else "fail")
        if c == "D":
            r = self.get(k, method="DELETE")
            return "D=%s" % (r["status"] if r else "fail")
        return "?"

    def probe(self, k):
        before = len(self.h.origin.requests(self.sid))
        r = self.get(k, [("Cache-Control", "only-if-cached")])
        if r is None:
            return "fail"
        if len(self.h.origin.requests(self.sid)) > before:
            return "contacted-origin"
        if r["status"] == 504:
            return "M"
        if r["status"] != 200:
            return "status%d" % r["status"]
        ver, bad = self.check(r, k)
        return "H%s%s" % (ver, bad)

    def run_phase(self, i):
        if self.failed:
            return
        try:
            for op in self.sc["phases"][i]:
                self.results.append(self.do(op))
        except (OSError, RuntimeError) as e:
            self.failed = "io-error:" + type(e).__name__

    def final(self):
        if self.failed:
            return self.failed
        try:
            fin = [self.probe(k) for k in range(self.sc["nkeys"])]
        except (OSError, RuntimeError) as e:
            return "io-error:" + type(e).__name__
        return (",".join(self.results) if self.results else "-") + " ; " + " ".join(fin)


def rock_image(path, slot_size):
    """the non-empty cells of a rock db file: slot -> (key hex, entrySize, payloadSize, version, firstSlot, nextSlot, X-Ver of an inode)"""
    cells = {}
    try:
        with open(path, "rb") as f:
            f.seek(16 * 1024)
            i = 0
            while True:
                d = f.read(slot_size)
                if len(d) < 40:
                    break
                if d[:40] != b"\0" * 40:
                    k0, k1, es, ps, ver, first, nxt = struct.unpack("<QQQIIii", d[:40])
                    if first or nxt or ps:
                        m = re.search(rb"X-Ver: k\d+v(\d+)", d[40:40 + ps]) if first == i else None
                        cells[i] = (d[:16].hex().upper(), es, ps, ver, first, nxt, int(m.group(1)) if m else 0)
                i += 1
    except OSError:
        pass
    return cells


class Harness:
    def __init__(self, stage, stores=STORES):
        self.stage = stage
        self.origin = rig.Origin()
        self.squids, self.tails = {}, {}
        self.crashes = 0
        self.n = 0
        self.lock = threading.Lock()
        self.stores = stores
        for s in stores:
            sq = rig.Squid(stage, conf=DIRCONF[s] + COMMON)
            r = sq.init_dirs()
            if r.returncode != 0:
                raise RuntimeError("squid -z failed for %s: %s" % (s, (r.stdout + r.stderr)[-800:]))
            self.squids[s] = sq
        for s in stores:
            self._start(self.squids[s])
            self.tails[s] = StoreLogTail(os.path.join(self.squids[s].dir, "store.log"))
            self.tails[s].start()

    # -- squid lifecycle (always from the main thread) -------------------------------------------------
    def _start(self, s):
        s.proc = None
        p = os.path.join(s.dir, "cache.log")
        if os.path.exists(p):
            os.truncate(p, 0)
        for attempt in range(3):
            try:
                s.start(wait=90)
                break
            except RuntimeError:
                s.stop(kill=True)
                if os.path.exists(p):
                    os.truncate(p, 0)
                if attempt == 2:
                    raise
        t0 = time.time()
        while "Completed Validation Procedure" not in s.cache_log():
            if not s.alive() or time.time() - t0 > 120 * rig.VERIF_SLOW:
                raise RuntimeError("squid index rebuild did not finish: " + s.cache_log()[-800:])
            time.sleep(0.02)
        for _ in range(400):
            try:
                socket.create_connection(("127.0.0.1", s.port), timeout=1).close()
                return
            except OSError:
                time.sleep(0.02 * rig.VERIF_SLOW)
        raise RuntimeError("squid not accepting: " + s.cache_log()[-800:])

    def restart_all(self):
        """clean shutdown of every instance (SIGTERM; exit status 0 and 'Exiting normally' are required), then start"""
        bad = []
        procs = {}
        for name, s in self.squids.items():
            if s.alive():
                procs[name] = s.proc
                try:
                    os.kill(s.proc.pid, signal.SIGTERM)
                except OSError:
                    pass
        for name, p in procs.items():
            try:
                rc = p.wait(timeout=60 * rig.VERIF_SLOW)
            except Exception:
                rc = None
            s = self.squids[name]
            if rc != 0 or "Exiting normally" not in s.cache_log():
                bad.append(name)
            try:
                os.killpg(p.pid, signal.SIGKILL)      # helpers (diskd, unlinkd) that may linger
            except (OSError, PermissionError):
                pass
            s.proc = None
            s._rm_shm()
        for name, s in self.squids.items():
            self.tails[name].poll()
            self.tails[name].restarted()
            self._start(s)
        return bad

    # -- batches ------------------------------------------------------------------------------------------
    def run(self, lines, attempt=0):
        out = self.run_once(lines)
        # flake guard: an operation that could not be observed at all (timeout, socket error, swap-out not logged in time on an
        # overloaded machine) is not a verdict; such scenarios are run again, twice at most.  Wrong results are never retried.
        again = [i for i, o in enumerate(out) if re.search(r"=unsettled|=fail\b|=fail,|io-error|abort:restart-failed", o)]
        if again and attempt < 2:
            redo = self.run([lines[i] for i in again], attempt + 1)
            for i, o in zip(again, redo):
                out[i] = o
        return out

    def run_once(self, lines):
        scs = [parse_line(l) for l in lines]
        runs = []
        for sc in scs:
            if sc is None or sc["store"] not in self.squids:
                runs.append(None)
                continue
            with self.lock:
                self.n += 1
                sid = "c%dx%d" % (os.getpid() % 100000, self.n)
            runs.append(Scenario(self, sc, sid))
        live = [r for r in runs if r is not None]
        unclean = set()
        for ph in (0, 1):
            with ThreadPoolExecutor(max_workers=8) as ex:
                list(ex.map(lambda r: r.run_phase(ph), live))
            try:
                unclean.update(self.restart_all())
            except RuntimeError as e:
                self.crashes += 1
                return ["abort:restart-failed " + re.sub(r"\s+", "_", str(e))[:160]] * len(lines)
        with ThreadPoolExecutor(max_workers=8) as ex:
            fin = list(ex.map(lambda r: r.final(), live))
        finals = dict(zip([id(r) for r in live], fin))
        out = []
        images, swapfails = {}, {}
        for st, sq in self.squids.items():
            swapfails[st] = set(l.split()[6] for l in sq.access_log().splitlines() if "TCP_SWAPFAIL_MISS" in l and len(l.split()) > 6)
        if "rock" in self.squids and any(r is not None and r.sc["store"] == "rock" for r in runs):
            images["rock"] = rock_image(os.path.join(self.squids["rock"].dir, "cache", "rock"), ROCK_SLOT)
        for r in runs:
            if r is None:
                out.append("bad-op")
                continue
            o = finals[id(r)]
            st = r.sc["store"]
            if st in unclean:
                o = "abort:unclean-shutdown " + o
            probs = self.squids[st].problems()
            if probs:
                o = "abort:squid-problem " + re.sub(r"\s+", "_", probs[0])[:120]
            if st == "rock" and " ; " in o:
                # hash-position collisions with other URLs evict entries legitimately: report them so that the oracle can exclude the key
                tail = self.tails[st]
                with tail.cv:
                    coll = [k for k in range(r.sc["nkeys"]) if any(r.url(k) in urls and len(urls) > 1 for urls in tail.filenos.values())]
                if coll:
                    o += " collided=" + ",".join(str(k) for k in coll)
                with tail.cv:
                    keyhex = {k: tail.keys.get(r.url(k)) for k in range(r.sc["nkeys"])}
                parts = []
                for k in range(r.sc["nkeys"]):
                    cs = ["%d:%d:%d:%d:%d:%d" % (sl, c[4], c[5], c[2], c[1], c[6]) for sl, c in sorted(images["rock"].items()) if keyhex[k] and c[0] == keyhex[k]]
                    parts.append("%d/%s" % (k, ",".join(cs) if cs else "-"))
                o += " img=" + ";".join(parts)
            if st in ("ufs", "aufs", "diskd") and " ; " in o:
                tail = self.tails[st]
                with tail.cv:
                    reused = [k for k in range(r.sc["nkeys"]) if r.url(k) in tail.reused]
                sf = [k for k in range(r.sc["nkeys"]) if r.url(k) in swapfails[st]]
                if sf:
                    o += " swapfail=" + ",".join(str(k) for k in sf)
                if reused:
                    o += " reused=" + ",".join(str(k) for k in reused)
            out.append(o)
        return out

    def close(self):
        for t in self.tails.values():
            t.running = False
        for s in self.squids.values():
            try:
                s.stop(kill=True)
            except Exception:
                pass
        self.origin.close()
