// C49 harness: the real mem_hdr (src/stmem.cc, src/mem_node.cc, include/splay.h) from the staged tree under ASan/UBSan.
// fatal()/fatal_dump() throw (the production versions terminate squid); Mem::Init() is not called.
//
// One input line = one history on one mem_hdr:   op op op ...
//   w:<off>:h<hex>           write(StoreIOBuffer(len, off, bytes))        -> 1 | fatal
//   w:<off>:g<len>,<seed>    the same with len bytes of the generator stream `seed` (see genByte)
//   r:<off>:<len>            copy(StoreIOBuffer(len, off, buf))           -> <n>=<hex of the n bytes> (or <n>=#<fnv1a64> when n > 48)
//                                                                            | fatal (first byte absent) | empty (no nodes: the real code asserts)
//   c:<start>:<end>          hasContigousContentRange(Range(start,end))   -> 0 | 1
//   f:<off>                  freeDataUpto(off)                            -> <returned lowest offset>
//   b:<loc>                  getBlockContainingLocation(loc)              -> <off>+<len> | none
//   p:<k>                    NodeGet(k-th node in offset order)           -> 1 | busy (already write_pending) | none
//   q:<k>                    memNodeWriteComplete(data of the k-th node)  -> 1 | idle (not write_pending) | none
//   z                        freeContent()                                -> -
// After every op the state is printed:  <res>/<lowestOffset>/<endOffset>/<size>/<off>+<len>[*],...;<tree shape>
//   (* = write_pending; tree shape = the splay tree in preorder: (<left> <off> <right>), . for nil)
// endOffset() carries the assert(result == inmem_hi).
#include "squid.h"
#include "fatal.h"
#include "mem_node.h"
#include "stmem.h"
#include "Generic.h"
#include "debug/Stream.h"

#include <cstdio>
#include <cstring>
#include <iostream>
#include <sstream>
#include <stdexcept>
#include <string>
#include <vector>

struct FatalError { };

// time/libtime.la stand-ins (the debug module stamps its messages); the tree's stub aborts in getCurrentTime()
#include "time/gadgets.h"
struct timeval current_time = {};
double current_dtime = 0.0;
time_t squid_curtime = 0;
time_t getCurrentTime() { return squid_curtime; }

void fatal(const char *) { throw FatalError(); }
void fatal_dump(const char *) { throw FatalError(); }
void fatalf(const char *, ...) { throw FatalError(); }

static bool parseU63(const std::string &s, int64_t &r) {
    if (s.empty() || s.size() > 18) return false;
    int64_t v = 0;
    for (char c : s) { if (c < '0' || c > '9') return false; v = v * 10 + (c - '0'); }
    r = v;
    return true;
}
static std::vector<std::string> split(const std::string &s, char d) {
    std::vector<std::string> r; std::string cur;
    for (char c : s) { if (c == d) { r.push_back(cur); cur.clear(); } else cur.push_back(c); }
    r.push_back(cur);
    return r;
}
static int hexVal(char c) {
    if (c >= '0' && c <= '9') return c - '0';
    if (c >= 'a' && c <= 'f') return c - 'a' + 10;
    return -1;
}
static bool unhex(const std::string &h, std::string &out) {
    out.clear();
    if (h == "-") return true;
    if (h.size() % 2) return false;
    for (size_t i = 0; i < h.size(); i += 2) {
        const int a = hexVal(h[i]), b = hexVal(h[i + 1]);
        if (a < 0 || b < 0) return false;
        out.push_back(static_cast<char>(a * 16 + b));
    }
    return true;
}
static std::string hex(const char *p, size_t n) {
    if (!n) return "-";
    static const char *d = "0123456789abcdef";
    std::string r;
    for (size_t i = 0; i < n; ++i) { const unsigned char c = p[i]; r.push_back(d[c >> 4]); r.push_back(d[c & 15]); }
    return r;
}
// generator stream: x0 = seed, x(i+1) = (x(i) * 1103515245 + 12345) mod 2^31, byte i = (x(i+1) / 65536) mod 256
static std::string genBytes(uint64_t len, uint64_t seed) {
    std::string r;
    uint64_t x = seed % 2147483648ULL;
    for (uint64_t i = 0; i < len; ++i) {
        x = (x * 1103515245ULL + 12345ULL) % 2147483648ULL;
        r.push_back(static_cast<char>((x / 65536) % 256));
    }
    return r;
}
static std::string fnv(const char *p, size_t n) {
    uint64_t h = 14695981039346656037ULL;
    for (size_t i = 0; i < n; ++i) { h ^= static_cast<unsigned char>(p[i]); h *= 1099511628211ULL; }
    char buf[32];
    snprintf(buf, sizeof(buf), "#%016llx", static_cast<unsigned long long>(h));
    return buf;
}

struct Collect {
    std::vector<mem_node *> v;
    void operator()(mem_node *const &n) { v.push_back(n); }
};

static void shape(std::ostringstream &o, const SplayNode<mem_node *> *n) {
    if (!n) { o << '.'; return; }
    o << '(';
    shape(o, n->left);
    o << ' ' << n->data->nodeBuffer.offset << ' ';
    shape(o, n->right);
    o << ')';
}

static void snapshot(std::ostringstream &o, const std::string &res, mem_hdr &m) {
    o << res << '/' << m.lowestOffset() << '/' << m.endOffset() << '/' << m.size() << '/';
    Collect c;
    m.getNodes().visit(c);
    bool first = true;
    for (auto *n : c.v) {
        if (!first) o << ',';
        first = false;
        o << n->nodeBuffer.offset << '+' << n->nodeBuffer.length << (n->write_pending ? "*" : "");
    }
    if (first) o << '-';
    o << ';';
    shape(o, m.getNodes().head);
}

static const size_t MaxLen = 1 << 20;

struct Call {
    char op = 0;
    int64_t a = 0, b = 0;
    std::string data;
};

static bool parseCall(const std::string &tok, Call &c) {
    const auto f = split(tok, ':');
    if (f[0].size() != 1) return false;
    c.op = f[0][0];
    switch (c.op) {
    case 'w': {
        if (f.size() != 3 || !parseU63(f[1], c.a) || f[2].empty()) return false;
        if (f[2][0] == 'h') return unhex(f[2].substr(1), c.data) && c.data.size() <= MaxLen;
        if (f[2][0] == 'g') {
            const auto g = split(f[2].substr(1), ',');
            int64_t len, seed;
            if (g.size() != 2 || !parseU63(g[0], len) || !parseU63(g[1], seed) || static_cast<uint64_t>(len) > MaxLen) return false;
            c.data = genBytes(len, seed);
            return true;
        }
        return false;
    }
    case 'r':
        return f.size() == 3 && parseU63(f[1], c.a) && parseU63(f[2], c.b) && c.b >= 1 && static_cast<uint64_t>(c.b) <= MaxLen;
    case 'c':
        return f.size() == 3 && parseU63(f[1], c.a) && parseU63(f[2], c.b);
    case 'f': case 'b': case 'p': case 'q':
        return f.size() == 2 && parseU63(f[1], c.a);
    case 'z':
        return f.size() == 1;
    }
    return false;
}

static std::string runLine(const std::string &line) {
    std::vector<std::string> tk;
    { std::istringstream is(line); std::string w; while (is >> w) tk.push_back(w); }
    std::vector<Call> calls(tk.size());
    for (size_t i = 0; i < tk.size(); ++i)
        if (!parseCall(tk[i], calls[i])) return "bad-op";
    std::ostringstream o;
    {
        mem_hdr m;
        snapshot(o, "-", m);
        for (const auto &c : calls) {
            std::string res = "-";
            switch (c.op) {
            case 'w': {
                // exact-size heap copy so that ASan sees any over-read of the source
                char *src = c.data.empty() ? nullptr : new char[c.data.size()];
                if (src) memcpy(src, c.data.data(), c.data.size());
                try {
                    res = m.write(StoreIOBuffer(c.data.size(), c.a, src)) ? "1" : "0";
                } catch (const FatalError &) {
                    res = "fatal";
                }
                delete[] src;
            } break;
            case 'r': {
                if (m.size() == 0) { res = "empty"; break; }   // copy() asserts on an empty object
                const size_t len = static_cast<size_t>(c.b);
                char *buf = new char[len];
                memset(buf, 0xA5, len);
                try {
                    const ssize_t n = m.copy(StoreIOBuffer(len, c.a, buf));
                    if (n < 0 || static_cast<size_t>(n) > len) res = "badcount=" + std::to_string(n);
                    else {
                        bool clean = true;
                        for (size_t i = n; i < len; ++i) if (static_cast<unsigned char>(buf[i]) != 0xA5) clean = false;
                        res = std::to_string(n) + "=" + (n > 48 ? fnv(buf, n) : hex(buf, n)) + (clean ? "" : "!dirty");
                    }
                } catch (const FatalError &) {
                    res = "fatal";
                }
                delete[] buf;
            } break;
            case 'c':
                res = m.hasContigousContentRange(Range<int64_t>(c.a, c.b)) ? "1" : "0";
                break;
            case 'f':
                res = std::to_string(m.freeDataUpto(c.a));
                break;
            case 'b': {
                const mem_node *n = m.getBlockContainingLocation(c.a);
                res = n ? std::to_string(n->nodeBuffer.offset) + "+" + std::to_string(n->nodeBuffer.length) : "none";
            } break;
            case 'p': case 'q': {
                Collect col;
                m.getNodes().visit(col);
                if (static_cast<size_t>(c.a) >= col.v.size()) { res = "none"; break; }
                mem_node *n = col.v[c.a];
                if (c.op == 'p') {
                    if (n->write_pending) res = "busy";           // NodeGet asserts !write_pending
                    else { char *d = m.NodeGet(n); res = d == n->data ? "1" : "wrong-pointer"; }
                } else {
                    if (!n->write_pending) res = "idle";          // memNodeWriteComplete asserts write_pending
                    else { memNodeWriteComplete(n->data); res = "1"; }
                }
            } break;
            case 'z':
                m.freeContent();
                break;
            }
            o << ' ';
            snapshot(o, res, m);
        }
    }
    if (mem_node::InUseCount() != 0)
        o << " leak=" << mem_node::InUseCount();
    return o.str();
}

int main(int argc, char **argv) {
    if (argc > 1 && !strcmp(argv[1], "--dump-consts")) {
        printf("pageSize %d\n", SM_PAGE_SIZE);
        return 0;
    }
    // the debug module buffers "early" critical messages (at most 1000) until told where its output goes
    Debug::BanCacheLogUse();
    Debug::SettleStderr();
    Debug::SettleSyslog();
    std::string line;
    while (std::getline(std::cin, line)) {
        const std::string out = runLine(line);
        fputs(out.c_str(), stdout);
        fputc('\n', stdout);
        fflush(stdout);
    }
    return 0;
}
