// C59 harness: the real EventScheduler (src/event.cc), the real EventLoop (src/EventLoop.cc), the real AsyncCallQueue and the
// real cbdata.cc from the staged tree, built with ASan/UBSan.
//
// One input line = one history over a fresh EventScheduler; ops are separated by blanks, fields by commas.
// Times are integers in ticks of 1/1024 s (dyadic, so every double computed by the code under test is exact).
//   t,<delta>                 current_dtime += delta ticks (delta may be negative: clock stepped back)
//   s,<f>,<a>,<when>,<w>,<cb> scheduler.schedule("e<id>", H<f>, arg[a] (0 = nullptr), when/1024.0, w, cb); ids count 1,2,3...
//   c,<f>,<a>                 scheduler.cancel(H<f>, arg[a])
//   k                         scheduler.checkEvents(0)                       (dequeues; calls go to the AsyncCallQueue)
//   d                         AsyncCallQueue::Instance().fire()              (handlers run here)
//   l                         EventLoop::runOnce() with the scheduler as ordinary engine and a dummy primary engine
//   r                         scheduler.timeRemaining()
//   f,<f>,<a>                 scheduler.find(H<f>, arg[a])
//   i,<a>                     invalidate cbdata object a (delete => cbdataInternalFree; memory stays locked by the harness)
//   p                         dump the pending list (walks the private `tasks`; used for model comparison only)
// Output: one token per op, blank separated:
//   t -> "."   s -> "s<id>"   c -> "c" | "c!" (debug_trap called)   k -> "k:<ret>:<dequeued ids>"   d -> "d:<made>:<fired>"
//   l -> "l:<runOnce result>:<timeout handed to the primary engine>:<dequeued ids>:<fired>"   r -> "r:<ms>"   f -> "f:<0|1>"
//   i -> "i"   p -> "p:<ids>"
// id lists are '+' separated ("-" when empty); a fired entry is "<id>/<f>/<a>" = what the handler itself observed.
// The identity of a call is the event's name ("e<id>"): ScheduleCall is wrapped (ld --wrap) so that every call made by
// checkEvents is put into the real queue inside an outer call which publishes the inner call's name while the inner call
// is made (inner->make() is exactly what AsyncCallQueue::fire would have run).
#include "squid.h"
#include "AsyncEngine.h"
#include "base/AsyncCall.h"
#include "base/AsyncCallQueue.h"
#include "cbdata.h"
#include "event.h"
#include "EventLoop.h"
#include "mem/Pool.h"
#include "time/gadgets.h"

#include <cstdio>
#include <cstdlib>
#include <cstring>
#include <iostream>
#include <sstream>
#include <string>
#include <vector>

// ---- things the code under test calls and the harness wants to observe ----
static int g_traps = 0;
void debug_trap(const char *) { ++g_traps; }

static std::vector<std::string> g_dequeued;   // names in ScheduleCall order
static const char *g_current = nullptr;       // name of the call being made
static std::vector<std::string> g_fired;

class OuterDialer: public CallDialer
{
public:
    explicit OuterDialer(const AsyncCall::Pointer &c): inner(c) {}
    void print(std::ostream &os) const override { os << "(outer)"; }
    virtual bool canDial(AsyncCall &) { return true; }
    void dial(AsyncCall &) {
        g_current = inner->name;
        inner->make();
        g_current = nullptr;
    }
    AsyncCall::Pointer inner;
};

extern "C" bool __wrap__Z12ScheduleCallPKciRK8RefCountI9AsyncCallE(const char *fileName, int fileLine, const AsyncCall::Pointer &call);
extern "C" bool __wrap__Z12ScheduleCallPKciRK8RefCountI9AsyncCallE(const char *fileName, int fileLine, const AsyncCall::Pointer &call)
{
    g_dequeued.push_back(call->name);
    AsyncCall::Pointer outer = asyncCall(41, 9, "outer", OuterDialer(call));
    AsyncCallQueue::Instance().schedule(outer);
    (void)fileName; (void)fileLine;
    return true;
}

// ---- memory: every pooled object is its own malloc block of the exact size, so ASan sees any stale or out-of-bounds access
// (replaces tests/stub_libmem.o, whose MemPools::create() returns nullptr and so cannot serve the real cbdata.cc) ----
#include "mem/Allocator.h"
#include "mem/AllocatorProxy.h"
#include "mem/Stats.h"
void *Mem::AllocatorProxy::alloc() { return doZero ? xcalloc(1, size) : xmalloc(size); }
void Mem::AllocatorProxy::freeOne(void *address) { xfree(address); }
int Mem::AllocatorProxy::inUseCount() const { return 0; }
size_t Mem::AllocatorProxy::getStats(PoolStats &) { return 0; }
class MallocAllocator: public Mem::Allocator
{
public:
    MallocAllocator(const char *l, size_t sz): Mem::Allocator(l, sz), exact(sz) {}
    size_t getStats(Mem::PoolStats &) override { return 0; }
    bool idleTrigger(int) const override { return false; }
    void clean(time_t) override {}
protected:
    void *allocate() override { return xcalloc(1, objectSize); }   // objectSize = RoundedSize(sz), as the real pools
    void deallocate(void *p) override { xfree(p); }
    size_t exact;
};
static MemPools *g_pools = nullptr;
MemPools &MemPools::GetInstance() { if (!g_pools) g_pools = new MemPools; return *g_pools; }
MemPools::MemPools() {}
Mem::Allocator *MemPools::create(const char *label, size_t sz) { return new MallocAllocator(label, sz); }

void fatal(const char *m) { fprintf(stderr, "FATAL: %s\n", m); abort(); }
void fatal_dump(const char *m) { fprintf(stderr, "FATAL: %s\n", m); abort(); }

// ---- handler arguments ----
class ArgObj
{
    CBDATA_CLASS(ArgObj);
public:
    ArgObj() {}
    int dummy = 0;
};
CBDATA_CLASS_INIT(ArgObj);

static const int NARG = 8;
static const int NFUNC = 6;
static void *g_arg[NARG + 1];
static bool g_argValid[NARG + 1];

static int argIndex(void *p) {
    if (!p) return 0;
    for (int i = 1; i <= NARG; ++i) if (g_arg[i] == p) return i;
    return -1;
}

template <int F> static void H(void *a) {
    std::ostringstream os;
    os << (g_current ? g_current + 1 : "?") << '/' << F << '/' << argIndex(a);
    g_fired.push_back(os.str());
}
static EVH *g_func[NFUNC + 1] = { nullptr, H<1>, H<2>, H<3>, H<4>, H<5>, H<6> };

class PrimaryEngine: public AsyncEngine
{
public:
    int checkEvents(int timeout) override { lastTimeout = timeout; return EVENT_IDLE; }
    int lastTimeout = -7;
};

static std::string join(const std::vector<std::string> &v) {
    if (v.empty()) return "-";
    std::string r;
    for (size_t i = 0; i < v.size(); ++i) { if (i) r += '+'; r += v[i]; }
    return r;
}
static std::string ids(const std::vector<std::string> &names) {
    std::vector<std::string> v;
    for (const auto &n : names) v.push_back(n.substr(1));
    return join(v);
}

static std::vector<std::string> split(const std::string &s, char sep) {
    std::vector<std::string> r;
    std::string cur;
    for (char c : s) { if (c == sep) { r.push_back(cur); cur.clear(); } else cur.push_back(c); }
    r.push_back(cur);
    return r;
}

static bool num(const std::string &s, long long &v) {
    if (s.empty()) return false;
    char *e = nullptr;
    v = strtoll(s.c_str(), &e, 10);
    return *e == 0;
}

// names must stay alive as long as any call may print them: keep them for the whole process
static std::vector<char *> g_names;

static std::string runLine(const std::string &line) {
    long long now = 0;
    current_dtime = 0.0;
    g_traps = 0;
    g_dequeued.clear();
    g_fired.clear();
    for (int i = 1; i <= NARG; ++i) {
        ArgObj *o = new ArgObj;
        g_arg[i] = cbdataReference(o);   // the macro evaluates its argument twice
        g_argValid[i] = true;
    }
    std::string out;
    int nextId = 1;
    bool bad = false;
    {
        EventScheduler scheduler;
        EventLoop loop;
        PrimaryEngine primary;
        loop.registerEngine(&scheduler);
        loop.registerEngine(&primary);
        loop.setPrimaryEngine(&primary);

        for (const auto &op : split(line, ' ')) {
            if (op.empty()) continue;
            const auto f = split(op, ',');
            std::vector<long long> n(f.size(), 0);
            bool ok = true;
            for (size_t i = 1; i < f.size(); ++i) ok = ok && num(f[i], n[i]);
            std::ostringstream os;
            const auto inF = [&](long long v) { return v >= 1 && v <= NFUNC; };
            const auto inA = [&](long long v) { return v >= 0 && v <= NARG; };
            if (!ok) { bad = true; break; }
            if (f[0] == "t" && f.size() == 2) {
                now += n[1];
                current_dtime = static_cast<double>(now) / 1024.0;
                os << ".";
            } else if (f[0] == "s" && f.size() == 6 && inF(n[1]) && inA(n[2]) && (n[5] == 0 || n[5] == 1)
                       && n[4] >= -2147483647LL && n[4] <= 2147483647LL) {
                char *name = strdup(("e" + std::to_string(nextId)).c_str());
                g_names.push_back(name);
                scheduler.schedule(name, g_func[n[1]], g_arg[n[2]], static_cast<double>(n[3]) / 1024.0, static_cast<int>(n[4]), n[5] == 1);
                os << "s" << nextId;
                ++nextId;
            } else if (f[0] == "c" && f.size() == 3 && inF(n[1]) && inA(n[2])) {
                const int before = g_traps;
                scheduler.cancel(g_func[n[1]], g_arg[n[2]]);
                os << (g_traps != before ? "c!" : "c");
            } else if (f[0] == "k" && f.size() == 1) {
                g_dequeued.clear();
                const int r = scheduler.checkEvents(0);
                os << "k:" << r << ":" << ids(g_dequeued);
            } else if (f[0] == "d" && f.size() == 1) {
                g_fired.clear();
                const bool made = AsyncCallQueue::Instance().fire();
                os << "d:" << (made ? 1 : 0) << ":" << join(g_fired);
            } else if (f[0] == "l" && f.size() == 1) {
                g_dequeued.clear();
                g_fired.clear();
                primary.lastTimeout = -7;
                const bool r = loop.runOnce();
                os << "l:" << (r ? 1 : 0) << ":" << primary.lastTimeout << ":" << ids(g_dequeued) << ":" << join(g_fired);
            } else if (f[0] == "r" && f.size() == 1) {
                os << "r:" << scheduler.timeRemaining();
            } else if (f[0] == "f" && f.size() == 3 && inF(n[1]) && inA(n[2])) {
                os << "f:" << (scheduler.find(g_func[n[1]], g_arg[n[2]]) ? 1 : 0);
            } else if (f[0] == "i" && f.size() == 2 && n[1] >= 1 && n[1] <= NARG) {
                if (g_argValid[n[1]]) {
                    delete static_cast<ArgObj *>(g_arg[n[1]]);   // marks the cbdata invalid; the harness lock keeps the memory
                    g_argValid[n[1]] = false;
                }
                os << "i";
            } else if (f[0] == "p" && f.size() == 1) {
                std::vector<std::string> v;
                for (auto *e = scheduler.tasks; e; e = e->next) v.push_back(e->name);
                os << "p:" << ids(v);
            } else {
                bad = true;
                break;
            }
            if (!out.empty()) out += ' ';
            out += os.str();
        }
        // calls still queued refer to this line's objects: make them before the objects go away (output discarded)
        AsyncCallQueue::Instance().fire();
    }   // ~EventScheduler: clean()
    for (int i = 1; i <= NARG; ++i) {
        if (g_argValid[i]) delete static_cast<ArgObj *>(g_arg[i]);
        void *p = g_arg[i];
        cbdataReferenceDone(p);
        g_arg[i] = nullptr;
    }
    if (bad) return "bad-op";
    return out.empty() ? "-" : out;
}

int main(int argc, char **argv) {
    if (argc > 1 && !strcmp(argv[1], "--probe-cancel")) {
        // used by translate/event_cfg.py: does cancel(f, nullptr) leave the successor of a removed node in place?
        const std::string r = runLine("s,1,0,0,0,0 s,1,0,0,0,0 s,1,0,0,0,0 c,1,0 p");
        puts(r.c_str());
        return 0;
    }
    std::string line;
    while (std::getline(std::cin, line)) {
        puts(runLine(line).c_str());
        fflush(stdout);
    }
    return 0;
}
