// C54 harness: the real Ipc::ReadWriteLock (an instrumented copy of the staged source: std::atomic -> verif::atomic)
// run by virtual threads under a deterministic schedule, one atomic operation per step.
// line:  <nthreads> <ops of t0>;<ops of t1>;... <schedule: thread ids, comma separated | ->
//   ops: LS lockShared, LE lockExclusive, LH lockHeaders, US unlockShared, UE unlockExclusive, UH unlockHeaders,
//        SW switchExclusiveToShared, UX unlockSharedAndSwitchToExclusive, SA startAppending, ST stopAppendingAndRestoreExclusive
//   an op not allowed by the caller contract in the thread's current holding mode is skipped.
// After the schedule is exhausted the remaining threads run to completion round-robin.
// out:   log=<atomic operations in execution order> res=<per-thread results> final=R,W,A,U,RL,WL modes=<..> viol=<-|text>
#include "squid.h"
#define private public
#include "ipc/ReadWriteLock.h"
#undef private
#include "verif_sched.h"
#include <iostream>
#include <sstream>

// stubs for the two symbols the copied translation unit needs
void xassert(const char *msg, const char *file, int line) { if (verif::sched) verif::sched->note(std::string("xassert:") + msg); }
class StoreEntry;
void storeAppendPrintf(StoreEntry *, const char *, ...) {}

enum Mode { mIdle, mS, mH, mE, mA, mD };
static const char *modeName[] = {"idle", "holdS", "holdH", "holdE", "holdA", "holdD"};

static std::vector<std::string> split(const std::string &s, char d) {
    std::vector<std::string> r; std::string cur;
    for (char c : s) { if (c == d) { r.push_back(cur); cur.clear(); } else cur.push_back(c); }
    r.push_back(cur);
    return r;
}

struct Scenario {
    Ipc::ReadWriteLock lock;
    std::vector<Mode> mode;
    std::vector<std::string> results;
    verif::Sched sched;

    // direct oracle on API-level holder modes
    void checkHolders() {
        int excl = 0, strict = 0, shared = 0, hdr = 0;
        for (auto m : mode) {
            if (m == mE || m == mA || m == mD) ++excl;
            if (m == mE) ++strict;
            if (m == mS || m == mH) ++shared;
            if (m == mH) ++hdr;
        }
        if (excl > 1) sched.note("two-exclusive-holders");
        if (strict && shared) sched.note("exclusive-with-shared-holder");
        if (hdr > 1) sched.note("two-header-updaters");
    }

    void runOps(int t, const std::vector<std::string> &ops) {
        for (const auto &op : ops) {
            Mode &m = mode[t];
            std::string r = "";
            if (op == "LS" && m == mIdle) { bool ok = lock.lockShared(); if (ok) m = mS; r = ok ? "1" : "0"; }
            else if (op == "LE" && m == mIdle) { bool ok = lock.lockExclusive(); if (ok) m = mE; r = ok ? "1" : "0"; }
            else if (op == "LH" && m == mIdle) { bool ok = lock.lockHeaders(); if (ok) m = mH; r = ok ? "1" : "0"; }
            else if (op == "US" && m == mS) { m = mIdle; lock.unlockShared(); r = "1"; }
            else if (op == "UE" && (m == mE || m == mA || m == mD)) { m = mIdle; lock.unlockExclusive(); r = "1"; }
            else if (op == "UH" && m == mH) { m = mIdle; lock.unlockHeaders(); r = "1"; }
            else if (op == "SW" && (m == mE || m == mA || m == mD)) { m = mIdle; lock.switchExclusiveToShared(); m = mS; r = "1"; }
            else if (op == "UX" && m == mS) { m = mIdle; bool ok = lock.unlockSharedAndSwitchToExclusive(); if (ok) m = mE; r = ok ? "1" : "0"; }
            else if (op == "SA" && (m == mE || m == mD)) { lock.startAppending(); m = mA; r = "1"; }
            else if (op == "ST" && m == mA) { m = mD; bool ok = lock.stopAppendingAndRestoreExclusive(); m = ok ? mE : mD; r = ok ? "1" : "0"; }
            else continue;   // not allowed in this mode: skipped, no atomic operation
            results[t] += op + "=" + r + ",";
            checkHolders();
        }
    }
};

int main() {
    std::string line;
    while (std::getline(std::cin, line)) {
        std::istringstream is(line);
        int n = 0; std::string opsAll, schedStr;
        is >> n >> opsAll >> schedStr;
        if (n < 1 || n > 16 || opsAll.empty() || schedStr.empty()) { puts("bad-op"); fflush(stdout); continue; }
        auto per = split(opsAll, ';');
        if (static_cast<int>(per.size()) != n) { puts("bad-op"); fflush(stdout); continue; }
        Scenario sc;
        sc.mode.assign(n, mIdle);
        sc.results.assign(n, "");
        sc.sched.name(&sc.lock.readers, "R"); sc.sched.name(&sc.lock.writing, "W"); sc.sched.name(&sc.lock.appending, "A");
        sc.sched.name(&sc.lock.updating, "U"); sc.sched.name(&sc.lock.readLevel, "RL"); sc.sched.name(&sc.lock.writeLevel, "WL");
        verif::sched = &sc.sched;
        for (int t = 0; t < n; ++t) {
            std::vector<std::string> ops = per[t] == "-" ? std::vector<std::string>() : split(per[t], ',');
            sc.sched.spawn([&sc, t, ops]() { sc.runOps(t, ops); });
        }
        sc.sched.prime();
        if (schedStr != "-")
            for (const auto &tk : split(schedStr, ',')) {
                sc.sched.step(atoi(tk.c_str()));
                sc.checkHolders();
            }
        while (!sc.sched.allDone())
            for (int t = 0; t < n; ++t) { sc.sched.step(t); sc.checkHolders(); }
        // quiescent: if nobody holds anything the lock must be pristine and acquirable
        bool allIdle = true;
        for (auto m : sc.mode) if (m != mIdle) allIdle = false;
        verif::sched = nullptr;
        std::ostringstream out;
        out << "log=";
        for (size_t i = 0; i < sc.sched.log.size(); ++i) out << (i ? "," : "") << sc.sched.log[i];
        if (sc.sched.log.empty()) out << "-";
        out << " res=";
        for (int t = 0; t < n; ++t) out << (t ? ";" : "") << (sc.results[t].empty() ? "-" : sc.results[t]);
        out << " final=" << sc.lock.readers.raw() << "," << sc.lock.writing.raw() << "," << sc.lock.appending.raw() << ","
            << sc.lock.updating.raw() << "," << sc.lock.readLevel.raw() << "," << sc.lock.writeLevel.raw();
        out << " modes=";
        for (int t = 0; t < n; ++t) out << (t ? "," : "") << modeName[sc.mode[t]];
        if (allIdle) {
            if (sc.lock.readers.raw() || sc.lock.writing.raw() || sc.lock.appending.raw() || sc.lock.updating.raw() ||
                    sc.lock.readLevel.raw() || sc.lock.writeLevel.raw())
                sc.sched.note("not-idle-after-all-released");
            else {
                if (!sc.lock.lockExclusive()) sc.sched.note("cannot-lock-exclusive-when-idle");
                else { sc.lock.unlockExclusive(); if (!sc.lock.lockShared()) sc.sched.note("cannot-lock-shared-when-idle"); else sc.lock.unlockShared(); }
            }
        }
        out << " viol=" << (sc.sched.violation.empty() ? "-" : sc.sched.violation);
        puts(out.str().c_str());
        fflush(stdout);
    }
    return 0;
}
