// C56 harness: the real Ipc::OneToOneUniQueue + Ipc::QueueReader (an instrumented copy of the staged src/ipc/Queue.{h,cc}:
// std::atomic -> verif::atomic, memcpy -> verif56::slot_memcpy) driven by two virtual threads under a deterministic schedule,
// one memory operation (atomic operation or slot memcpy) per step.
//
// line:  <capacity> <start> <producer ops> <schedule>
//   capacity  1..64           theCapacity of the queue (constructed in ordinary heap memory)
//   start     0..2^32-1       initial value of theIn and theOut (as after that many push/pop pairs)
//   ops       P<v>,...|-      P<v>: push(Item{v}, &reader) and, when push() returns true, send one notification;
//                             L: push an item larger than theMaxItemSize (must throw ItemTooLarge)
//   schedule  0,1,...|-       0 = producer, 1 = consumer performs its next memory operation
// The consumer is the loop squid runs: clearSignal() at start; then forever { while (pop(v,&reader)) deliver v;
// wait for a notification; clearSignal(); }.
// After the schedule is exhausted both threads are stepped alternately until the producer is done, the consumer waits and no
// notification is in flight.
// out:  log=<atomic operations> res=<push results> recv=<delivered values> final=S,B,G,N,in,out buf=<slots> viol=<-|text>
// The viol field is the direct oracle, computed from API-level observations only (push/pop return values, size(), blocked(),
// signaled()).
#include "squid.h"
// everything Queue.h includes, first (so that only Queue.h itself is seen with private members opened up)
#include "base/InstanceId.h"
#include "base/TextException.h"
#include "debug/Stream.h"
#include "ipc/mem/FlexibleArray.h"
#include "ipc/mem/Pointer.h"
#include "ipc/mem/Segment.h"
#include "SquidString.h"
#include "util.h"
#include "verif_atomic.h"
#include "verif_sched.h"
#include "c56_memcpy.h"
#include <algorithm>
#include <atomic>
#include <iostream>
#include <sstream>
#include <stdexcept>
#include <new>
#define private public
#include "ipc/Queue.h"
#undef private

// ---- stubs for what the copied Queue.cc references but the scenarios never execute ----
void xassert(const char *msg, const char *, int) { if (verif::sched) verif::sched->note(std::string("xassert:") + msg); }
int Debug::Levels[MAX_DEBUG_SECTIONS];
static std::ostringstream debugSink;
std::ostringstream &Debug::Start(const int, const int) { debugSink.str(""); return debugSink; }
void Debug::Finish() {}
[[noreturn]] void ReportAndThrow_(int, const char *description, const SourceLocation &) { throw std::runtime_error(description ? description : "Must"); }
std::ostream &SourceLocation::print(std::ostream &os) const { return os; }
String::String(String const &) {}
String::~String() {}
void String::append(char const *) {}
#if HAVE_SHM
Ipc::Mem::Segment::Segment(const char *const) : theFD(-1), theMem(nullptr), theSize(0), theReserved(0), doUnlink(false) { abort(); }
#else
Ipc::Mem::Segment::Segment(const char *const) : theMem(nullptr), theSize(0), theReserved(0), doUnlink(false) { abort(); }
#endif
Ipc::Mem::Segment::~Segment() {}
void Ipc::Mem::Segment::open(const bool) { abort(); }
void Ipc::Mem::Segment::create(const off_t) { abort(); }
void *Ipc::Mem::Segment::reserve(size_t) { abort(); }

namespace verif56 {
const char *bufBase = nullptr;
size_t bufLen = 0;
size_t itemSize = 0;
long pendingWrite[2] = {-1, -1};
long pendingRead[2] = {-1, -1};
}

struct Item { int32_t v; };
struct Big { char c[3 * sizeof(Item)]; };

static std::vector<std::string> split(const std::string &s, char d) {
    std::vector<std::string> r; std::string cur;
    for (char c : s) { if (c == d) { r.push_back(cur); cur.clear(); } else cur.push_back(c); }
    r.push_back(cur);
    return r;
}

struct Scenario {
    Ipc::OneToOneUniQueue *q = nullptr;
    Ipc::QueueReader reader;
    verif::atomic<int> notif{0};         // the notification channel: number of notifications in flight
    verif::Sched sched;
    // API-level bookkeeping for the direct oracle
    std::vector<int> accepted;           // values whose push() returned normally, plus the value of a push() in progress
    bool inPush = false;
    size_t pushEntryLog = 0;             // log length when the current push() was entered
    std::vector<int> recv;               // values delivered by pop() == true
    bool consumerWaits = false;
    bool stop = false;
    std::string results;

    void producer(const std::vector<std::string> &ops) {
        for (const auto &op : ops) {
            if (op == "L") {
                try { Big b{}; (void)q->push(b, &reader); results += "L=0,"; sched.note("oversized-item-accepted"); }
                catch (const Ipc::OneToOneUniQueue::ItemTooLarge &) { results += "L=T,"; }
                continue;
            }
            const int v = atoi(op.c_str() + 1);
            inPush = true;
            pushEntryLog = sched.log.size();
            accepted.push_back(v);
            try {
                const bool mustNotify = q->push(Item{v}, &reader);
                results += op + (mustNotify ? "=1," : "=0,");
                if (mustNotify)
                    notif.fetch_add(1);
            } catch (const Ipc::OneToOneUniQueue::Full &) {
                accepted.pop_back();
                results += op + "=F,";
            }
            inPush = false;
        }
    }

    void consumer() {
        reader.clearSignal();
        for (;;) {
            Item it{};
            while (q->pop(it, &reader))
                recv.push_back(it.v);
            consumerWaits = true;
            for (;;) {
                verif::op_begin();
                if (stop)
                    return;
                const int n = notif.raw();
                if (n > 0) { notif.raw_set(n - 1); verif::op_log(&notif, "recv", n, n - 1); break; }
                verif::op_log(&notif, "poll", 0, 0);
            }
            consumerWaits = false;
            reader.clearSignal();
        }
    }

    bool producerTouchedMemoryInThisPush() const {
        if (!inPush) return false;
        for (size_t i = pushEntryLog; i < sched.log.size(); ++i)
            if (sched.log[i].compare(0, 2, "0:") == 0) return true;
        return false;
    }

    // the property, judged on what the API shows right now (called from the scheduler context: atomics run inline, unlogged)
    void check() {
        if (recv.size() > accepted.size()) { sched.note("received-more-than-pushed"); return; }
        for (size_t i = 0; i < recv.size(); ++i)
            if (recv[i] != accepted[i]) { sched.note("fifo-violation-at-" + std::to_string(i)); return; }
        if (q->size() < 0 || q->size() > q->capacity()) sched.note("size-out-of-range");
        // the two sides are about to touch the same slot with plain memcpy()s: a data race in the real (multi-process) setting
        if (verif56::pendingWrite[0] >= 0 && verif56::pendingWrite[0] == verif56::pendingRead[1]) sched.note("data-race-on-slot");
        if (consumerWaits && !producerTouchedMemoryInThisPush() && notif.raw() == 0) {
            if (q->size() > 0)
                sched.note("consumer-asleep-with-items-and-no-notification");
            else if (!(reader.blocked() && !reader.signaled()))
                sched.note("idle-on-empty-queue-but-next-push-would-not-notify");
        }
    }
};

int main() {
    std::string line;
    while (std::getline(std::cin, line)) {
        std::istringstream is(line);
        long cap = 0; unsigned long long start = 0; std::string opsStr, schedStr;
        is >> cap >> start >> opsStr >> schedStr;
        if (cap < 1 || cap > 64 || start > 0xFFFFFFFFull || opsStr.empty() || schedStr.empty()) { puts("bad-op"); fflush(stdout); continue; }
        std::vector<std::string> ops = opsStr == "-" ? std::vector<std::string>() : split(opsStr, ',');
        bool bad = false;
        for (const auto &op : ops) {
            if (op == "L") continue;
            if (op.size() < 2 || op.size() > 11 || op[0] != 'P') { bad = true; continue; }
            for (size_t i = 1; i < op.size(); ++i) if (!isdigit(static_cast<unsigned char>(op[i]))) bad = true;
            if (!bad && atoll(op.c_str() + 1) > 2147483647LL) bad = true;
        }
        std::vector<int> schedule;
        if (schedStr != "-")
            for (const auto &tk : split(schedStr, ',')) { if (tk == "0") schedule.push_back(0); else if (tk == "1") schedule.push_back(1); else bad = true; }
        if (bad) { puts("bad-op"); fflush(stdout); continue; }

        Scenario sc;
        const int bytes = Ipc::OneToOneUniQueue::Items2Bytes(sizeof(Item), cap);
        void *mem = calloc(1, bytes);
        try {
            sc.q = new (mem) Ipc::OneToOneUniQueue(sizeof(Item), cap);
        } catch (const std::exception &e) {
            free(mem);
            puts("reject:ctor"); fflush(stdout); continue;
        }
        sc.q->theIn = sc.q->theOut = static_cast<unsigned int>(start);
        sc.sched.name(&sc.q->theSize, "S"); sc.sched.name(&sc.reader.popBlocked, "B"); sc.sched.name(&sc.reader.popSignal, "G");
        sc.sched.name(&sc.notif, "N"); sc.sched.name(sc.q->theBuffer, "M");
        verif56::bufBase = sc.q->theBuffer; verif56::bufLen = cap * sizeof(Item); verif56::itemSize = sizeof(Item);
        verif56::pendingWrite[0] = verif56::pendingWrite[1] = verif56::pendingRead[0] = verif56::pendingRead[1] = -1;
        verif::sched = &sc.sched;
        sc.sched.spawn([&sc, ops]() { sc.producer(ops); });
        sc.sched.spawn([&sc]() { sc.consumer(); });
        sc.sched.prime();
        sc.check();
        for (int t : schedule) { sc.sched.step(t); sc.check(); }
        int fuel = 40 * (static_cast<int>(ops.size()) + 2);
        auto quiescent = [&]() { return sc.sched.threads[0]->done && sc.consumerWaits && sc.notif.raw() == 0; };
        while (!quiescent() && fuel-- > 0)
            for (int t = 0; t < 2; ++t) { sc.sched.step(t); sc.check(); }

        std::ostringstream out;
        out << "log=";
        for (size_t i = 0; i < sc.sched.log.size(); ++i) out << (i ? "," : "") << sc.sched.log[i];
        if (sc.sched.log.empty()) out << "-";
        out << " res=" << (sc.results.empty() ? "-" : sc.results);
        out << " recv=";
        for (size_t i = 0; i < sc.recv.size(); ++i) out << (i ? "," : "") << sc.recv[i];
        if (sc.recv.empty()) out << "-";
        out << " final=" << sc.q->theSize.raw() << "," << sc.reader.popBlocked.raw() << "," << sc.reader.popSignal.raw() << ","
            << sc.notif.raw() << "," << sc.q->theIn << "," << sc.q->theOut;
        out << " buf=";
        for (long i = 0; i < cap; ++i) { Item it; memcpy(&it, sc.q->theBuffer + i * sizeof(Item), sizeof(Item)); out << (i ? "," : "") << it.v; }

        if (!quiescent())
            sc.sched.note("no-quiescence");
        else {
            // nothing can move any more: every accepted item must have been delivered, in order ...
            if (sc.recv != sc.accepted) sc.sched.note("quiescent-but-delivered-differs-from-pushed");
            if (sc.q->size() != 0) sc.sched.note("quiescent-with-items-left");
            // ... and the next push must ask for a notification, which wakes the consumer up to deliver it
            const int probe = 777777;
            bool asked = false;
            try { asked = sc.q->push(Item{probe}, &sc.reader); } catch (...) { sc.sched.note("probe-push-threw"); }
            if (!asked) sc.sched.note("push-to-sleeping-consumer-did-not-request-notification");
            else {
                sc.notif.raw_set(sc.notif.raw() + 1);
                for (int i = 0; i < 40 && !(sc.consumerWaits && sc.notif.raw() == 0 && sc.q->size() == 0); ++i) sc.sched.step(1);
                if (sc.recv.empty() || sc.recv.back() != probe || sc.recv.size() != sc.accepted.size() + 1) sc.sched.note("probe-item-not-delivered");
            }
        }
        sc.stop = true;
        sc.sched.step(1);
        verif::sched = nullptr;
        verif56::bufBase = nullptr;
        out << " viol=" << (sc.sched.violation.empty() ? "-" : sc.sched.violation);
        puts(out.str().c_str());
        fflush(stdout);
        sc.q->~OneToOneUniQueue();
        free(mem);
    }
    return 0;
}
