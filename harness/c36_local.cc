// C36 harness, second translation unit: the anchored lib/base64.cc itself.  This build defines
// HAVE_NETTLE_BASE64_H (lib/base64.cc compiles to nothing, squid calls libnettle); here the macro is
// undefined before the file is included so that the repository's own coder is compiled (with
// ASan/UBSan) and reachable as `c36_local`.  Its functions have C++ linkage and plain names, nettle's
// are `nettle_base64_*` with C linkage, so both live in one executable.
// With -DC36_LOCAL_BASIC the same translation unit also compiles src/auth/basic/Config.cc against
// this coder (what a build without libnettle would run).
#include "squid.h"
#undef HAVE_NETTLE_BASE64_H
#include "../lib/base64.cc"
#ifdef C36_LOCAL_BASIC
#include "auth/basic/Config.cc"
#endif
#define C36_IMPL c36_local
#define C36_EXACT true
#include "c36_impl.inc"
