// C39: capture of squid's debugs() messages (sections 12 = ICP, 31 = HTCP) inside the harness translation units.
// Include after every squid header the .cc under test includes (so that debug/Stream.h is already in), before `#include "x.cc"`.
// Only messages of level <= 4 are formatted: squid does not evaluate the operands of disabled levels either, and the
// level 6 messages of the unpackers print not-yet-terminated strings.
#ifndef VERIF_C39_DBG_H
#define VERIF_C39_DBG_H
#include "debug/Stream.h"
#include <sstream>
#include <string>
#include <vector>

struct VfDbgMsg { int section; int level; std::string text; };
extern std::vector<VfDbgMsg> vfDbgLog;

#undef debugs
#define debugs(SECTION, LEVEL, CONTENT) \
    do { \
        if ((LEVEL) <= 4) { \
            std::ostringstream vfDbgOs_; \
            vfDbgOs_ << CONTENT; \
            vfDbgLog.push_back(VfDbgMsg{(SECTION), (LEVEL), vfDbgOs_.str()}); \
        } \
    } while (0)
#endif
