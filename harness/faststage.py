"""A thin proxy around vf.stage.Stage whose link_like() first tries the tree's link recipe without the libtool wrapper script
(convenience libraries X.la taken as .libs/X.a; the wrapper alone takes minutes on a loaded machine) and falls back to the
stage's own link_like() when that does not link. Everything else is delegated to the stage."""
import os, shlex, subprocess


class FastStage:
    def __init__(self, stage):
        object.__setattr__(self, "_stage", stage)

    def __getattr__(self, name):
        return getattr(object.__getattribute__(self, "_stage"), name)

    def __setattr__(self, name, value):
        setattr(object.__getattribute__(self, "_stage"), name, value)

    def link_like(self, test, objs, out, subdir="src", extra=(), sanitize=True, drop=()):
        st = object.__getattribute__(self, "_stage")
        try:
            toks = shlex.split(st.link_recipe(test, subdir))
            toks = toks[toks.index("g++"):]
            res, skip = [], False
            for tk in toks:
                if skip:
                    skip = False
                    continue
                if tk == "-o":
                    res += ["-o", out]
                    skip = True
                elif tk in (test + ".o", test + ".lo"):
                    res += list(objs)
                elif tk in drop or tk == "-Werror":
                    continue
                elif tk.endswith(".la"):
                    d, b = os.path.split(tk)
                    res.append(os.path.join(d, ".libs", b[:-3] + ".a"))
                else:
                    res.append(tk)
            if sanitize:
                res.append("-fsanitize=address,undefined")
            res += list(extra)
            if os.path.exists(out):
                os.unlink(out)
            r = subprocess.run(res, cwd=os.path.join(st.repo, subdir), capture_output=True, text=True)
            if r.returncode == 0 and os.path.exists(out):
                return out
        except Exception:
            pass
        return st.link_like(test, objs, out, subdir=subdir, extra=extra, sanitize=sanitize, drop=drop)
