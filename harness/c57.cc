// C57 harness: the real Rock::Rebuild (src/fs/rock/RockRebuild.cc, #included below so that the file-local LoadingParts /
// LoadingSlot flags can be dumped), the real storeRebuildLoadEntry / storeRebuildParseEntry (src/store_rebuild.cc), the
// real Ipc::StoreMap, Ipc::Mem::PageStack and Store::UnpackIndexSwapMeta from the staged tree, built with ASan/UBSan and
// linked like tests/testRock (minus its store_rebuild stub).
//
// One line = one rock db image:
//   r <N> <slotSize> <S> <slot>*N
//     N        number of db slots (= entry limit of the map), 1..4096
//     slotSize bytes per db slot (>= 128)
//     S        0|1 = opt_store_doublecheck (squid -S: the extra "validateOneSlot" pass)
//     slot     z                                         all-zero slot
//              t                                         the db file ends before this slot (all later slots must be t)
//              c:<k0>:<k1>:<esz>:<psz>:<ver>:<first>:<next>:<meta>
//                   DbCellHeader fields in decimal (k0,k1,esz: uint64; psz,ver: uint32; first,next: int32)
//              meta -                    payload bytes are 0xAA filler (not swap meta)
//                   Z                    payload starts with zeros (ZeroedSlot)
//                   B                    bad magic byte
//                   G                    prefix length larger than the buffer
//                   F                    a field whose length runs past the prefix length
//                   N.<sfs>.<flags>.<hdrlen>            valid swap meta without a key field
//                   K.<mk0>.<mk1>.<sfs>.<flags>.<hdrlen> valid swap meta: STORE_META_KEY_MD5, STORE_META_STD_LFS(swap_file_sz,
//                                        flags) and a STORE_META_URL pad so that swap_hdr_sz == hdrlen
// The harness writes the db file, creates the shared map / free-slot stack / statistics exactly as Rock::SwapDirRr::create()
// does, constructs the real Rock::Rebuild job and drives start() + steps() until doneLoading() && doneValidating()
// (foreground mode).  squid's assert() (xassert) and uncaught exceptions -- which kill a real squid at startup -- are
// reported as the result of the line:  crash:<kind>:<tag>.
// Otherwise the line is a canonical dump of everything the rebuild produced:
//   ok n=<anchors->count> st=<one char per fileno: E L D C I> A=<anchors> S=<slices> L=<slot flags> F=<free slots> C=<counters>
#include "squid.h"
#include "base/TextException.h"
#include "fs/rock/RockRebuild.cc"

#include "ipc/StoreMap.h"
#include "ipc/mem/PageStack.h"
#include "ipc/mem/Pages.h"
#include "mem/forward.h"
#include "store/SwapMeta.h"
#include "event.h"
#include "SquidConfig.h"
#include "fde.h"
#include "comm.h"

#include <cstdio>
#include <cstring>
#include <iostream>
#include <sstream>
#include <string>
#include <vector>
#include <fcntl.h>
#include <sys/stat.h>
#include <unistd.h>

struct AssertFailure {
    std::string expr;
    std::string file;
    int line;
};

extern "C" void xassert(const char *expr, const char *file, int line)
{
    throw AssertFailure{expr ? expr : "", file ? file : "", line};
}

namespace {

std::string Dir;      // per-process work directory
std::string DbPath;   // Dir + "/rock"

bool parseU64(const std::string &s, uint64_t &v)
{
    if (s.empty() || s.size() > 20) return false;
    unsigned __int128 acc = 0;
    for (const char c : s) {
        if (c < '0' || c > '9') return false;
        acc = acc * 10 + (c - '0');
        if (acc > std::numeric_limits<uint64_t>::max()) return false;
    }
    v = static_cast<uint64_t>(acc);
    return true;
}

bool parseI64(const std::string &s, int64_t &v)
{
    if (s.empty()) return false;
    const bool neg = s[0] == '-';
    uint64_t u = 0;
    if (!parseU64(neg ? s.substr(1) : s, u)) return false;
    if (u > (1ULL << 62)) return false;
    v = neg ? -static_cast<int64_t>(u) : static_cast<int64_t>(u);
    return true;
}

std::vector<std::string> split(const std::string &s, const char sep)
{
    std::vector<std::string> r;
    std::string cur;
    for (const char c : s) {
        if (c == sep) { r.push_back(cur); cur.clear(); }
        else cur.push_back(c);
    }
    r.push_back(cur);
    return r;
}

template <class T> void put(std::string &out, const T &v)
{
    out.append(reinterpret_cast<const char *>(&v), sizeof(v));
}

void putField(std::string &out, const char type, const std::string &value)
{
    put(out, type);
    const int len = static_cast<int>(value.size());
    put(out, len);
    out += value;
}

const size_t PrefixSz = 1 + sizeof(int);
const size_t KeyFieldSz = 1 + sizeof(int) + 16;
const size_t StdFieldSz = 1 + sizeof(int) + Store::STORE_HDR_METASIZE;
const size_t FieldHdrSz = 1 + sizeof(int);

// serialises the swap metadata described by the token; false = cannot be encoded as asked
bool buildMeta(const std::string &tok, const size_t space, std::string &out)
{
    out.clear();
    if (tok == "-") {
        out.assign(std::min<size_t>(space, 64), static_cast<char>(0xAA));
        return true;
    }
    if (tok == "Z") {
        out.assign(std::min<size_t>(space, 32), '\0');
        return space >= 10;
    }
    if (tok == "B") {
        out.push_back(0x04);
        const int len = 5; put(out, len);
        out.append(16, static_cast<char>(0x55));
        return out.size() <= space;
    }
    if (tok == "G") {
        out.push_back(Store::SwapMetaMagic);
        const int len = 5000; put(out, len); // SM_PAGE_SIZE is 4096: never fits the load buffer
        out.append(16, static_cast<char>(0x55));
        return out.size() <= space;
    }
    if (tok == "F") {
        out.push_back(Store::SwapMetaMagic);
        const int len = static_cast<int>(PrefixSz + FieldHdrSz + 4); put(out, len);
        out.push_back(static_cast<char>(Store::STORE_META_URL));
        const int flen = 100; put(out, flen); // runs past the end of the metadata
        out.append(4, 'u');
        return out.size() <= space;
    }
    const auto parts = split(tok, '.');
    const bool keyed = parts[0] == "K";
    if (!(keyed && parts.size() == 6) && !(parts[0] == "N" && parts.size() == 4))
        return false;
    size_t i = 1;
    uint64_t mk[2] = {0, 0};
    if (keyed) {
        if (!parseU64(parts[1], mk[0]) || !parseU64(parts[2], mk[1])) return false;
        i = 3;
    }
    uint64_t sfs = 0, flags = 0, hdrLen = 0;
    if (!parseU64(parts[i], sfs) || !parseU64(parts[i+1], flags) || !parseU64(parts[i+2], hdrLen)) return false;
    if (flags > 0xFFFF) return false;
    const size_t base = PrefixSz + (keyed ? KeyFieldSz : 0) + StdFieldSz;
    // hdrLen == base: no pad; otherwise a URL field of (hdrLen - base - FieldHdrSz) bytes
    if (hdrLen != base && hdrLen < base + FieldHdrSz + 1) return false;
    if (hdrLen > space || hdrLen > 4000) return false;
    out.push_back(Store::SwapMetaMagic);
    const int total = static_cast<int>(hdrLen); put(out, total);
    if (keyed) {
        std::string k; put(k, mk[0]); put(k, mk[1]);
        putField(out, static_cast<char>(Store::STORE_META_KEY_MD5), k);
    }
    {
        std::string v;
        const time_t ts = 1000000000, lastref = 1000000001, expires = 2000000000, lastmod = 999999999;
        put(v, ts); put(v, lastref); put(v, expires); put(v, lastmod);
        put(v, sfs);
        const uint16_t refcount = 1; put(v, refcount);
        const uint16_t fl = static_cast<uint16_t>(flags); put(v, fl);
        if (v.size() != Store::STORE_HDR_METASIZE) return false;
        putField(out, static_cast<char>(Store::STORE_META_STD_LFS), v);
    }
    if (hdrLen != base) {
        std::string url(hdrLen - base - FieldHdrSz, 'u');
        url[url.size() - 1] = '\0';
        putField(out, static_cast<char>(Store::STORE_META_URL), url);
    }
    return out.size() == hdrLen;
}

std::string slug(const std::string &s)
{
    std::string r;
    for (const char c : s) {
        if (isalnum(static_cast<unsigned char>(c)) || c == '_' || c == '.' || c == '-' || c == '!' || c == '=' || c == '<' || c == '>' || c == '&' || c == '|' || c == '(' || c == ')')
            r.push_back(c);
        else if (c == ' ' && !r.empty() && r.back() != '_')
            r.push_back('_');
    }
    return r.substr(0, 120);
}

// short site tags shared with the Lean model; unknown sites keep their text
std::string assertTag(const AssertFailure &a)
{
    const auto &e = a.expr;
    const bool inRebuild = a.file.find("RockRebuild") != std::string::npos;
    if (e == "totalSize != static_cast<uint64_t>(-1)") return "assert:entrySize-all-ones";
    if (e == "anchor->basics.swap_file_sz != static_cast<uint64_t>(-1)") return "assert:swap_file_sz-all-ones";
    if (e == "(oldValue & mask) == 0") return "assert:free-slot-pushed-twice";
    if (inRebuild && e == "!slot.freed()") return "assert:slot-freed";
    if (inRebuild && e == "!slot.mapped()") return "assert:slot-mapped";
    if (inRebuild && e == "slot.more < 0") return "assert:slot-chained";
    if (e == "anchor.start < 0 || le.size > 0") return "assert:sizeless-chain";
    if (e == "anchorAt(anchorId).writing()") return "assert:anchor-not-writing";
    return "assert:other:" + slug(e);
}

std::string exceptionTag(const std::exception &ex)
{
    const std::string w = ex.what();
    if (w.find("slot.freed() || (slot.mapped() && slot.finalized())") != std::string::npos)
        return "must:unprocessed-slot";
    return "must:other:" + slug(w);
}

struct Case {
    int64_t n = 0;
    int64_t slotSize = 0;
    bool doubleCheck = false;
    std::string file; // db file contents
};

bool buildCase(const std::vector<std::string> &tk, Case &c)
{
    if (tk.size() < 4 || tk[0] != "r") return false;
    int64_t s = 0;
    if (!parseI64(tk[1], c.n) || !parseI64(tk[2], c.slotSize) || !parseI64(tk[3], s)) return false;
    if (c.n < 1 || c.n > 4096 || c.slotSize < 128 || c.slotSize > 65536 || (s != 0 && s != 1)) return false;
    c.doubleCheck = s == 1;
    if (static_cast<int64_t>(tk.size()) != 4 + c.n) return false;
    const size_t hdr = Rock::SwapDir::HeaderSize;
    c.file.assign(hdr + c.n * c.slotSize, '\0');
    size_t fileEnd = c.file.size();
    bool truncated = false;
    for (int64_t i = 0; i < c.n; ++i) {
        const auto &t = tk[4 + i];
        const size_t off = hdr + i * c.slotSize;
        if (t == "t") {
            if (!truncated) { truncated = true; fileEnd = off; }
            continue;
        }
        if (truncated) return false;
        if (t == "z") continue;
        const auto f = split(t, ':');
        if (f.size() != 9 || f[0] != "c") return false;
        Rock::DbCellHeader h;
        uint64_t psz = 0, ver = 0;
        int64_t first = 0, next = 0;
        if (!parseU64(f[1], h.key[0]) || !parseU64(f[2], h.key[1]) || !parseU64(f[3], h.entrySize) ||
                !parseU64(f[4], psz) || !parseU64(f[5], ver) || !parseI64(f[6], first) || !parseI64(f[7], next))
            return false;
        if (psz > 0xFFFFFFFFULL || ver > 0xFFFFFFFFULL) return false;
        if (first < INT32_MIN || first > INT32_MAX || next < INT32_MIN || next > INT32_MAX) return false;
        h.payloadSize = static_cast<uint32_t>(psz);
        h.version = static_cast<uint32_t>(ver);
        h.firstSlot = static_cast<sfileno>(first);
        h.nextSlot = static_cast<sfileno>(next);
        memcpy(&c.file[off], &h, sizeof(h));
        std::string meta;
        if (!buildMeta(f[8], c.slotSize - sizeof(h), meta)) return false;
        memcpy(&c.file[off + sizeof(h)], meta.data(), meta.size());
    }
    c.file.resize(fileEnd);
    return true;
}

bool writeFile(const std::string &data)
{
    const int fd = open(DbPath.c_str(), O_WRONLY | O_CREAT | O_TRUNC, 0644);
    if (fd < 0) return false;
    size_t done = 0;
    while (done < data.size()) {
        const auto w = write(fd, data.data() + done, data.size() - done);
        if (w <= 0) { close(fd); return false; }
        done += w;
    }
    close(fd);
    return true;
}

char stateChar(const Rock::LoadingEntry::State s)
{
    switch (s) {
    case Rock::LoadingEntry::leEmpty: return 'E';
    case Rock::LoadingEntry::leLoading: return 'L';
    case Rock::LoadingEntry::leLoaded: return 'D';
    case Rock::LoadingEntry::leCorrupted: return 'C';
    case Rock::LoadingEntry::leIgnored: return 'I';
    }
    return '?';
}

std::string runCase(const Case &c)
{
    if (!writeFile(c.file)) return "bad-io";

    opt_foreground_rebuild = 1;
    opt_store_doublecheck = c.doubleCheck ? 1 : 0;

    Rock::SwapDir *sd = new Rock::SwapDir();
    sd->index = 0;
    sd->path = xstrdup(Dir.c_str());
    sd->filePath = xstrdup(DbPath.c_str());
    sd->slotSize = c.slotSize;
    sd->max_size = Rock::SwapDir::HeaderSize + c.n * c.slotSize;

    // what Rock::SwapDirRr::create() does for this cache_dir
    auto *statsOwner = Rock::Rebuild::Stats::Init(*sd);
    const int64_t capacity = sd->slotLimitActual();
    auto *mapOwner = Rock::SwapDir::DirMap::Init(sd->inodeMapPath(), capacity);
    Ipc::Mem::PageStack::Config config;
    config.poolId = Ipc::Mem::PageStack::IdForSwapDirSpace(0);
    config.pageSize = 0;
    config.capacity = capacity;
    config.createFull = false;
    auto *freeSlotsOwner = shm_new(Ipc::Mem::PageStack)(sd->freeSlotsPath(), config);

    // what Rock::SwapDir::init() does before opening the db file
    sd->freeSlots = shm_old(Ipc::Mem::PageStack)(sd->freeSlotsPath());
    sd->map = new Rock::SwapDir::DirMap(sd->inodeMapPath());
    sd->map->cleaner = sd;

    std::string result;
    Rock::Rebuild *job = nullptr;
    if (capacity != c.n) {
        result = "bad-capacity";
    } else {
        // what Rock::Rebuild::Start() does
        const auto stats = shm_old(Rock::Rebuild::Stats)(Rock::Rebuild::Stats::Path(sd->path).c_str());
        job = new Rock::Rebuild(sd, stats);
        try {
            job->start();
            int guard = 0;
            while (!(job->doneLoading() && job->doneValidating())) {
                job->steps();
                if (++guard > 1000000) { result = "crash:hang"; break; }
            }
        } catch (const AssertFailure &a) {
            result = "crash:" + assertTag(a);
        } catch (const std::exception &ex) {
            result = "crash:" + exceptionTag(ex);
        } catch (...) {
            result = "crash:unknown-exception";
        }
    }

    if (result.empty()) {
        std::ostringstream os;
        const auto eLimit = sd->map->entryLimit();
        const auto sLimit = sd->map->sliceLimit();
        os << "ok n=" << sd->map->entryCount() << " st=";
        for (int f = 0; f < eLimit; ++f)
            os << stateChar(Rock::LoadingEntry(f, *job->parts).state());
        os << " A=";
        bool any = false;
        for (int f = 0; f < eLimit; ++f) {
            const auto &a = sd->map->peekAtEntry(f);
            const bool rewound = !a.lock.writing && !a.lock.readers && !a.key[0] && !a.key[1] && a.start == 0 &&
                                 !a.basics.swap_file_sz && !a.waitingToBeFreed;
            if (rewound)
                continue;
            os << (any ? "," : "") << f << ':' << (a.lock.writing ? 'w' : '-') << (a.lock.readers ? 'r' : '-') <<
               (a.waitingToBeFreed ? 'q' : '-') << (EBIT_TEST(a.basics.flags, ENTRY_VALIDATED) ? 'v' : '-') << ':' <<
               a.key[0] << '.' << a.key[1] << ':' << a.start << ':' << a.basics.swap_file_sz.load();
            any = true;
        }
        if (!any) os << '-';
        os << " S=";
        any = false;
        for (int s = 0; s < sLimit; ++s) {
            const auto &sl = sd->map->sliceAt(s);
            if (sl.size == 0 && sl.next == -1)
                continue;
            os << (any ? "," : "") << s << ':' << sl.size << ':' << sl.next;
            any = true;
        }
        if (!any) os << '-';
        os << " L=";
        for (int s = 0; s < sLimit; ++s) {
            // LoadingSlot() itself refuses to look ahead; read the parts directly
            const auto more = job->parts->mores().at(s);
            const auto &fl = job->parts->flags().at(s);
            os << (s ? "," : "") << more << '/' << (fl.mapped ? 'm' : '-') << (fl.finalized ? 'f' : '-') << (fl.freed ? 'z' : '-');
        }
        os << " F=";
        std::vector<int> freeIds;
        {
            Ipc::Mem::PageId page;
            while (sd->freeSlots->pop(page)) {
                freeIds.push_back(static_cast<int>(page.number) - 1);
                page = Ipc::Mem::PageId();
            }
        }
        std::sort(freeIds.begin(), freeIds.end());
        for (size_t i = 0; i < freeIds.size(); ++i)
            os << (i ? "," : "") << freeIds[i];
        if (freeIds.empty()) os << '-';
        const auto &k = job->counts;
        os << " C=" << k.scancount << ',' << k.invalid << ',' << k.dupcount << ',' << k.clashcount << ',' << k.objcount <<
           ',' << k.badflags << ',' << k.validations;
        result = os.str();
    }

    // tear down
    try {
        if (job) {
            while (eventFind(Rock::Rebuild::Steps, job))
                eventDelete(Rock::Rebuild::Steps, job);
            delete job;
        }
        sd->freeSlots = Ipc::Mem::Pointer<Ipc::Mem::PageStack>();
        delete sd->map;
        sd->map = nullptr;
        delete freeSlotsOwner;
        delete mapOwner;
        delete statsOwner;
        safe_free(sd->path);
        delete sd; // frees filePath
    } catch (const AssertFailure &a) {
        result += " teardown-" + assertTag(a);
    }
    return result;
}

} // namespace

int main(int argc, char **argv)
{
    if (argc > 1 && !strcmp(argv[1], "--dump-consts")) {
        printf("cellHeaderSize %zu\n", sizeof(Rock::DbCellHeader));
        printf("entryLimitAbsolute %lld\n", static_cast<long long>(SwapFilenMax) + 1);
        printf("keyPrivateBit %d\n", static_cast<int>(KEY_PRIVATE));
        printf("pageSize %d\n", static_cast<int>(SM_PAGE_SIZE));
        printf("dbHeaderSize %lld\n", static_cast<long long>(Rock::SwapDir::HeaderSize));
        printf("metaBaseKeyed %zu\n", PrefixSz + KeyFieldSz + StdFieldSz);
        printf("metaBaseKeyless %zu\n", PrefixSz + StdFieldSz);
        printf("metaFieldHeader %zu\n", FieldHdrSz);
        return 0;
    }
    Mem::Init();
    fde::Init();
    comm_init();
    Config.memShared.defaultTo(false);
    Config.shmLocking.defaultTo(false);
    const char *base = getenv("C57_TMP");
    std::string root = base ? base : "/dev/shm";
    Dir = root + "/c57-" + std::to_string(getpid());
    mkdir(Dir.c_str(), 0755);
    DbPath = Dir + "/rock";

    std::string line;
    while (std::getline(std::cin, line)) {
        std::vector<std::string> tk;
        {
            std::istringstream is(line);
            std::string t;
            while (is >> t) tk.push_back(t);
        }
        Case c;
        std::string out;
        if (!buildCase(tk, c))
            out = "bad-case";
        else
            out = runCase(c);
        puts(out.c_str());
        fflush(stdout);
    }
    unlink(DbPath.c_str());
    rmdir(Dir.c_str());
    return 0;
}
