// C35 harness: the real Time::ParseRfc1123 / Time::FormatRfc1123 (and the file-static helpers they use) from the
// staged src/time/rfc1123.cc, compiled into this translation unit with ASan/UBSan.
//   f <t>               -> <hex of FormatRfc1123(t)> <ParseRfc1123 of that string>
//   p <hex>             -> <ParseRfc1123(bytes)> tm=<year>,<mon>,<mday>,<hour>,<min>,<sec>   (tm as parse_date left it, before timegm)
//                          or "-1 null" when parse_date returned nullptr
//   D <day0> <n> <seed> -> for the n days from day0 (days since 1970-01-01) at a pseudo-random second of each day:
//                          format, parse back, FNV-1a over all formatted strings: "n=<n> mism=<k> first=<t|-> hash=<hex16>"
//   --dump              -> tables/constants for translate/date_names.py
#include "squid.h"
#include "time/gadgets.h"
#include "time/rfc1123.cc"

#include <cstdio>
#include <cstdlib>
#include <cstring>
#include <iostream>
#include <string>

static std::string unhex(const std::string &h) {
    std::string r;
    if (h == "-") return r;
    for (size_t i = 0; i + 1 < h.size(); i += 2)
        r.push_back(static_cast<char>(std::stoi(h.substr(i, 2), nullptr, 16)));
    return r;
}
static std::string hex(const std::string &s) {
    if (s.empty()) return "-";
    static const char *d = "0123456789abcdef";
    std::string r;
    for (unsigned char c : s) { r.push_back(d[c >> 4]); r.push_back(d[c & 15]); }
    return r;
}

// the domain on which the model describes gmtime/strftime: years 0 .. 99999
static const long long T_MIN = -62167219200LL;      // 0000-01-01 00:00:00
static const long long T_MAX = 3093527980799LL;     // 99999-12-31 23:59:59

// exact-size heap copy: ASan sees any read past the terminator
static char *heapCopy(const std::string &s) {
    char *in = new char[s.size() + 1];
    memcpy(in, s.data(), s.size());
    in[s.size()] = 0;
    return in;
}

static uint64_t secondOfDay(uint64_t seed, uint64_t day) {
    uint64_t z = seed + day * 0x9E3779B97F4A7C15ULL;
    z = (z ^ (z >> 30)) * 0xBF58476D1CE4E5B9ULL;
    z = (z ^ (z >> 27)) * 0x94D049BB133111EBULL;
    z ^= z >> 31;
    return z % 86400;
}

static bool parseLL(const std::string &s, long long &v) {
    if (s.empty() || s.size() > 18) return false;
    size_t i = 0;
    if (s[0] == '-') i = 1;
    if (i >= s.size()) return false;
    for (size_t k = i; k < s.size(); ++k) if (s[k] < '0' || s[k] > '9') return false;
    v = atoll(s.c_str());
    return true;
}

static int dump() {
    for (int i = 0; i < 12; ++i) printf("month_names %d %s\n", i, hex(month_names[i]).c_str());
    printf("rfc1123_strftime %s\n", hex(RFC1123_STRFTIME).c_str());
    // what strftime emits for %a and %b in this process: 1970-01-04 was a Sunday (tm_wday 0)
    for (int i = 0; i < 7; ++i) {
        const std::string s = Time::FormatRfc1123((3 + i) * 86400LL);
        printf("wday_abbr %d %s\n", i, hex(s.substr(0, s.find(','))).c_str());
    }
    for (int i = 0; i < 12; ++i) {
        struct tm tm;
        memset(&tm, 0, sizeof(tm));
        tm.tm_year = 70; tm.tm_mon = i; tm.tm_mday = 15;
        const std::string s = Time::FormatRfc1123(timegm(&tm));
        const size_t a = s.find(' ', s.find(' ') + 1) + 1;   // after "Www, DD "
        printf("mon_abbr %d %s\n", i, hex(s.substr(a, s.find(' ', a) - a)).c_str());
    }
    // tmSaneValues: accepted interval of every field, probed one field at a time
    const char *names[5] = {"sec", "min", "hour", "mday", "mon"};
    for (int f = 0; f < 5; ++f) {
        int lo = 1000, hi = -1000;
        bool contiguous = true, seen = false, ended = false;
        for (int v = -70; v <= 200; ++v) {
            struct tm tm;
            memset(&tm, 0, sizeof(tm));
            tm.tm_mday = 1;
            int *field = f == 0 ? &tm.tm_sec : f == 1 ? &tm.tm_min : f == 2 ? &tm.tm_hour : f == 3 ? &tm.tm_mday : &tm.tm_mon;
            *field = v;
            if (tmSaneValues(&tm)) {
                if (ended) contiguous = false;
                seen = true;
                if (v < lo) lo = v;
                if (v > hi) hi = v;
            } else if (seen) ended = true;
        }
        printf("sane %s %d %d %d\n", names[f], lo, hi, contiguous ? 1 : 0);
    }
    // the day-of-month limit of every month, probed in a leap year (tm_year 100 = 2000) and in a common year (tm_year 101)
    for (int leap = 1; leap >= 0; --leap) {
        for (int mon = 0; mon < 12; ++mon) {
            int hi = 0;
            bool contiguous = true;
            for (int d = 1; d <= 40; ++d) {
                struct tm tm;
                memset(&tm, 0, sizeof(tm));
                tm.tm_year = leap ? 100 : 101; tm.tm_mon = mon; tm.tm_mday = d;
                if (tmSaneValues(&tm)) {
                    if (hi != d - 1) contiguous = false;
                    hi = d;
                }
            }
            printf("month_days %d %d %d %d\n", leap, mon, hi, contiguous ? 1 : 0);
        }
    }
    return 0;
}

int main(int argc, char **argv) {
    if (argc > 1 && !strcmp(argv[1], "--dump"))
        return dump();
    std::string line;
    while (std::getline(std::cin, line)) {
        const auto sp = line.find(' ');
        const std::string op = line.substr(0, sp);
        const std::string arg = sp == std::string::npos ? "" : line.substr(sp + 1);
        if (op == "f") {
            long long t;
            if (!parseLL(arg, t)) { puts("bad-op"); fflush(stdout); continue; }
            if (t < T_MIN || t > T_MAX) { puts("reject:domain"); fflush(stdout); continue; }
            const std::string s = Time::FormatRfc1123(static_cast<time_t>(t));
            char *in = heapCopy(s);
            const long long back = static_cast<long long>(Time::ParseRfc1123(in));
            delete[] in;
            printf("%s %lld\n", hex(s).c_str(), back);
        } else if (op == "p") {
            bool okhex = arg == "-" || (!arg.empty() && arg.size() % 2 == 0);
            for (char c : arg) if (arg != "-" && !isxdigit(static_cast<unsigned char>(c))) okhex = false;
            if (!okhex) { puts("bad-op"); fflush(stdout); continue; }
            const std::string bytes = unhex(arg);
            if (bytes.find('\0') != std::string::npos) { puts("reject:nul"); fflush(stdout); continue; }
            char *in = heapCopy(bytes);
            struct tm *tm = parse_date(in);
            char tmtxt[160];
            if (tm)
                snprintf(tmtxt, sizeof(tmtxt), "tm=%d,%d,%d,%d,%d,%d", tm->tm_year, tm->tm_mon, tm->tm_mday, tm->tm_hour, tm->tm_min, tm->tm_sec);
            else
                snprintf(tmtxt, sizeof(tmtxt), "null");
            const long long t = static_cast<long long>(Time::ParseRfc1123(in));
            delete[] in;
            printf("%lld %s\n", t, tmtxt);
        } else if (op == "D") {
            long long day0 = 0, n = 0, seed = 0;
            if (sscanf(arg.c_str(), "%lld %lld %lld", &day0, &n, &seed) != 3 || n < 0 || n > 1000000 ||
                    day0 * 86400 < T_MIN || (day0 + n) * 86400 > T_MAX) { puts("bad-op"); fflush(stdout); continue; }
            uint64_t h = 0xcbf29ce484222325ULL;
            long long mism = 0, first = 0;
            for (long long i = 0; i < n; ++i) {
                const long long day = day0 + i;
                const long long t = day * 86400 + static_cast<long long>(secondOfDay(static_cast<uint64_t>(seed), static_cast<uint64_t>(day)));
                const std::string s = Time::FormatRfc1123(static_cast<time_t>(t));
                for (unsigned char c : s) { h ^= c; h *= 0x100000001b3ULL; }
                h ^= 10; h *= 0x100000001b3ULL;
                char *in = heapCopy(s);
                const long long back = static_cast<long long>(Time::ParseRfc1123(in));
                delete[] in;
                if (back != t) { if (!mism) first = t; ++mism; }
            }
            if (mism)
                printf("n=%lld mism=%lld first=%lld hash=%016llx\n", n, mism, first, static_cast<unsigned long long>(h));
            else
                printf("n=%lld mism=0 first=- hash=%016llx\n", n, static_cast<unsigned long long>(h));
        } else {
            puts("bad-op");
        }
        fflush(stdout);
    }
    return 0;
}
