// C34 harness: the real log quoting code of the staged tree, in-process under ASan/UBSan.
// src/format/Format.cc is compiled into this unit (file-static log_quoted_string, the quoting switch of Format::assemble);
// src/format/Quoting.cc, lib/rfc1738.cc and src/tools.cc (strwordquote) are compiled with sanitizers and linked in place of the tree's objects.
//
//   q <hex>  log_quoted_string              m <hex>  Format::QuoteMimeBlob          s <hex>  strwordquote
//   u <hex>  rfc1738_escape                 n <hex>  rfc1738_escape_unescaped       p <hex>  rfc1738_escape_part
//   f <flags> <hex>  rfc1738_do_escape(flags)
//   a <quoting: d|q|m|u|s|r> <field: h|n> <hex>   Format::AssembleOne of one %code with that quoting modifier on
//                                                   h = a request header holding the bytes, n = the user name (%un) holding them
//   --dump-tables   per-byte graphs of the six functions: "<fn> <byte> <hex>"
// Inputs containing NUL are answered reject:nul (C strings).
#include "squid.h"
#include <iostream>
#include <string>
#include <vector>
#include <cstdio>
#include <cstring>
#include "format/Format.cc"
#include "format/Quoting.h"
#include "rfc1738.h"
#include "tools.h"
#include "auth/basic/User.h"
#include "auth/basic/UserRequest.h"
#include "HttpRequest.h"
#include "MasterXaction.h"
#include "mem/forward.h"

// libtool's "-dlopen force" table; nothing is preloaded here
extern "C" { struct VfDlSym { const char *name; void *address; }; extern const VfDlSym lt__PROGRAM__LTX_preloaded_symbols[]; const VfDlSym lt__PROGRAM__LTX_preloaded_symbols[] = { {"@PROGRAM@", nullptr}, {nullptr, nullptr} }; }

static std::string unhex(const std::string &h) {
    std::string r;
    if (h == "-") return r;
    for (size_t i = 0; i + 1 < h.size(); i += 2)
        r.push_back(static_cast<char>(std::stoi(h.substr(i, 2), nullptr, 16)));
    return r;
}
static std::string hex(const std::string &s) {
    if (s.empty()) return "-";
    static const char *d = "0123456789abcdef";
    std::string r;
    for (unsigned char c : s) { r.push_back(d[c >> 4]); r.push_back(d[c & 15]); }
    return r;
}
static std::vector<std::string> split(const std::string &s, char sep) {
    std::vector<std::string> r;
    std::string cur;
    for (char c : s) { if (c == sep) { r.push_back(cur); cur.clear(); } else cur.push_back(c); }
    r.push_back(cur);
    return r;
}
/// exact-size heap copy so that ASan sees any over-read
struct CStr {
    explicit CStr(const std::string &s): p(new char[s.size() + 1]) { memcpy(p, s.data(), s.size()); p[s.size()] = 0; }
    ~CStr() { delete[] p; }
    char *p;
};

static std::string quotedString(const std::string &in) {
    CStr s(in);
    char *out = new char[in.size() * 2 + 1];   // the size Format::assemble provides
    log_quoted_string(s.p, out);
    std::string r(out);
    delete[] out;
    return r;
}
static std::string mimeBlob(const std::string &in) {
    CStr s(in);
    char *o = Format::QuoteMimeBlob(s.p);
    std::string r(o);
    xfree(o);
    return r;
}
static std::string doEscape(const std::string &in, int flags) {
    CStr s(in);
    return std::string(rfc1738_do_escape(s.p, flags));
}
static std::string wordQuote(const std::string &in) {
    CStr s(in);
    MemBuf mb;
    mb.init();
    strwordquote(&mb, s.p);
    std::string r(mb.content(), mb.contentSize());
    mb.clean();
    return r;
}

static std::string assembleOne(char quoting, char field, const std::string &value) {
    const auto mx = MasterXaction::MakePortless<XactionInitiator::initHtcp>();
    HttpRequestPointer req = HttpRequest::FromUrlXXX("http://example.com/", mx, HttpRequestMethod(Http::METHOD_GET));
    if (!req) return "bad-op";
    CStr v(value);
    if (field == 'h')
        req->header.putExt("X-Evil", v.p);
    else if (field == 'n') {
        auto *user = new Auth::Basic::User(nullptr, nullptr);
        user->username(v.p);
        Auth::UserRequest::Pointer ur = new Auth::Basic::UserRequest();
        ur->user(user);
        req->auth_user_request = ur;
    } else
        return "bad-op";
    AccessLogEntry::Pointer al = new AccessLogEntry;
    al->request = req.getRaw();
    HTTPMSGLOCK(al->request);
    std::string code = "%";
    switch (quoting) {
    case 'd': break;
    case 'q': code += '"'; break;
    case 'm': code += '['; break;
    case 'u': code += '#'; break;
    case 's': code += '/'; break;
    case 'r': code += '\''; break;
    default: return "bad-op";
    }
    code += field == 'h' ? "{X-Evil}>h" : "un";
    MemBuf mb;
    mb.init();
    Format::AssembleOne(code.c_str(), mb, al);
    std::string r(mb.content(), mb.contentSize());
    mb.clean();
    return r;
}

int main(int argc, char **argv) {
    if (argc > 1 && !strcmp(argv[1], "--dump-tables")) {
        for (int ch = 1; ch < 256; ++ch) {
            const std::string one(1, static_cast<char>(ch));
            printf("q %d %s\n", ch, hex(quotedString(one)).c_str());
            printf("m %d %s\n", ch, hex(mimeBlob(one)).c_str());
            printf("s %d %s\n", ch, hex(wordQuote(one)).c_str());
            printf("u %d %s\n", ch, hex(doEscape(one, RFC1738_ESCAPE_UNSAFE|RFC1738_ESCAPE_CTRLS)).c_str());
            printf("n %d %s\n", ch, hex(doEscape(one, RFC1738_ESCAPE_UNESCAPED)).c_str());
            printf("p %d %s\n", ch, hex(doEscape(one, RFC1738_ESCAPE_ALL)).c_str());
        }
        return 0;
    }
    Mem::Init();
    Debug::BanCacheLogUse();
    Debug::SettleStderr();
    Debug::SettleSyslog();

    std::string line;
    while (std::getline(std::cin, line)) {
        const auto t = split(line, ' ');
        std::string out = "bad-op";
        const std::string arg = t.size() >= 2 ? unhex(t.back()) : std::string();
        if (t.size() >= 2 && arg.find('\0') != std::string::npos)
            out = "reject:nul";
        else if (t.size() == 2 && t[0] == "q") out = hex(quotedString(arg));
        else if (t.size() == 2 && t[0] == "m") out = hex(mimeBlob(arg));
        else if (t.size() == 2 && t[0] == "s") out = hex(wordQuote(arg));
        else if (t.size() == 2 && t[0] == "u") out = hex(std::string(rfc1738_escape(CStr(arg).p)));
        else if (t.size() == 2 && t[0] == "n") out = hex(std::string(rfc1738_escape_unescaped(CStr(arg).p)));
        else if (t.size() == 2 && t[0] == "p") out = hex(std::string(rfc1738_escape_part(CStr(arg).p)));
        else if (t.size() == 3 && t[0] == "f") out = hex(doEscape(arg, atoi(t[1].c_str()) & 0x187));
        else if (t.size() == 4 && t[0] == "a" && t[1].size() == 1 && t[2].size() == 1) {
            const auto r = assembleOne(t[1][0], t[2][0], arg);
            out = r == "bad-op" ? r : hex(r);
        }
        puts(out.c_str());
        fflush(stdout);
    }
    return 0;
}
