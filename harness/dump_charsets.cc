// Dumps every public static CharacterSet of src/base/CharacterSet.h as "<NAME> <256 chars of 0/1>".
#include "squid.h"
#include "base/CharacterSet.h"
#include <cstdio>
static void dump(const char *name, const CharacterSet &s) {
    printf("%s ", name);
    for (int i = 0; i < 256; ++i) putchar(s[static_cast<unsigned char>(i)] ? '1' : '0');
    putchar('\n');
}
#define D(x) dump(#x, CharacterSet::x)
int main() {
    D(ALPHA); D(BIT); D(CR); D(CTL); D(DIGIT); D(DQUOTE); D(HEXDIG); D(HTAB); D(LF); D(SP); D(VCHAR); D(WSP);
    D(CTEXT); D(TCHAR); D(SPECIAL); D(QDTEXT); D(OBSTEXT); D(ETAGC); D(TOKEN68C);
    dump("RFC3986_UNRESERVED", CharacterSet::RFC3986_UNRESERVED());
    return 0;
}
