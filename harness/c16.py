"""C16 end-to-end harness: kill the staged squid at the N-th change of a cache_dir file (optionally after a torn write),
restart it on the same cache_dir, compare every hit with the versions the origin had served before the crash.

Scenario line (space separated):
  <store> <h> <nkeys> <phase> [<phase> ...]
    store   rock<slotsize> | ufs | aufs     one fresh squid instance + cache_dir per scenario (copy of a `squid -z` template)
    h       `auto`, or `<h>.<hdr>`: the calibrated number of bytes squid adds to a body of this rig's fixed-shape responses when it
            swaps the object out (swap metadata + reply header) and the size of the swap metadata alone; learned at build time
            (the observation starts with `cal=<h>.<hdr>`); a line made for other values yields `bad-calibration`
    nkeys   number of URLs (keys 0..nkeys-1): http://c16.test/sc16/k<kk>
    phase   <ops>@<crash>   squid is started (first phase: on the empty cache_dir, later: on what the previous phase left),
                            the ops run one after the other, then squid is killed if the crash point has not killed it.
            ops    comma separated, '-' = none
                   S<k>.<n>.<seed>  the origin gets a new version of key k (n body bytes); GET with no-cache; waits for the
                                    SWAPOUT line in store.log (or the death of squid)
                   C<k>.<n>.<seed>  the same, but the origin sends the version chunked (no Content-Length)
                   G<k>             GET only-if-cached (never reaches the origin)
                   F<k>             plain GET
                   P<k>             PURGE
            crash  <n>        die when event n of this phase is about to happen (events 1..n-1 are on disk)
                   <n>t<b>    event n, if it is a write, first writes its first min(b, len-1) bytes
                   e          no crash point: SIGKILL after the ops of the phase (and after the rebuild, if nothing else ran)
                   q          clean shutdown (SIGTERM) after the ops of the phase
                   <n>q, <n>t<b>q   the crash point stays armed during a clean shutdown that follows the ops
    After the last phase squid is started once more without any fault injection and every key is probed (only-if-cached),
    then one more object is stored under a fresh URL and everything is probed again.
Observation:
  <phase obs> | <phase obs> | ... | final <k results> ; <k results>  [trace=...]
    phase obs   start=<ok|fail:...> ops=<results> events=<n> died=<0|1>
    k result    M | H<ver> | H<ver>!<what differs> | E<status> | X<text>
    The event trace (what the injector logged) is appended for the model tie:  trace=<phase>:<rec>;<rec>...
"""
import os, re, struct, threading, time, socket, signal, hashlib, subprocess, shutil, glob
from concurrent.futures import ThreadPoolExecutor
from e2e import rig

HERE = os.path.dirname(os.path.abspath(__file__))
CRASHPOINT_C = os.path.join(os.path.dirname(HERE), "e2e", "crashpoint.c")

ROCK_MB = 1
UFS_MB = 1
URLFMT = "http://c16.test/sc16/k%02d"
EXTRA_URL = "http://c16.test/sc16/x%02d"
COMMON = ("cache_mem 0 MB\nmaximum_object_size 512 KB\ncache_store_log stdio:{dir}/store.log\nacl PURGE method PURGE\n"
          "mime_table /dev/null\ncache_swap_low 60\ncache_swap_high 70\nmemory_pools off\n")


def dirconf(store):
    m = re.fullmatch(r"rock(\d+)", store)
    if m:
        return "cache_dir rock {dir}/cache %d max-size=%d slot-size=%d\n" % (ROCK_MB, 400000, int(m.group(1)))
    if store in ("ufs", "aufs"):
        return "cache_dir %s {dir}/cache %d 1 2\n" % (store, UFS_MB)
    return None


def body(n, seed, tag=b""):
    """version tag followed by an LCG stream, cut to n bytes"""
    x = (seed * 2654435761 + 12345) & 0xffffffff
    out = bytearray(tag[:n])
    while len(out) < n:
        x = (x * 1664525 + 1013904223) & 0xffffffff
        out.append(x >> 24)
    return bytes(out)


def store_key(url):
    return hashlib.md5(b"\x01" + url.encode()).digest()


# ------------------------------------------------------------------------------------------------ scenario syntax

def parse_ops(tok):
    if tok == "-":
        return []
    ops = []
    for o in tok.split(","):
        m = re.fullmatch(r"([SC])(\d+)\.(\d+)\.(\d+)", o)
        if m:
            ops.append((m.group(1), int(m.group(2)), int(m.group(3)), int(m.group(4))))
            continue
        m = re.fullmatch(r"([GFP])(\d+)", o)
        if m:
            ops.append((m.group(1), int(m.group(2))))
            continue
        return None
    return ops


def parse_crash(tok):
    """-> (kind, event number, torn bytes, clean shutdown after the ops)"""
    if tok in ("e", "q"):
        return (tok, 0, 0, tok == "q")
    m = re.fullmatch(r"(\d+)(?:t(\d+))?(q?)", tok)
    if not m or int(m.group(1)) < 1:
        return None
    return ("n", int(m.group(1)), int(m.group(2) or 0), m.group(3) == "q")


def parse_line(line):
    t = line.split(" ")
    if len(t) < 4 or dirconf(t[0]) is None or not re.fullmatch(r"auto|\d+\.\d+", t[1]) or not t[2].isdigit():
        return None
    nk = int(t[2])
    if not (1 <= nk <= 40) or len(t) > 8:
        return None
    phases = []
    for p in t[3:]:
        if p.count("@") != 1:
            return None
        o, c = p.split("@")
        ops, crash = parse_ops(o), parse_crash(c)
        if ops is None or crash is None or len(ops) > 80:
            return None
        for op in ops:
            if op[1] >= nk or (op[0] in "SC" and op[2] > 300000):
                return None
        phases.append((ops, crash))
    m = re.fullmatch(r"rock(\d+)", t[0])
    if m and not (512 <= int(m.group(1)) <= 32768):
        return None
    return {"store": t[0], "cal": None if t[1] == "auto" else tuple(int(x) for x in t[1].split(".")), "nkeys": nk, "phases": phases}


# ------------------------------------------------------------------------------------------------ the squid instance

class CrashSquid(rig.Squid):
    """rig.Squid started without python code between fork and exec, so that scenarios can run in worker threads"""

    def start(self, wait=60.0):
        self._rm_shm()
        args = [self.binary(), "-N", "-n", self.name, "-f", self.conf_path, "-d1"]
        self.errlog = open(os.path.join(self.dir, "stderr.log"), "ab")
        self.proc = subprocess.Popen(args, env=self.env, stdout=self.errlog, stderr=self.errlog, start_new_session=True, stdin=subprocess.DEVNULL)
        if getattr(self, "on_spawn", None):
            self.on_spawn(self.proc.pid)        # registered with the reaper before anything else can go wrong
        self.errlog.close()
        t0 = time.time()
        while time.time() - t0 < wait * rig.VERIF_SLOW:
            if self.proc.poll() is not None:
                return "exit%s" % self.proc.returncode
            log = self.cache_log()
            if "Accepting HTTP Socket connections" in log and "Completed Validation Procedure" in log:
                return "ok"
            time.sleep(0.01)
        return "timeout"

    def kill(self):
        if self.proc is None:
            return
        try:
            os.killpg(self.proc.pid, signal.SIGKILL)
        except (ProcessLookupError, PermissionError):
            pass
        try:
            self.proc.wait(timeout=10)
        except Exception:
            pass
        self.proc = None
        self._rm_shm()

    def term(self, wait=30.0):
        """clean shutdown -> exit status (None = had to be killed)"""
        if self.proc is None:
            return None
        rc = None
        try:
            os.kill(self.proc.pid, signal.SIGTERM)
            rc = self.proc.wait(timeout=wait * rig.VERIF_SLOW)
        except Exception:
            rc = None
        self.kill()
        return rc


class Reaper:
    """a child process that kills the registered process groups when the harness process goes away"""

    def __init__(self):
        code = ("import sys,os,signal\npg=[]\n"
                "for l in sys.stdin:\n"
                "    l=l.strip()\n"
                "    if l.isdigit(): pg.append(int(l))\n"
                "for p in pg:\n"
                "    try: os.killpg(p, signal.SIGKILL)\n"
                "    except OSError: pass\n")
        self.p = subprocess.Popen(["python3", "-c", code], stdin=subprocess.PIPE, start_new_session=True)
        self.lock = threading.Lock()

    def add(self, pgid):
        with self.lock:
            try:
                self.p.stdin.write(b"%d\n" % pgid)
                self.p.stdin.flush()
            except OSError:
                pass

    def close(self):
        try:
            self.p.stdin.close()
            self.p.wait(timeout=10)
        except Exception:
            pass



ROCK_HEADER = 16384
CELL = 40


def rock_geometry(slot_size):
    """slotLimitActual of a 1 MB rock cache_dir"""
    return (ROCK_MB * 1024 * 1024 - ROCK_HEADER) // slot_size


def parse_meta(buf):
    """Store::UnpackIndexSwapMeta (+ ZeroedSlot) on the bytes that follow a cell header / start a ufs file
    -> 'z' | 'u' | ('o', keyhex or None, swap_file_sz, flags, swap_hdr_sz, url or None)"""
    if len(buf) >= 10 and buf[:10] == b"\0" * 10:
        return "z"
    if len(buf) < 5 or buf[0] != 3:
        return "u"
    total = struct.unpack("<i", buf[1:5])[0]
    if total < 5 or total > len(buf):
        return "u"
    pos, key, sfs, flags, url = 5, None, 0, 0, None
    while pos < total:
        if pos + 5 > total:
            return "u"
        typ = buf[pos]
        ln = struct.unpack("<i", buf[pos + 1:pos + 5])[0]
        if ln < 0 or ln > 65536 or pos + 5 + ln > total:
            return "u"
        val = buf[pos + 5:pos + 5 + ln]
        if typ == 3:
            if ln != 16:
                return "u"
            key = val.hex()
        elif typ == 9:
            if ln != 44:
                return "u"
            sfs = struct.unpack("<Q", val[32:40])[0]
            flags = struct.unpack("<H", val[42:44])[0]
        elif typ == 5:
            if ln != 44:          # old_metahdr has the same size on this platform
                return "u"
            sfs = struct.unpack("<Q", val[32:40])[0]
            flags = struct.unpack("<H", val[42:44])[0]
        elif typ == 4:
            url = val.split(b"\0", 1)[0].decode("latin-1") if b"\0" in val else None
        pos += 5 + ln
    return ("o", key, sfs, flags, total, url)


def meta_text(m, keyname):
    """the last field names the key whose URL the metadata carries (UnpackHitSwapMeta compares the URL too)"""
    if m in ("z", "u"):
        return m
    return "o.%s.%d.%d.%d.%s" % (keyname(m[1]) if m[1] else "none", m[2], m[3], m[4], keyname(store_key(m[5]).hex()) if m[5] else "none")


def rock_header(b):
    """DbCellHeader: key[2] u64, entrySize u64, payloadSize u32, version u32, firstSlot i32, nextSlot i32"""
    if len(b) < 40:
        return None
    es, ps, ver, first, nxt = struct.unpack("<QIIii", b[16:40])
    return {"key": b[:16].hex(), "es": es, "ps": ps, "ver": ver, "first": first, "next": nxt}


class Run:
    """one scenario: its own origin, squid, cache_dir"""

    def __init__(self, h, sc, idx):
        self.h, self.sc, self.idx = h, sc, idx
        self.origin = rig.Origin()
        self.origin.on("c16", self.handler)
        self.cur = {}            # url -> current version at the origin
        self.vers = {}           # (url, ver) -> (n, seed, chunked)
        self.nswap = {}
        self.trace = []          # per phase: list of event records
        self.images = []         # per phase: what the cache_dir holds when the phase is over
        self.lock = threading.Lock()
        conf = dirconf(sc["store"]) + COMMON + ("cache_peer 127.0.0.1 parent %d 0 no-query no-digest originserver name=o\n"
                                                 "never_direct allow all\n" % self.origin.port)
        self.sq = CrashSquid(h.stage, conf=conf)
        self.sq.on_spawn = h.reaper.add
        self.cache = os.path.join(self.sq.dir, "cache")
        r = subprocess.run(["cp", "-a", h.template(sc["store"]), self.cache], capture_output=True, text=True)
        if r.returncode != 0:
            raise RuntimeError("cannot copy the cache_dir template: " + r.stderr[-300:])
        self.state = os.path.join(self.sq.dir, "cp.state")
        self.log = os.path.join(self.sq.dir, "cp.log")
        self.store_log_pos = 0

    # -- origin ------------------------------------------------------------------------------------
    def obj(self, url, ver):
        n, seed, chunked = self.vers[(url, ver)]
        name = url.rsplit("/", 1)[1]
        tag = b"[%s v%04d]" % (name.encode(), ver)
        b = body(n, seed, tag)
        hd = [("ETag", '"%s-v%04d"' % (name, ver)), ("X-Ver", "%sv%04d" % (name, ver)), ("Cache-Control", "max-age=86400"),
              ("Content-Type", "application/octet-stream")]
        if not chunked:
            hd.append(("X-Pad", "p" * (8 - len(str(n)))))
        return b, hd, chunked

    def handler(self, req):
        m = re.search(r"/sc16/(\w+)", req["first"])
        url = "http://c16.test/sc16/" + (m.group(1) if m else "none")
        with self.lock:
            if url not in self.cur:
                self.cur[url] = 1
                self.vers[(url, 1)] = (64, 7, False)
            b, hd, chunked = self.obj(url, self.cur[url])
        if chunked:
            head = rig.simple_response(200, b"", hd + [("Transfer-Encoding", "chunked")], cl=False)
            out = head
            step = max(1, (len(b) + 1) // 2)
            for i in range(0, len(b), step):
                seg = b[i:i + step]
                out += b"%x\r\n" % len(seg) + seg + b"\r\n"
            return [("send", out + b"0\r\n\r\n")]
        return [("send", rig.simple_response(200, b, hd))]

    def new_version(self, url, n, seed, chunked):
        with self.lock:
            self.cur[url] = self.cur.get(url, 0) + 1
            self.vers[(url, self.cur[url])] = (n, seed, chunked)

    # -- client ------------------------------------------------------------------------------------
    def request(self, url, headers=(), method="GET"):
        try:
            c = rig.Client(self.sq.port, timeout=15)
        except OSError:
            return None
        lines = ["%s %s HTTP/1.1" % (method, url), "Host: c16.test"] + ["%s: %s" % h for h in headers] + ["Connection: close", "", ""]
        c.send("\r\n".join(lines).encode())
        # a dead squid shows as EOF/reset at once (loopback), so the strict reader returns quickly
        r = c.response()
        c.close()
        return r

    def check(self, r, url):
        """-> 'H<ver>' + '!what' for every difference from that version of this URL"""
        name = url.rsplit("/", 1)[1]
        xv = rig.hget(r["hdrs"], "x-ver") or ""
        m = re.fullmatch(r"(\w+?)v(\d{4})", xv)
        if not m or m.group(1) != name or (url, int(m.group(2))) not in self.vers:
            # headers do not name a version of this URL: try to recognise the body
            for (u, v) in sorted(self.vers):
                if u == url and self.obj(u, v)[0] == r["body"]:
                    return "H%d!hdr-X-Ver(%s)" % (v, xv[:20])
            return "H0!unknown-version(%s)" % xv[:20]
        ver = int(m.group(2))
        b, hd, chunked = self.obj(url, ver)
        bad = ""
        if not r["complete"]:
            bad += "!incomplete"
        if r["body"] != b:
            k = 0
            while k < min(len(b), len(r["body"])) and b[k] == r["body"][k]:
                k += 1
            bad += "!body(%d/%d@%d)" % (len(r["body"]), len(b), k) + self.describe_body(url, r["body"])
        for n, v in hd:
            if v not in rig.hall(r["hdrs"], n.lower()):
                bad += "!hdr-" + n
        cl = rig.hget(r["hdrs"], "content-length")
        if cl is not None and cl != str(len(b)):
            bad += "!cl(%s)" % cl
        return "H%d%s" % (ver, bad)

    def probe(self, url):
        before = len(self.origin.requests("c16"))
        r = self.request(url, [("Cache-Control", "only-if-cached")])
        if r is None:
            return "Xno-response"
        if len(self.origin.requests("c16")) > before:
            return "Xcontacted-origin"
        if r["status"] == 504:
            return "M"
        if r["status"] != 200:
            return "E%d" % r["status"]
        return self.check(r, url)

    def wait_swapout(self, url, timeout=20.0):
        """until store.log shows a new SWAPOUT of url, or squid is dead"""
        path = os.path.join(self.sq.dir, "store.log")
        t0 = time.time()
        while time.time() - t0 < timeout * rig.VERIF_SLOW:
            try:
                with open(path, "rb") as f:
                    f.seek(self.store_log_pos)
                    d = f.read()
            except OSError:
                d = b""
            k = d.rfind(b"\n")
            if k >= 0:
                for l in d[:k].split(b"\n"):
                    f = l.split()
                    if len(f) >= 13 and f[1] == b"SWAPOUT" and f[-1].decode("latin-1") == url:
                        self.store_log_pos += k + 1
                        return True
                self.store_log_pos += k + 1
            if not self.sq.alive():
                return False
            time.sleep(0.005)
        return False

    def do(self, op):
        c, k = op[0], op[1]
        url = URLFMT % k
        if c in "SC":
            self.new_version(url, op[2], op[3], c == "C")
            r = self.request(url, [("Cache-Control", "no-cache")])
            if r is None or r["status"] != 200:
                return "%s=fail%s" % (c, r["status"] if r else "")
            res = self.check(r, url)
            ok = res == "H%d" % self.cur[url]
            if not self.wait_swapout(url):
                return "%s=%s" % (c, "unsettled" if self.sq.alive() else "died")
            return "%s=%s" % (c, "ok" if ok else res)
        if c == "G":
            return "G=" + self.probe(url)
        if c == "F":
            before = len(self.origin.requests("c16"))
            r = self.request(url)
            if r is None or r["status"] != 200:
                return "F=fail%s" % (r["status"] if r else "")
            res = self.check(r, url)
            if len(self.origin.requests("c16")) > before:
                self.wait_swapout(url, timeout=5)
                return "F=M" + res[1:]
            return "F=" + res
        if c == "P":
            r = self.request(url, method="PURGE")
            return "P=%s" % (r["status"] if r else "fail")
        return "?"


    # -- what is on the disk after a phase ---------------------------------------------------------------
    def segments(self, url, ver, cap):
        """the payload pieces (cap bytes each, the first one starting with the h bytes squid prepends) of a version:
        list of (offset in the body, bytes of the body in that piece)"""
        n, seed, chunked = self.vers[(url, ver)]
        b = self.obj(url, ver)[0]
        h = self.h.h
        out, pos, j = [], 0, 0
        total = h + n
        while pos < total:
            lo, hi = max(pos, h) - h, min(pos + cap, total) - h
            out.append((lo, b[lo:max(lo, hi)], min(pos + cap, total) - pos))
            pos += cap
            j += 1
        return out

    def identify_piece(self, payload, inode, cap):
        """which piece of which version these payload bytes are -> 'k0v2p1' or 'x'"""
        h = self.h.h
        with self.lock:
            vers = sorted(self.vers)
        for (url, ver) in vers:
            name = url.rsplit("/", 1)[1]
            for j, (lo, seg, plen) in enumerate(self.segments(url, ver, cap)):
                if plen != len(payload):
                    continue
                if j == 0:
                    if inode and payload[h:] == seg and (b"X-Ver: %sv%04d\r\n" % (name.encode(), ver)) in payload[:h]:
                        return "%sv%dp0" % (self.short(name), ver)
                elif payload == seg:
                    return "%sv%dp%d" % (self.short(name), ver, j)
        return "x"

    @staticmethod
    def short(name):
        return name[0] + str(int(name[1:]))

    def rock_image(self):
        slot_size = int(self.sc["store"][4:])
        nslots = rock_geometry(slot_size)
        cells = []
        try:
            with open(os.path.join(self.cache, "rock"), "rb") as f:
                for i in range(nslots):
                    f.seek(ROCK_HEADER + i * slot_size)
                    d = f.read(max(slot_size, 4096))          # loadOneSlot reads SM_PAGE_SIZE bytes whatever the slot size
                    if len(d) < CELL:
                        cells.append("%d,t" % i)
                        continue
                    hd = rock_header(d)
                    if hd["first"] == 0 and hd["next"] == 0 and hd["ps"] == 0:
                        continue
                    k0, k1 = struct.unpack("<QQ", d[:16])
                    meta = parse_meta(d[CELL:4096])
                    payload = d[CELL:CELL + hd["ps"]] if hd["ps"] <= slot_size - CELL else b""
                    tag = self.identify_piece(payload, hd["first"] == i, slot_size - CELL) if payload else "x"
                    cells.append("%d,%s,%d,%d,%d,%d,%d,%d,%d,%s,%s" % (i, self.h.keyname(hd["key"]), k0, k1, hd["es"], hd["ps"], hd["ver"], hd["first"], hd["next"],
                                                                      meta_text(meta, self.h.keyname), tag))
        except OSError as e:
            return "rock:error:%s" % type(e).__name__
        return "rock:%d:%d:%s" % (slot_size, nslots, ";".join(cells) or "-")

    def identify_file(self, data):
        """-> (keyname from the swap metadata or 'u', tag): tag = k0v2c (the complete object), k0v2p<bytes> (a proper prefix of it), x"""
        meta = parse_meta(data[:4096])
        if meta in ("z", "u"):
            return "u", "x", 0
        keyname = self.h.keyname(meta[1]) if meta[1] else "none"
        hdr = meta[4]
        with self.lock:
            vers = sorted(self.vers)
        for (url, ver) in vers:
            name = url.rsplit("/", 1)[1]
            if (b"X-Ver: %sv%04d\r\n" % (name.encode(), ver)) not in data[:hdr + 600]:
                continue
            b = self.obj(url, ver)[0]
            total = self.h.h + len(b)
            if len(data) == total and data[self.h.h:] == b:
                return keyname, "%sv%dc" % (self.short(name), ver), hdr
            if len(data) < total and len(data) >= self.h.h and data[self.h.h:] == b[:len(data) - self.h.h]:
                return keyname, "%sv%dp%d" % (self.short(name), ver, len(data)), hdr
        return keyname, "x", hdr

    def ufs_image(self):
        recs, files = [], []
        for name in ("swap.state", "swap.state.new", "swap.state.clean"):
            p = os.path.join(self.cache, name)
            if not os.path.exists(p):
                continue
            d = open(p, "rb").read()
            items = []
            for o in range(0, len(d) - 71, 72):
                r = d[o:o + 72]
                op = r[0]
                filen = struct.unpack("<i", r[4:8])[0]
                ts, lastref, exp, lastmod = struct.unpack("<qqqq", r[8:40])
                sz = struct.unpack("<Q", r[40:48])[0]
                refcount, flags = struct.unpack("<HH", r[48:52])
                key = r[52:68].hex()
                csum = r[1:4]
                ok = csum == swap_checksum24(filen & 0xffffffff, sz)
                times_ok = min(ts, lastref, exp, lastmod) >= -2
                items.append("%d,%d,%d,%s,%d,%d,%d,%d" % (op, filen, sz, self.h.keyname(key), lastref, flags, int(ok), int(times_ok)))
            recs.append("%s=%s%s" % (name, "+".join(items) or "-", "~%d" % (len(d) % 72) if len(d) % 72 else ""))
        for root, dirs, fs in os.walk(self.cache):
            for fn in sorted(fs):
                if not re.fullmatch(r"[0-9A-F]{8}", fn):
                    continue
                data = open(os.path.join(root, fn), "rb").read()
                keyname, tag, hdr = self.identify_file(data)
                files.append((int(fn, 16), "%d,%s,%d,%d,%s" % (int(fn, 16), keyname, hdr, len(data), tag)))
        files.sort()
        return "ufs:%s:%s" % ("/".join(recs) or "-", ";".join(f[1] for f in files) or "-")

    def image(self):
        return self.rock_image() if self.sc["store"].startswith("rock") else self.ufs_image()

    def describe_body(self, url, got):
        """a wrong rock hit body as a sequence of known pieces"""
        if not self.sc["store"].startswith("rock"):
            return ""
        cap = int(self.sc["store"][4:]) - CELL
        h = self.h.h
        parts, pos, j = [], 0, 0
        with self.lock:
            vers = sorted(self.vers)
        while pos < len(got):
            ln = (cap - h) if j == 0 else cap
            seg = got[pos:pos + ln]
            tag = "x"
            for (u, v) in vers:
                for jj, (lo, s2, plen) in enumerate(self.segments(u, v, cap)):
                    if (jj == 0) != (j == 0):
                        continue
                    if s2 == seg:
                        tag = "%sv%dp%d" % (self.short(u.rsplit("/", 1)[1]), v, jj)
                        break
                    if pos + len(seg) == len(got) and len(seg) < len(s2) and s2[:len(seg)] == seg:
                        tag = "%sv%dp%d~%d" % (self.short(u.rsplit("/", 1)[1]), v, jj, len(seg))     # the response ended inside this piece
                        break
                if tag != "x":
                    break
            parts.append(tag)
            pos += ln
            j += 1
        return "!pieces(%s)" % "+".join(parts)

    # -- phases ------------------------------------------------------------------------------------
    def prepare_injection(self, crash):
        for p in (self.state, self.log):
            with open(p, "wb") as f:
                f.write(b"\0" * 64 if p == self.state else b"")
            os.chmod(p, 0o666)
        env = {"LD_PRELOAD": self.h.preload, "CRASHPOINT_DIR": self.cache, "CRASHPOINT_STATE": self.state, "CRASHPOINT_LOG": self.log,
               "CRASHPOINT_AT": str(crash[1]) if crash[0] == "n" else "0", "CRASHPOINT_TORN": str(crash[2])}
        self.sq.env.update(env)

    def read_trace(self):
        recs = []
        try:
            for l in open(self.log, errors="replace").read().splitlines():
                f = l.split(" ")
                if len(f) != 7 or not f[0].isdigit():
                    continue
                recs.append({"n": int(f[0]), "pid": int(f[1]), "kind": f[2], "path": f[3], "off": int(f[4]), "len": int(f[5]),
                             "data": bytes.fromhex(f[6]) if f[6] != "-" else b""})
        except (OSError, ValueError):
            pass
        recs.sort(key=lambda r: r["n"])
        return recs

    def start_squid(self):
        p = os.path.join(self.sq.dir, "cache.log")
        if os.path.exists(p):
            os.truncate(p, 0)
        self.sq.proc = None
        for attempt in range(3):
            st = self.sq.start()
            if st == "ok":
                return "ok"
            if st.startswith("exit") and "Address already in use" in self.sq.cache_log() + self._stderr():
                # the free port found at construction was taken meanwhile: move to another one
                self.sq.kill()
                old, self.sq.port = self.sq.port, rig.free_port()
                text = open(self.sq.conf_path).read().replace("http_port 127.0.0.1:%d" % old, "http_port 127.0.0.1:%d" % self.sq.port)
                open(self.sq.conf_path, "w").write(text)
                os.truncate(p, 0)
                continue
            return st
        return st

    def _stderr(self):
        try:
            return open(os.path.join(self.sq.dir, "stderr.log"), errors="replace").read()
        except OSError:
            return ""

    def run_phase(self, ops, crash):
        self.prepare_injection(crash)
        st = self.start_squid()
        if st != "ok":
            died = not self.sq.alive()
            killed_by_injection = died and self.sq.proc is not None and self.sq.proc.returncode == -9
            self.sq.kill()
            self.trace.append(self.read_trace())
            self.images.append(self.image())
            if killed_by_injection:
                return "start=crashed ops=- events=%d died=1" % len(self.trace[-1])
            return "start=fail:%s ops=- events=%d died=%d" % (self.start_problem(st), len(self.trace[-1]), int(died))
        res = []
        for op in ops:
            if not self.sq.alive():
                break
            res.append(self.do(op))
            if re.search(r"fail|died|unsettled|=X", res[-1]):
                # a request failed: if the crash point was hit, the process is gone within moments
                for _ in range(100):
                    if not self.sq.alive():
                        break
                    time.sleep(0.01)
        if res and re.search(r"fail|died|Xno-response", res[-1]):
            for _ in range(100):
                if not self.sq.alive():
                    break
                time.sleep(0.01)
        died = not self.sq.alive()
        extra = ""
        if crash[3] and not died:
            rc = self.sq.term()
            extra = " exit=%s" % rc
        self.sq.kill()
        self.trace.append(self.read_trace())
        self.images.append(self.image())
        return "start=ok ops=%s events=%d died=%d%s" % (",".join(res) or "-", len(self.trace[-1]), int(died), extra)

    def start_problem(self, st):
        probs = self.sq.problems()
        return re.sub(r"\s+", "_", (st + ":" + (probs[0] if probs else "")))[:160]

    def finale(self):
        """no fault injection: probe all keys, store one more object, probe again"""
        for k in ("LD_PRELOAD", "CRASHPOINT_AT", "CRASHPOINT_LOG", "CRASHPOINT_STATE", "CRASHPOINT_DIR", "CRASHPOINT_TORN"):
            self.sq.env.pop(k, None)
        st = self.start_squid()
        if st != "ok":
            s = "final start=fail:%s" % self.start_problem(st)
            self.sq.kill()
            return s
        first = [self.probe(URLFMT % k) for k in range(self.sc["nkeys"])]
        # later activity must not disturb what was indexed: two more objects under fresh URLs (they take free slots / file numbers)
        extras = []
        for j in range(2):
            url = EXTRA_URL % j
            self.new_version(url, 9000 + 4000 * j, 77 + j, False)
            r = self.request(url, [("Cache-Control", "no-cache")])
            if r is not None and r["status"] == 200:
                self.wait_swapout(url, timeout=5)
                extras.append(url)
        second = [self.probe(URLFMT % k) for k in range(self.sc["nkeys"])]
        xs = [self.probe(u) for u in extras]
        alive = self.sq.alive()
        probs = self.sq.problems()
        self.sq.kill()
        s = "final start=ok %s ; %s ; %s" % (" ".join(first), " ".join(second), " ".join(xs) or "-")
        if not alive or probs:
            s += " problem=" + re.sub(r"\s+", "_", probs[0] if probs else "squid-died")[:120]
        return s

    def trace_text(self):
        """compact event trace for the model tie"""
        out = []
        for i, recs in enumerate(self.trace):
            items = []
            for r in recs:
                if self.sc["store"].startswith("rock"):
                    if r["path"] != "rock":
                        items.append("%s:%s" % (r["kind"], r["path"]))
                        continue
                    slot_size = int(self.sc["store"][4:])
                    off = r["off"] - 16384
                    hd = rock_header(r["data"]) if r["kind"] in "WP" else None
                    if r["kind"] == "K":
                        items.append("K:%d" % (off // slot_size))
                    elif r["kind"] == "P" and off >= 0 and off % slot_size == 0:
                        items.append("P:%d:%d" % (off // slot_size, r["len"]))
                    elif off < 0 or off % slot_size or hd is None:
                        items.append("%s:@%d+%d" % (r["kind"], r["off"], r["len"]))
                    else:
                        items.append("%s:%d:%s:%d:%d:%d:%d:%d:%d" % (r["kind"], off // slot_size, self.h.keyname(hd["key"]), hd["first"], hd["next"],
                                                                    hd["ps"], hd["es"], hd["ver"], r["len"]))
                else:
                    if r["path"].startswith("swap.state"):
                        if r["kind"] in "WP" and r["len"] >= 72 and len(r["data"]) >= 64:
                            recs_txt = swaplog_records(r["data"], self.h)
                            items.append("%s:%s:%d:%s" % (r["kind"], r["path"], r["len"], recs_txt))
                        else:
                            items.append("%s:%s:%d" % (r["kind"], r["path"], r["len"]))
                    else:
                        items.append("%s:%s:%d:%d" % (r["kind"], r["path"], r["off"], r["len"]))
            out.append("%d:%s" % (i, ";".join(items) or "-"))
        return "|".join(out)

    def close(self):
        try:
            self.sq.kill()
        except Exception:
            pass
        self.origin.close()
        if not os.environ.get("VERIF_C16_KEEP"):
            shutil.rmtree(self.sq.dir, ignore_errors=True)


def swaplog_records(data, h):
    """StoreSwapLogData: op u8, checksum[3], swap_filen i32, timestamp, lastref, expires, lastmod (i64), swap_file_sz u64, refcount u16, flags u16, key[16], checksum"""
    out = []
    for o in range(0, len(data) - 71, 72):
        op = data[o]
        filen = struct.unpack("<i", data[o + 4:o + 8])[0]
        sz = struct.unpack("<Q", data[o + 40:o + 48])[0]
        key = data[o + 52:o + 68].hex()
        out.append("%s.%x.%d.%s" % ({1: "ADD", 2: "DEL", 3: "VER"}.get(op, "op%d" % op), filen, sz, h.keyname(key)))
    return "+".join(out) or "?"


def swap_checksum24(f1, f2):
    """SwapChecksum24::set(int32_t f1, uint64_t f2) of src/StoreSwapLogData.cc"""
    total = (f1 & 0xffffffff) + ((f2 >> 32) & 0xffffffff) + (f2 & 0xffffffff)
    while total >> 24:
        total = (total & 0xFFFFFF) + (total >> 24)
    total = ~total
    return bytes([total & 0xff, (total >> 8) & 0xff, (total >> 16) & 0xff])


class Harness:
    def __init__(self, stage, jobs=None):
        self.stage = stage
        self.crashes = 0
        self.n = 0
        self.lock = threading.Lock()
        self.templates = {}
        self.reaper = Reaper()
        self.jobs = jobs or int(os.environ.get("VERIF_C16_JOBS", "6"))
        os.makedirs(stage.work, exist_ok=True)
        self.preload = os.path.join(stage.work, "crashpoint.so")
        r = subprocess.run(["gcc", "-O1", "-g", "-shared", "-fPIC", "-o", self.preload, CRASHPOINT_C, "-ldl"], capture_output=True, text=True)
        if r.returncode != 0:
            raise RuntimeError("crashpoint.c does not compile: " + r.stderr[-800:])
        os.chmod(self.preload, 0o755)
        self.keys = {}
        for k in range(40):
            self.keys[store_key(URLFMT % k).hex()] = "k%d" % k
        for j in range(4):
            self.keys[store_key(EXTRA_URL % j).hex()] = "x%d" % j
        self.h = 0
        self.hdr = 0
        self.h = self.calibrate()

    def keyname(self, hexkey):
        return self.keys.get(hexkey, "?" + hexkey[:8])

    def template(self, store):
        """a cache_dir initialised by `squid -z`, made once per store type"""
        with self.lock:
            if store in self.templates:
                return self.templates[store]
            sq = rig.Squid(self.stage, conf=dirconf(store) + COMMON)
            r = sq.init_dirs()
            path = os.path.join(sq.dir, "cache")
            if r.returncode != 0 or not os.path.exists(path):
                raise RuntimeError("squid -z failed for %s: %s" % (store, (r.stdout + r.stderr)[-800:]))
            self.templates[store] = path
            return path

    def calibrate(self):
        """bytes squid adds to the body of this rig's responses on swap-out (swap metadata + reply header), from a rock trace"""
        run = Run(self, {"store": "rock4096", "cal": None, "nkeys": 1, "phases": []}, 0)
        try:
            obs = run.run_phase([("S", 0, 100, 1)], ("e", 0, 0, False))
            tr = run.trace[-1]
            total = 0
            for r in tr:
                hd = rock_header(r["data"]) if r["kind"] == "W" and r["path"] == "rock" else None
                if hd and hd["key"] == store_key(URLFMT % 0).hex():
                    total += hd["ps"]
                    if hd["first"] * 4096 + ROCK_HEADER == r["off"]:
                        meta = parse_meta(r["data"][CELL:] + b"\0" * 4096)
                        # the logged prefix is shorter than the metadata: read its length field only
                        self.hdr = struct.unpack("<i", r["data"][CELL + 1:CELL + 5])[0]
            if "S=ok" not in obs or total <= 100:
                raise RuntimeError("calibration run failed: %s / %d events; %s" % (obs, len(tr), run.sq.cache_log()[-600:]))
            return total - 100
        finally:
            run.close()

    def one(self, line):
        sc = parse_line(line)
        if sc is None:
            return "bad-op"
        if sc["cal"] is not None and sc["cal"] != (self.h, self.hdr):
            return "bad-calibration"
        with self.lock:
            self.n += 1
            idx = self.n
        run = None
        try:
            run = Run(self, sc, idx)
            obs = []
            for ops, crash in sc["phases"]:
                obs.append(run.run_phase(ops, crash))
            obs.append(run.finale())
            return "cal=%d.%d | " % (self.h, self.hdr) + " | ".join(obs) + " trace=" + run.trace_text() + " img=" + "|".join(run.images)
        except (OSError, RuntimeError) as e:
            self.crashes += 1
            return "abort:harness-error:%s:%s" % (type(e).__name__, re.sub(r"\s+", "_", str(e))[:120])
        finally:
            if run is not None:
                run.close()

    def run(self, lines):
        with ThreadPoolExecutor(max_workers=self.jobs) as ex:
            return list(ex.map(self.one, lines))

    def close(self):
        self.reaper.close()
