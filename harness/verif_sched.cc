#include "verif_atomic.h"
#include "verif_sched.h"

namespace verif {
bool in_assert = false;
Sched *sched = nullptr;

static void trampoline() {
    Sched *s = sched;
    VThread *t = s->threads[s->current];
    t->body();
    t->done = true;
    swapcontext(&t->ctx, &s->main_ctx);
}

void Sched::resume(int tid) {
    VThread *t = threads[tid];
    if (t->done) return;
    current = tid;
    if (!t->started) {
        t->started = true;
        getcontext(&t->ctx);
        t->ctx.uc_stack.ss_sp = t->stack.data();
        t->ctx.uc_stack.ss_size = t->stack.size();
        t->ctx.uc_link = nullptr;
        makecontext(&t->ctx, trampoline, 0);
    }
    swapcontext(&main_ctx, &t->ctx);
    current = -1;
}

bool Sched::step(int tid) {
    if (tid < 0 || tid >= static_cast<int>(threads.size()) || threads[tid]->done) return false;
    resume(tid);
    return true;
}

void op_begin() {
    Sched *s = sched;
    if (!s || s->current < 0) return;        // outside a scenario: run inline
    VThread *t = s->threads[s->current];
    const int me = s->current;
    swapcontext(&t->ctx, &s->main_ctx);      // park; resumed by the scheduler
    s->current = me;
}

void op_log(const void *obj, const char *kind, uint64_t old, uint64_t nw) {
    Sched *s = sched;
    if (!s || s->current < 0) return;
    auto it = s->names.find(obj);
    char buf[160];
    snprintf(buf, sizeof(buf), "%d:%s.%s.%llu>%llu", s->current, it == s->names.end() ? "?" : it->second.c_str(), kind,
             static_cast<unsigned long long>(old), static_cast<unsigned long long>(nw));
    s->log.push_back(buf);
}

void assert_failed(const char *expr) {
    if (sched) sched->note(std::string("assert:") + expr);
}
} // namespace verif
