// C28 harness: the real HttpHdrRange / HttpHdrRangeSpec (src/HttpHdrRange.cc), httpHeaderParseOffset
// (src/HttpHeaderTools.cc), strListGetItem (src/StrList.cc) and Range<> (src/base/Range.h) from the staged tree,
// compiled with ASan/UBSan.
//
//   r <hex header value> <clen>
//        HttpHdrRange::ParseCreate(value); on success HttpHdrRange::canonize(clen)
//     -> ignored                          ParseCreate returned nullptr (the header is ignored)
//     -> ok <parsed> <canon>              specs after parsing and after canonize(clen), each "offset:length" joined by ','
//                                         (-1 = UnknownPosition); <canon> is '-' when canonize() returned 0 (no spec left)
//   p <hex item> <hex tail>
//        HttpHdrRangeSpec::parseInit(field = item ++ tail, flen = |item|)   (tail is what follows the item in the header)
//     -> invalid | ok <offset>:<length>
//   --dump-constants                      LLONG_MIN/MAX, UnknownPosition, isspace set, list delimiters probed from strListGetItem,
//                                         whether MERGING_BREAKS_NOTHING is compiled in (probed through canonize)
//
// Header values and items must be NUL-free (they are C strings inside squid): reject:nul otherwise.
#include "squid.h"
#include "HttpHeaderRange.h"
#include "HttpHeaderTools.h"
#include "SquidString.h"
#include "StrList.h"

#include <cctype>
#include <climits>
#include <cstdio>
#include <cstring>
#include <iostream>
#include <sstream>
#include <string>
#include <vector>

static bool unhex(const std::string &h, std::string &out)
{
    out.clear();
    if (h == "-") return true;
    if (h.size() % 2) return false;
    for (size_t i = 0; i < h.size(); i += 2) {
        int v = 0;
        for (int k = 0; k < 2; ++k) {
            const char c = h[i + k];
            int d;
            if (c >= '0' && c <= '9') d = c - '0';
            else if (c >= 'a' && c <= 'f') d = c - 'a' + 10;
            else if (c >= 'A' && c <= 'F') d = c - 'A' + 10;
            else return false;
            v = v * 16 + d;
        }
        out.push_back(static_cast<char>(v));
    }
    return true;
}

static std::string specText(const HttpHdrRangeSpec &s)
{
    return std::to_string(s.offset) + ":" + std::to_string(s.length);
}

static std::string specsText(const HttpHdrRange &r)
{
    std::string t;
    for (auto i = r.begin(); i != r.end(); ++i) {
        if (!t.empty()) t += ',';
        t += specText(**i);
    }
    return t.empty() ? "-" : t;
}

static bool parseInt64(const std::string &s, int64_t &v)
{
    if (s.empty() || s.size() > 21) return false;
    errno = 0;
    char *end = nullptr;
    const long long x = strtoll(s.c_str(), &end, 10);
    if (errno || *end || end == s.c_str()) return false;
    v = x;
    return true;
}

static std::string handle(const std::string &line)
{
    std::istringstream is(line);
    std::string op, a, b, extra;
    if (!(is >> op >> a >> b) || (is >> extra))
        return "bad-op";
    if (op == "r") {
        std::string value;
        int64_t clen = 0;
        if (!unhex(a, value) || !parseInt64(b, clen)) return "bad-op";
        if (value.find('\0') != std::string::npos) return "reject:nul";
        // String copies the text into an exact-size heap buffer: ASan sees over-reads of the scanners
        String s;
        s.assign(value.data(), value.size());
        HttpHdrRange *range = HttpHdrRange::ParseCreate(&s);
        if (!range)
            return "ignored";
        std::string out = "ok " + specsText(*range);
        const int ok = range->canonize(clen);
        const std::string canon = specsText(*range);
        if ((ok != 0) != (canon != "-")) {
            delete range;
            return "harness-inconsistency:canonize-result";
        }
        out += " " + canon;
        delete range;
        return out;
    }
    if (op == "p") {
        std::string item, tail;
        if (!unhex(a, item) || !unhex(b, tail)) return "bad-op";
        if (item.find('\0') != std::string::npos || tail.find('\0') != std::string::npos) return "reject:nul";
        const std::string all = item + tail;
        char *buf = new char[all.size() + 1];
        memcpy(buf, all.c_str(), all.size() + 1);
        HttpHdrRangeSpec spec;
        const bool ok = spec.parseInit(buf, static_cast<int>(item.size()));
        delete[] buf;
        return ok ? "ok " + specText(spec) : std::string("invalid");
    }
    return "bad-op";
}

static void dumpConstants()
{
    printf("llong_max %lld\nllong_min %lld\n", LLONG_MAX, LLONG_MIN);
    printf("unknown_position %lld\n", static_cast<long long>(HttpHdrRangeSpec::UnknownPosition));
    printf("isspace");
    for (int c = 1; c < 256; ++c) if (xisspace(c)) printf(" %d", c);
    printf("\nisdigit");
    for (int c = 1; c < 256; ++c) if (xisdigit(c)) printf(" %d", c);
    // bytes strListGetItem(…, ',', …) skips in front of an item: "<c>x" yields the item "x" at offset 1
    printf("\nlist_leading");
    for (int c = 1; c < 256; ++c) {
        const char text[3] = { static_cast<char>(c), 'x', 0 };
        String s(text);
        const char *item = nullptr, *pos = nullptr;
        int ilen = 0;
        if (strListGetItem(&s, ',', &item, &ilen, &pos) && ilen == 1 && *item == 'x')
            printf(" %d", c);
    }
    // bytes that end an unquoted item: "x<c>y" yields the item "x" and leaves pos on <c>
    printf("\nlist_delim");
    for (int c = 1; c < 256; ++c) {
        const char text[4] = { 'x', static_cast<char>(c), 'y', 0 };
        String s(text);
        const char *item = nullptr, *pos = nullptr;
        int ilen = 0;
        if (strListGetItem(&s, ',', &item, &ilen, &pos) && pos == item + 1 && c != '"')
            printf(" %d", c);
    }
    // bytes trimmed from the end of an item: "x<c>" yields length 1
    printf("\nlist_trailing");
    for (int c = 1; c < 256; ++c) {
        const char text[3] = { 'x', static_cast<char>(c), 0 };
        String s(text);
        const char *item = nullptr, *pos = nullptr;
        int ilen = 0;
        if (strListGetItem(&s, ',', &item, &ilen, &pos) && ilen == 1 && pos == item + 2)
            printf(" %d", c);
    }
    // is spec merging compiled in?  adjacent/overlapping canonical specs stay separate when it is not
    {
        String s("bytes=0-3,2-5,6-7");
        HttpHdrRange *r = HttpHdrRange::ParseCreate(&s);
        r->canonize(100);
        printf("\nmerging %d\n", r->specs.size() == 3 ? 0 : 1);
        delete r;
    }
}

int main(int argc, char **argv)
{
    if (argc > 1 && !strcmp(argv[1], "--dump-constants")) {
        dumpConstants();
        return 0;
    }
    std::string line;
    while (std::getline(std::cin, line)) {
        std::string out;
        try {
            out = handle(line);
        } catch (const std::exception &e) {
            out = std::string("exception:") + e.what();
        }
        puts(out.c_str());
        fflush(stdout);
    }
    return 0;
}
