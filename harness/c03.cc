// C03 in-process core: a client byte stream is cut into requests by the REAL code of the staged tree
//   Http::One::RequestParser::parse            (request line, headersEnd/grabMimeBlock, cleanMimePrefix, unfoldMime)
//   HttpRequest::FromUrlXXX / parseHeader       (AnyP::Uri::parse, HttpHeader::parse, Http::ContentLengthInterpreter)
//   HttpRequest::checkEntityFraming, urlCheckRequest, HttpHeader::chunked()/unsupportedTe()/conflictingContentLength()
//   Http::One::TeChunkedParser::parse           (request body de-chunking)
// in the order in which ConnStateData::parseRequests -> Http1::Server::parseOneRequest -> parseHttpRequest ->
// Http1::Server::processParsedRequest (buildHttpRequest) -> clientProcessRequest call them; the loop itself (a few lines)
// is transcribed here, the end-to-end half of the check runs the real one.
//
//   d <r|s> <hex stream>
//     -> events separated by spaces:
//        M:<start>:<headEnd>:<end>:<kind>:cl=<n|->:ncl=<count of Content-Length entries>:te=<0|1>:v=<maj>.<min>:m=<method hex>:u=<target hex>:p=<0|1>:ck=<Adler-32 of the body>
//             kind = none | cl | ch<decoded length>       (a request that clientProcessRequest hands to doCallouts())
//             p = request->flags.proxyKeepalive as clientSetKeepaliveFlag() (text-extracted from the staged client_side.cc) sets it
//        and one final event
//        end                  the buffer is empty
//        closing:<end>        the last message was not persistent: with pipeline_prefetch 0 the next request is not parsed before the
//                             response is written, and then the connection is closed
//        more:<start>         the request parser needs more data for the message that starts at <start>
//        body:<start>:<headEnd>:<kind>   the head was accepted, its body is incomplete (Squid keeps reading body bytes)
//        rej:<start>:<status>:<where>   error reply + quitAfterError (readMore = false); where = parse|method|url|version|header|
//                                       expect|unsup|framing|chunk
//        connect:<start>:<headEnd>      CONNECT: the tunnel code owns the connection from here on
#include "squid.h"
#include "anyp/Uri.h"
#include "base/TextException.h"
#include "http/one/RequestParser.h"
#include "http/one/TeChunkedParser.h"
#include "HttpRequest.h"
#include "MasterXaction.h"
#include "MemBuf.h"
#include "mem/forward.h"
#include "parser/Tokenizer.h"
#include "SquidConfig.h"

#include <cstdio>
#include <cstring>
#include <iostream>
#include <sstream>
#include <string>

static bool unhex(const std::string &h, std::string &r) {
    r.clear();
    if (h == "-") return true;
    if (h.size() % 2) return false;
    for (size_t i = 0; i + 1 < h.size(); i += 2) {
        int v = 0;
        for (int k = 0; k < 2; ++k) {
            const char c = h[i + k];
            int d;
            if (c >= '0' && c <= '9') d = c - '0';
            else if (c >= 'a' && c <= 'f') d = c - 'a' + 10;
            else return false;
            v = v * 16 + d;
        }
        r.push_back(static_cast<char>(v));
    }
    return true;
}
static std::string hex(const char *p, size_t n) {
    if (!n) return "-";
    static const char *d = "0123456789abcdef";
    std::string r;
    for (size_t i = 0; i < n; ++i) { const unsigned char c = p[i]; r.push_back(d[c >> 4]); r.push_back(d[c & 15]); }
    return r;
}

// ConnStateData's clientSetKeepaliveFlag(ClientHttpRequest *) is a file-static-like helper of client_side.cc (which cannot be
// linked here); its body is cut out of the staged source by props/C03.py and compiled against this stand-in
struct FakeClientHttpRequest { HttpRequest *request; };
#define ClientHttpRequest FakeClientHttpRequest
#include "c03_keepalive.inc"
#undef ClientHttpRequest

static unsigned adler(const char *p, size_t n) {
    unsigned a = 1, b = 0;
    for (size_t i = 0; i < n; ++i) { a = (a + static_cast<unsigned char>(p[i])) % 65521u; b = (b + a) % 65521u; }
    return (b << 16) | a;
}

static int countEntries(const HttpHeader &hdr, Http::HdrType id) {
    int n = 0;
    HttpHeaderPos pos = HttpHeaderInitPos;
    while (const HttpHeaderEntry *e = hdr.getEntry(&pos))
        if (e->id == id) ++n;
    return n;
}

static std::string delimit(const bool relaxed, const std::string &stream) {
    Config.onoff.relaxed_header_parser = relaxed ? 1 : 0;
    Config.maxRequestHeaderSize = 65536;
    std::ostringstream out;
    // exact-size heap copy so that ASan sees over-reads of the input
    char *copy = new char[stream.size() + 1];
    memcpy(copy, stream.data(), stream.size());
    SBuf inBuf(copy, stream.size());
    delete[] copy;
    const size_t total = stream.size();
    bool first = true;
    auto sep = [&]() { if (!first) out << ' '; first = false; };

    // ConnStateData::parseRequests: while (!inBuf.isEmpty() && !bodyPipe && flags.readMore)
    while (true) {
        if (inBuf.isEmpty()) { sep(); out << "end"; break; }
        const size_t start = total - inBuf.length();
        // Http1::Server::parseOneRequest + ConnStateData::parseHttpRequest
        Http1::RequestParserPointer hp = new Http1::RequestParser(false);
        const bool parsedOk = hp->parse(inBuf);
        inBuf = hp->remaining();
        if (hp->needsMoreData()) { sep(); out << "more:" << start; break; }
        if (!parsedOk) { sep(); out << "rej:" << start << ':' << static_cast<int>(hp->parseStatusCode) << ":parse"; break; }
        if (hp->method() == Http::METHOD_PRI && hp->messageProtocol() < Http::ProtocolVersion(2, 0)) { sep(); out << "rej:" << start << ":405:method"; break; }
        if (hp->method() == Http::METHOD_NONE) { sep(); out << "rej:" << start << ":405:method"; break; }
        const size_t headEnd = total - inBuf.length();

        // Http1::Server::buildHttpRequest
        const auto mx = MasterXaction::MakePortless<XactionInitiator::initHtcp>();
        const std::string uri(hp->requestUri().rawContent(), hp->requestUri().length());
        HttpRequest::Pointer request = HttpRequest::FromUrlXXX(uri.c_str(), mx, hp->method());
        if (!request) { sep(); out << "rej:" << start << ":400:url"; break; }
        const auto ver = hp->messageProtocol();
        if ((ver.major == 0 && ver.minor != 9) || ver.major > 1) { sep(); out << "rej:" << start << ":505:version"; break; }
        if (ver.major >= 1 && !request->parseHeader(*hp)) { sep(); out << "rej:" << start << ":400:header"; break; }

        // Http1::Server::processParsedRequest
        if (request->header.has(Http::HdrType::EXPECT)) {
            const String expect = request->header.getList(Http::HdrType::EXPECT);
            if (expect.caseCmp("100-continue") != 0) { sep(); out << "rej:" << start << ":417:expect"; break; }
        }

        // clientProcessRequest
        request->http_ver.major = ver.major;
        request->http_ver.minor = ver.minor;
        const bool mustReplyToOptions = (request->method == Http::METHOD_OPTIONS) &&
                                        (request->header.getInt64(Http::HdrType::MAX_FORWARDS) == 0);
        if (!urlCheckRequest(request.getRaw()) || mustReplyToOptions) { sep(); out << "rej:" << start << ":501:unsup"; break; }
        const auto frameStatus = request->checkEntityFraming();
        if (frameStatus != Http::scNone) { sep(); out << "rej:" << start << ':' << static_cast<int>(frameStatus) << ":framing"; break; }
        if (request->method == Http::METHOD_CONNECT) { sep(); out << "connect:" << start << ':' << headEnd; break; }

        FakeClientHttpRequest fakeHttp{request.getRaw()};
        clientSetKeepaliveFlag(&fakeHttp);
        const bool persistent = request->flags.proxyKeepalive;

        const auto chunked = request->header.chunked();
        const bool expectBody = chunked || request->content_length > 0;
        std::string kind = "none";
        unsigned ck = 1; // Adler-32 of the body bytes handed to the body pipe so far
        bool incomplete = false, chunkError = false;
        if (expectBody) {
            if (!chunked) {
                // identity: BodyPipe::putMoreData up to the declared size, consumeInput(putSize)
                const uint64_t want = static_cast<uint64_t>(request->content_length);
                const uint64_t have = inBuf.length();
                kind = "cl";
                const auto putSize = static_cast<SBuf::size_type>(have < want ? have : want);
                ck = adler(inBuf.rawContent(), putSize);
                if (have < want) incomplete = true;
                if (putSize) inBuf.consume(putSize);
            } else {
                // ConnStateData::handleChunkedRequestBody with an unbounded pipe buffer
                Http1::TeChunkedParser bodyParser;
                MemBuf mb;
                mb.init(4096, (1 << 30));
                bodyParser.setPayloadBuffer(&mb);
                bool parsed = false;
                try {
                    if (!inBuf.isEmpty()) {
                        parsed = bodyParser.parse(inBuf);
                        inBuf = bodyParser.remaining();
                    }
                } catch (...) {
                    chunkError = true;
                }
                kind = "ch" + std::to_string(static_cast<long long>(mb.contentSize()));
                ck = adler(mb.content(), mb.contentSize());
                bodyParser.setPayloadBuffer(nullptr);
                mb.clean();
                if (!chunkError && !parsed) {
                    if (!bodyParser.needsMoreData()) chunkError = true; // trailers too large: the next call would throw/stall; treated as an error here
                    else incomplete = true;
                }
            }
        }
        if (chunkError) { sep(); out << "rej:" << start << ":0:chunk"; break; }
        std::ostringstream desc;
        desc << kind << ":cl=";
        if (request->header.has(Http::HdrType::CONTENT_LENGTH)) desc << static_cast<long long>(request->content_length); else desc << '-';
        desc << ":ncl=" << countEntries(request->header, Http::HdrType::CONTENT_LENGTH)
             << ":te=" << (request->header.has(Http::HdrType::TRANSFER_ENCODING) ? 1 : 0)
             << ":v=" << ver.major << '.' << ver.minor
             << ":m=" << hex(hp->method().image().rawContent(), hp->method().image().length())
             << ":u=" << hex(hp->requestUri().rawContent(), hp->requestUri().length())
             << ":p=" << (persistent ? 1 : 0)
             << ":ck=" << ck;
        if (incomplete) { sep(); out << "body:" << start << ':' << headEnd << ':' << desc.str(); break; }
        const size_t end = total - inBuf.length();
        sep(); out << "M:" << start << ':' << headEnd << ':' << end << ':' << desc.str();
        if (!persistent) { sep(); out << "closing:" << end; break; }
    }
    return out.str();
}

int main(int, char **) {
    Mem::Init();
    httpHeaderInitModule();
    AnyP::UriScheme::Init();
    std::string line;
    while (std::getline(std::cin, line)) {
        std::istringstream is(line);
        std::string op, mode, h, bytes;
        std::string out = "bad-op";
        if ((is >> op >> mode >> h) && op == "d" && (mode == "r" || mode == "s") && unhex(h, bytes)) {
            try {
                out = delimit(mode == "r", bytes);
            } catch (const std::exception &e) {
                out = std::string("throw:") + e.what();
                for (auto &c : out) if (c == ' ' || c == '\n') c = '_';
            }
        }
        puts(out.c_str());
        fflush(stdout);
    }
    return 0;
}
