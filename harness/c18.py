"""C18 end-to-end harness: bursts of identical requests around one paced origin fetch (collapsed forwarding).

Scenario line (space separated):
  <cf> <resp> <leader> <followers>
    cf         on | off           which squid instance (collapsed_forwarding on / off); both have a memory cache only
    resp       <T>.<F>.<n>.<E>    what the origin answers for the URL
                 T  P  200 + Cache-Control: max-age=3600           (cachePositively)
                    S  404 without freshness information           (doNotCacheButShare)
                    N  200 + Cache-Control: private                (reuseNot)
                 F  l  Content-Length      c  chunked      e  delimited by the end of the connection
                 n  body bytes
                 E  how the FIRST fetch ends:  ok  |  cut (connection closed after the first third of the body; l and c only)
                    |  err (connection closed before any reply byte)
                 every later fetch of the URL is answered completely (same T, F, n; its own body bytes)
    leader     L-  |  L<w>         the first client; with <w> it closes its connection in window w (0..2)
    followers  .  |  comma separated <w><k>: a client started in window w, kind k = g plain GET, n GET with Cache-Control: no-cache,
               d plain GET that closes its connection before the window ends
  Windows (the first fetch is paced by the origin):  0 = request at the origin, no reply byte yet;  1 = reply header sent;
  2 = first third of the body sent;  3 = first fetch ended.  A fetch other than the first that reaches the origin is held until
  the clients of the current window have been started, then answered at once, one held fetch after the other.

Observation:  fetches=<k> L:<tok> w0:<tok>,... w1:... w2:... w3:...      (windows without clients are omitted; tokens sorted per window)
    tok = <status>:<C|I>:<=|<|!|->:<h|m>     status 200/404/5xx…, C complete / I cut short, body equal to (=) / proper prefix of (<) /
          different from (!) the body of the fetch named by the response's X-Fetch header (- for locally generated replies),
          h|m from Cache-Status;   `gone` for a client that closed;  `none` when the connection ended without a response head.
    An `!` is never canonicalised away: it is what the oracle looks for.
"""
import re, threading, time
from e2e import rig

CONF = ("cache_mem 64 MB\nmaximum_object_size_in_memory 2 MB\nquick_abort_min -1 KB\nmime_table /dev/null\nserver_persistent_connections off\n"
        "collapsed_forwarding %s\n")
TYPES = {"P": (200, [("Cache-Control", "max-age=3600")]), "S": (404, []), "N": (200, [("Cache-Control", "private")])}
SETTLE = 0.03


def parse_line(line):
    t = line.split(" ")
    if len(t) != 4 or t[0] not in ("on", "off"):
        return None
    m = re.fullmatch(r"([PSN])\.([lce])\.(\d{1,7})\.(ok|cut|err)", t[1])
    if not m:
        return None
    T, F, n, E = m.group(1), m.group(2), int(m.group(3)), m.group(4)
    if n > 2000000 or (E == "cut" and (F == "e" or n < 3)):
        return None
    m = re.fullmatch(r"L(-|[012])", t[2])
    if not m:
        return None
    ld = None if m.group(1) == "-" else int(m.group(1))
    fol = []
    if t[3] != ".":
        for x in t[3].split(","):
            m = re.fullmatch(r"([0123])([gnd])", x)
            if not m:
                return None
            fol.append((int(m.group(1)), m.group(2)))
    if len(fol) > 24:
        return None
    if E == "err" and ld is not None and ld > 0:
        return None
    return {"cf": t[0], "T": T, "F": F, "n": n, "E": E, "leader": ld, "fol": fol}


def body_of(sid, k, n):
    tag = b"[%s fetch %d]" % (sid.encode(), k)
    unit = tag + bytes(range(33, 127))
    return (unit * (n // len(unit) + 1))[:n]


class Held:
    def __init__(self, k):
        self.k = k
        self.go = threading.Event()
        self.done = threading.Event()


class Scenario:
    def __init__(self, h, sc, sid):
        self.h, self.sc, self.sid = h, sc, sid
        self.sq = h.squids[sc["cf"]]
        self.lock = threading.Lock()
        self.nfetch = 0
        self.held = []
        self.ended = {}          # fetch number -> it was answered completely
        self.ev = {name: threading.Event() for name in ("req0", "go1", "hdr", "go2", "p1", "go3", "end")}
        self.nbar = 0
        self.date = rig.date_now()       # one Date for every fetch of the scenario: "Date going back" (sawDateGoBack) is another property
        h.origin.on(sid, self.handler)

    def url(self):
        return self.h.origin.url(self.sid, "x")

    def message(self, k):
        sc = self.sc
        status, extra = TYPES[sc["T"]]
        b = body_of(self.sid, k, sc["n"])
        hd = [("Date", self.date), ("X-Fetch", str(k))] + extra
        if sc["F"] == "l":
            msg = rig.simple_response(status, b, hd, date=False)
            hl = msg.index(b"\r\n\r\n") + 4
            return msg[:hl], [msg[hl:hl + len(b) // 3], msg[hl + len(b) // 3:]], b""
        if sc["F"] == "c":
            head = rig.simple_response(status, b"", hd + [("Transfer-Encoding", "chunked")], cl=False, date=False)
            parts = [b[:len(b) // 3], b[len(b) // 3:]]
            enc = [(b"%x\r\n" % len(p) + p + b"\r\n") if p else b"" for p in parts]
            return head, enc, b"0\r\n\r\n"
        head = rig.simple_response(status, b"", hd + [("Connection", "close")], cl=False, date=False)
        return head, [b[:len(b) // 3], b[len(b) // 3:]], b""

    def handler(self, req):
        if re.search(r"/b\d+ ", req["first"]):
            return [("send", rig.simple_response(200, b"barrier", [("Cache-Control", "no-store")]))]
        with self.lock:
            k = self.nfetch
            self.nfetch += 1
            held = None
            if k > 0:
                held = Held(k)
                self.held.append(held)
        head, parts, last = self.message(k)
        closing = [("close",)] if self.sc["F"] == "e" else []
        if k > 0:
            held.go.wait(timeout=30 * rig.VERIF_SLOW)
            self.ended[k] = True
            return [("send", head + parts[0] + parts[1] + last), ("call", held.done.set)] + closing
        E = self.sc["E"]
        ev = self.ev
        acts = [("call", ev["req0"].set), ("waitev", ev["go1"])]
        if E == "err":
            return acts + [("call", ev["end"].set), ("close",)]
        acts += [("send", head), ("call", ev["hdr"].set), ("waitev", ev["go2"]), ("send", parts[0]), ("call", ev["p1"].set), ("waitev", ev["go3"])]
        if E == "cut":
            return acts + [("call", ev["end"].set), ("close",)]
        self.ended[0] = True
        return acts + [("send", parts[1] + last), ("call", ev["end"].set)] + closing

    # ------------------------------------------------------------------------------------------------ clients
    def launch(self, kind):
        c = rig.Client(self.sq.port, timeout=40)
        hostport = "127.0.0.1:%d" % self.h.origin.port
        lines = ["GET %s HTTP/1.1" % self.url(), "Host: " + hostport]
        if kind == "n":
            lines.append("Cache-Control: no-cache")
        lines.append("Connection: close")
        c.send(("\r\n".join(lines) + "\r\n\r\n").encode())
        rec = {"c": c, "kind": kind, "res": None, "gone": False}

        def reader():
            try:
                rec["res"] = c.response(timeout=40)
            except OSError:
                rec["res"] = None
        rec["th"] = threading.Thread(target=reader, daemon=True)
        rec["th"].start()
        return rec

    def close_client(self, rec):
        rec["gone"] = True             # whether its response had already arrived is not part of the observation
        try:
            rec["c"].s.shutdown(2)
        except OSError:
            pass
        rec["c"].close()

    def barrier(self):
        """a request for another URL through the same squid: when it is answered, squid has handled what reached it before"""
        self.nbar += 1
        rig.get(self.sq.port, self.h.origin.url(self.sid, "b%d" % self.nbar), timeout=30)
        time.sleep(SETTLE * rig.VERIF_SLOW)

    def release_held(self):
        for _ in range(60):
            self.barrier()
            with self.lock:
                pend = [f for f in self.held if not f.go.is_set()]
            if not pend:
                return
            for f in pend:
                f.go.set()
                f.done.wait(timeout=20 * rig.VERIF_SLOW)
                self.barrier()

    def window(self, w, recs):
        mine = []
        for i, (fw, kind) in enumerate(self.sc["fol"]):
            if fw == w:
                r = self.launch("g" if kind == "d" else kind)
                r["w"], r["d"] = w, kind == "d"
                recs.append(r)
                mine.append(r)
        self.barrier()
        closed = False
        for r in mine:
            if r["d"]:
                self.close_client(r)
                closed = True
        if self.sc["leader"] == w:
            self.close_client(recs[0])
            closed = True
        if closed:
            self.barrier()
        self.release_held()

    def token(self, rec):
        if rec["gone"]:
            return "gone"
        r = rec["res"]
        if r is None:
            return "none"
        st = r["status"]
        cs = rig.hget(r["hdrs"], "cache-status") or ""
        hm = "h" if ";hit" in cs else "m"
        xf = rig.hget(r["hdrs"], "x-fetch")
        if xf is None or not xf.isdigit():
            return "%s:%s:-:%s" % ("5xx" if st // 100 == 5 else st, "C" if r["complete"] else "I", hm)
        k = int(xf)
        b = body_of(self.sid, k, self.sc["n"])
        if r["body"] == b:
            m = "="
        elif len(r["body"]) < len(b) and b.startswith(r["body"]):
            m = "<"
        else:
            m = "!"
        if r["complete"] and m == "=" and not self.ended.get(k):
            m = "!"                  # presented as complete although the origin never finished that fetch
        return "%d:%s:%s:%s" % (st, "C" if r["complete"] else "I", m, hm)

    def run(self):
        sc, ev = self.sc, self.ev
        T = 30 * rig.VERIF_SLOW
        recs = [self.launch("g")]
        recs[0]["w"] = -1
        if not ev["req0"].wait(T):
            for r in recs:
                self.close_client(r)
            return "abort:first-fetch-did-not-reach-origin"
        self.window(0, recs)
        ev["go1"].set()
        if sc["E"] == "err":
            ev["end"].wait(T)
            time.sleep(SETTLE * rig.VERIF_SLOW)
            self.release_held()
            for w in (1, 2, 3):
                self.window(w, recs)
        else:
            ev["hdr"].wait(T)
            self.release_held()
            self.window(1, recs)
            ev["go2"].set()
            ev["p1"].wait(T)
            self.release_held()
            self.window(2, recs)
            ev["go3"].set()
            ev["end"].wait(T)
            time.sleep(SETTLE * rig.VERIF_SLOW)
            self.release_held()
            self.window(3, recs)
        for r in recs:
            if not r["gone"]:
                r["th"].join(timeout=T)
        self.release_held()
        for r in recs:
            r["c"].close()
        groups = {}
        for r in recs:
            groups.setdefault(r["w"], []).append(self.token(r))
        out = ["fetches=%d" % self.nfetch]
        for w in sorted(groups):
            out.append(("L" if w < 0 else "w%d" % w) + ":" + ",".join(sorted(groups[w])))
        return " ".join(out)


class Origin(rig.Origin):
    """rig.Origin with two more actions: ("call", fn) and ("waitev", threading.Event)"""

    @staticmethod
    def _peer_closed(c):
        import select, socket
        try:
            r, _, _ = select.select([c], [], [], 0)
            if not r:
                return False
            return c.recv(1, socket.MSG_PEEK) == b""
        except OSError:
            return True

    def _serve(self, c, connid):
        rest = b""
        try:
            while True:
                head, rest = rig.read_head(c, rest, timeout=60)
                if head is None:
                    break
                first, hdrs = rig.parse_head(head)
                m = re.search(r"/s([A-Za-z0-9_]+)/", first)
                sid = m.group(1) if m else "?"
                body, rest, complete, framing = rig.read_body(c, hdrs, rest)
                h = self.handlers.get(sid)
                actions = h({"sid": sid, "first": first, "hdrs": hdrs, "conn": connid}) if h else [("send", rig.simple_response(200, b"default"))]
                dead = False                 # squid closed the connection: the remaining notifications still happen, at once
                for a in actions:
                    if a[0] == "call":
                        a[1]()
                    elif dead:
                        continue
                    elif a[0] == "send":
                        if a[1]:
                            try:
                                c.sendall(a[1])
                            except OSError:
                                dead = True
                    elif a[0] == "waitev":
                        # wake up early when squid gives up on this connection (an aborted fetch)
                        deadline = time.time() + 40 * rig.VERIF_SLOW
                        while not a[1].wait(timeout=0.05) and time.time() < deadline:
                            if self._peer_closed(c):
                                dead = True
                                break
                    elif a[0] == "close":
                        c.close()
                        return
                if dead:
                    return
        except OSError:
            pass
        finally:
            try:
                c.close()
            except OSError:
                pass


class Harness:
    def __init__(self, stage):
        self.origin = Origin()
        self.squids = {}
        for cf in ("on", "off"):
            for attempt in range(4):
                try:
                    self.squids[cf] = rig.Squid(stage, conf=CONF % cf).start(wait=90)
                    break
                except RuntimeError:
                    if attempt == 3:
                        raise
        self.n = 0
        self.lock = threading.Lock()
        self.crashes = 0

    def one(self, line):
        sc = parse_line(line)
        if sc is None:
            return "bad-op"
        with self.lock:
            self.n += 1
            sid = "c%d" % self.n
        s = Scenario(self, sc, sid)
        try:
            return s.run()
        finally:
            self.origin.handlers.pop(sid, None)
            s.ev["go1"].set(); s.ev["go2"].set(); s.ev["go3"].set()
            for f in s.held:
                f.go.set()

    def run(self, lines):
        from concurrent.futures import ThreadPoolExecutor
        with ThreadPoolExecutor(max_workers=12) as ex:
            outs = list(ex.map(rig.guarded(self.one, list(self.squids.values())), lines))
        for s in self.squids.values():
            if not s.alive():
                self.crashes += 1
        return outs

    def close(self):
        for s in self.squids.values():
            s.stop()
        self.origin.close()
