"""C02 end-to-end harness: request bodies through the staged squid to a strict origin stub; observation = one canonical line.

Scenario line (space separated, 11 tokens):
  <method> <cfr> <seed> <pieces> <cut> <end> <hsplit> <segs> <stall> <expect> <obeh>
    method  POST | PUT
    cfr     cl:<n> | ch         what the client's request head declares: Content-Length: n / Transfer-Encoding: chunked
    seed    seed of the body byte generator (harness/c01.py body())
    pieces  the client's bytes after the head ("wire"): comma list of d<n> (next n generated body bytes) and x<hex> (literal framing
            bytes: chunk-size lines, CRLFs, extensions, trailers, garbage); '-' = nothing
    cut     number of wire bytes the client really sends before it ends the connection, '-' = all of them
    end     keep (wait for the response) | fin (close) | rst (reset)      -- fin/rst only make sense with a cut
    hsplit  offset inside the request head where the client splits its first write, '-' = none
    segs    cumulative wire offsets where the client splits its writes, '-' = one write (together with the head)
    stall   index of the segment after which the client pauses for 60 ms, '-' = none
    expect  0 | 1    1: the client sends Expect: 100-continue and waits for an interim response (at most 1.5 s) before the body
    obeh    ok (the origin reads the whole body, then answers 200 and closes)
Observation:
  o: fr=<cl:n|chunked|none|both> len=<n> fnv=<16 hex> end=<complete|eof|reset|timeout|badframe:why|none> n=<arrivals> | c: st=<status|none> got100=<0|1>
    (o: what the origin stub received for the scenario's request: framing as declared by Squid, the body octets it could decode,
     how the message ended; `none` = the request never arrived)
"""
import os, re, socket, threading, time
from concurrent.futures import ThreadPoolExecutor
from e2e import rig
from harness.c01 import body_cached, fnv, hx, parse_pieces, wire_of, ref_dechunk, recv_some, read_response

OKBODY = b"origin-ok"


def parse_line(line):
    t = line.split(" ")
    if len(t) != 11:
        return None
    try:
        sc = {"method": t[0], "cfr": t[1], "seed": int(t[2]), "pieces": parse_pieces(t[3]), "cut": None if t[4] == "-" else int(t[4]), "end": t[5],
              "hsplit": None if t[6] == "-" else int(t[6]), "segs": [] if t[7] == "-" else [int(x) for x in t[7].split(",")],
              "stall": None if t[8] == "-" else int(t[8]), "expect": int(t[9]), "obeh": t[10]}
    except ValueError:
        return None
    if sc["method"] not in ("POST", "PUT") or sc["pieces"] is None or sc["end"] not in ("keep", "fin", "rst") or sc["expect"] not in (0, 1) or sc["obeh"] != "ok":
        return None
    m = re.fullmatch(r"cl:(\d{1,12})|ch", sc["cfr"])
    if not m or not (0 <= sc["seed"] < 1 << 30):
        return None
    sc["cl"] = int(m.group(1)) if m.group(1) is not None else None
    if sum(n for k, n in sc["pieces"] if k == "d") > 8 << 20:
        return None
    sc["wire"] = wire_of(sc["pieces"], sc["seed"])
    if sc["cut"] is not None and sc["cut"] > len(sc["wire"]):
        return None
    if sc["cut"] is None and sc["end"] != "keep":
        return None
    sc["sent"] = sc["wire"] if sc["cut"] is None else sc["wire"][:sc["cut"]]
    return sc


def client_truth(sc):
    """what the client's message means, by the scenario alone: -> (whole?, body it defines (or the part that exists), kind)"""
    sent = sc["sent"]
    if sc["cl"] is not None:
        return len(sent) >= sc["cl"], sent[:sc["cl"]], "cl"
    v, b, used = ref_dechunk(sent)
    return v == "complete", b, "chunked:" + v


# ------------------------------------------------------------------------------------------------ origin (strict request reader)

class StrictOrigin:
    """accepts connections, reads one request strictly, records what arrived per scenario id, answers 200 and closes"""

    def __init__(self):
        self.sock = socket.socket()
        self.sock.setsockopt(socket.SOL_SOCKET, socket.SO_REUSEADDR, 1)
        self.sock.bind(("127.0.0.1", 0))
        self.sock.listen(256)
        self.port = self.sock.getsockname()[1]
        self.seen = {}
        self.timeouts = {}
        self.lock = threading.Lock()
        self.running = True
        threading.Thread(target=self._accept, daemon=True).start()

    def url(self, sid):
        return "http://127.0.0.1:%d/s%s/u" % (self.port, sid)

    def arrivals(self, sid):
        with self.lock:
            return list(self.seen.get(sid, []))

    def _accept(self):
        while self.running:
            try:
                c, _ = self.sock.accept()
            except OSError:
                return
            threading.Thread(target=self._serve, args=(c,), daemon=True).start()

    def _serve(self, c):
        rec = None
        try:
            T = 12 * rig.VERIF_SLOW
            deadline = time.time() + T
            buf = b""
            while b"\r\n\r\n" not in buf:
                d = recv_some(c, deadline)
                if not isinstance(d, bytes) or not d:
                    return
                buf += d
            i = buf.index(b"\r\n\r\n")
            head, buf = buf[:i + 4], buf[i + 4:]
            first, hdrs = rig.parse_head(head)
            m = re.search(r"/s([A-Za-z0-9_]+)/", first)
            sid = m.group(1) if m else "?"
            rec = {"first": first, "hdrs": hdrs, "fr": "none", "body": b"", "end": "complete", "expect": 0}
            with self.lock:
                self.seen.setdefault(sid, []).append(rec)
                T = self.timeouts.get(sid, T)
            deadline = time.time() + T
            te = rig.hall(hdrs, "transfer-encoding")
            cls = rig.hall(hdrs, "content-length")
            if "100-continue" in (rig.hget(hdrs, "expect") or "").lower():
                rec["expect"] = 1
                c.sendall(b"HTTP/1.1 100 Continue\r\n\r\n")
            if te and cls:
                rec["fr"], rec["end"] = "both", "badframe:cl-and-te"
            elif len(cls) > 1:
                rec["fr"], rec["end"] = "cl", "badframe:two-cl"
            elif te:
                rec["fr"] = "chunked"
                if [x.strip().lower() for x in te] != ["chunked"]:
                    rec["end"] = "badframe:te-value"
                else:
                    rec["end"] = self._read_chunked(c, buf, deadline, rec)
            elif cls:
                if not re.fullmatch(r"\d{1,18}", cls[0]):
                    rec["fr"], rec["end"] = "cl", "badframe:cl-value"
                else:
                    n = int(cls[0])
                    rec["fr"] = "cl:%d" % n
                    end = "complete"
                    while len(buf) < n:
                        d = recv_some(c, deadline)
                        if not isinstance(d, bytes):
                            end = d
                            break
                        if not d:
                            end = "eof"
                            break
                        buf += d
                    rec["body"] = buf[:n]
                    rec["end"] = end
                    if end == "complete" and len(buf) > n:
                        rec["end"] = "badframe:octets-after-body"
            if rec["end"] == "complete":
                c.sendall(rig.simple_response(200, OKBODY, [("Connection", "close"), ("Cache-Control", "no-store")]))
        except OSError:
            if rec is not None and rec["end"] == "complete":
                rec["end"] = "reset"
        finally:
            if rec is not None:
                rec["done"] = True
            try:
                c.close()
            except OSError:
                pass

    @staticmethod
    def _read_chunked(c, buf, deadline, rec):
        """strict: chunk-size = 1*HEXDIG, optional extensions are not expected from squid, CRLF line ends, no trailers expected"""
        body = []
        try:
            while True:
                while b"\r\n" not in buf:
                    if len(buf) > 40:
                        return "badframe:chunk-line-long"
                    d = recv_some(c, deadline)
                    if not isinstance(d, bytes):
                        return d
                    if not d:
                        return "eof"
                    buf += d
                line, buf = buf.split(b"\r\n", 1)
                if not re.fullmatch(rb"[0-9A-Fa-f]{1,16}", line):
                    return "badframe:chunk-size-line"
                n = int(line, 16)
                if n == 0:
                    while len(buf) < 2:
                        d = recv_some(c, deadline)
                        if not isinstance(d, bytes):
                            return d
                        if not d:
                            return "eof"
                        buf += d
                    if buf[:2] != b"\r\n":
                        return "badframe:after-last-chunk"
                    if len(buf) > 2:
                        return "badframe:octets-after-body"
                    return "complete"
                while len(buf) < n + 2:
                    d = recv_some(c, deadline)
                    if not isinstance(d, bytes) or not d:
                        body.append(buf[:n])
                        return d if not isinstance(d, bytes) else "eof"
                    buf += d
                body.append(buf[:n])
                if buf[n:n + 2] != b"\r\n":
                    return "badframe:after-chunk-data"
                buf = buf[n + 2:]
        finally:
            rec["body"] = b"".join(body)

    def close(self):
        self.running = False
        try:
            self.sock.close()
        except OSError:
            pass


# ------------------------------------------------------------------------------------------------ harness

class Harness:
    def __init__(self, stage, workers=8):
        self.stage = stage
        self.origin = StrictOrigin()
        self.workers = workers
        self.squid = rig.Squid(stage, conf="cache deny all\n")
        self._start(self.squid)
        self.sq = {"n": self.squid}
        self.n = 0
        self.lock = threading.Lock()
        self.crashes = 0

    def _start(self, s):
        for attempt in range(4):
            try:
                s.start(wait=40 * (attempt + 1))
                break
            except RuntimeError:
                s.stop(kill=True)
                p = os.path.join(s.dir, "cache.log")
                if os.path.exists(p):
                    os.truncate(p, 0)
                s.port = rig.free_port()
                txt = open(s.conf_path).read()
                txt = re.sub(r"http_port 127\.0\.0\.1:\d+", "http_port 127.0.0.1:%d" % s.port, txt)
                open(s.conf_path, "w").write(txt)
                if attempt == 3:
                    raise
        for _ in range(400):
            try:
                socket.create_connection(("127.0.0.1", s.port), timeout=1).close()
                return
            except OSError:
                time.sleep(0.02 * rig.VERIF_SLOW)
        raise RuntimeError("squid not accepting: " + s.cache_log()[-800:])

    def new_sid(self):
        with self.lock:
            self.n += 1
            return "q%d" % self.n

    def one(self, line):
        sc = parse_line(line)
        if sc is None:
            return "bad-op"
        sid = self.new_sid()
        T = (8 + len(sc["wire"]) / 400000.0) * rig.VERIF_SLOW
        with self.origin.lock:
            self.origin.timeouts[sid] = T
        head = "%s %s HTTP/1.1\r\nHost: 127.0.0.1:%d\r\n" % (sc["method"], self.origin.url(sid), self.origin.port)
        head += "Transfer-Encoding: chunked\r\n" if sc["cl"] is None else "Content-Length: %d\r\n" % sc["cl"]
        if sc["expect"]:
            head += "Expect: 100-continue\r\n"
        head = (head + "\r\n").encode()
        sent = sc["sent"]
        c = socket.create_connection(("127.0.0.1", self.squid.port), timeout=T)
        c.setsockopt(socket.IPPROTO_TCP, socket.TCP_NODELAY, 1)
        st, got100 = "none", 0
        rest = b""
        try:
            first = head
            if sc["hsplit"] is not None:
                k = max(1, min(sc["hsplit"], len(head) - 1))
                c.sendall(head[:k])
                time.sleep(0.002)
                first = head[k:]
            if sc["expect"]:
                c.sendall(first)
                first = b""
                r = read_response(c, b"", False, 1.5 * rig.VERIF_SLOW)
                if r["end"] != "nohead":
                    if r["status"] == 100:
                        got100 = 1
                        rest = r["rest"]
                    else:
                        st = str(r["status"])      # a final response instead of 100: the body is not sent
                        sent = None
            if sent is not None:
                pos, nseg = 0, 0
                for cpos in sorted(set(sc["segs"])) + [len(sent)]:
                    cpos = min(cpos, len(sent))
                    if cpos > pos or (first and cpos == len(sent)):
                        c.sendall(first + sent[pos:cpos])
                        first = b""
                        pos = cpos
                        nseg += 1
                        if pos < len(sent):
                            time.sleep(0.06 if sc["stall"] == nseg else 0.001)
                if first:
                    c.sendall(first)
                if sc["end"] != "keep":
                    # abort only after the request has reached the origin (hand-shake instead of a sleep), so that the upstream
                    # message is under way when the client goes away; give up after a second (squid may never forward it)
                    t_end = time.time() + 1.0 * rig.VERIF_SLOW
                    while time.time() < t_end and not self.origin.arrivals(sid):
                        time.sleep(0.005)
                if sc["end"] == "rst":
                    c.setsockopt(socket.SOL_SOCKET, socket.SO_LINGER, b"\x01\x00\x00\x00\x00\x00\x00\x00")
                    c.close()
                elif sc["end"] == "fin":
                    c.close()
                else:
                    while True:
                        r = read_response(c, rest, False, T)
                        rest = r.get("rest", b"")
                        if r["end"] == "complete" and r["status"] // 100 == 1:
                            got100 = 1
                            continue
                        break
                    st = str(r["status"]) if r["end"] != "nohead" else "none"
                    if r["end"] not in ("complete", "nohead"):
                        st += ":" + r["end"]
        except OSError:
            st = "none"         # the connection was reset under the client's writes: no response
        finally:
            try:
                c.close()
            except OSError:
                pass
        # the origin's view: wait until its reader is done with the request (or it is clear that none arrived)
        deadline = time.time() + T + 3
        arr = []
        while time.time() < deadline:
            arr = self.origin.arrivals(sid)
            if arr and all(a.get("done") for a in arr):
                break
            if not arr:
                time.sleep(0.15 * rig.VERIF_SLOW)      # the client is done and nothing has arrived: give a late request a moment
                arr = self.origin.arrivals(sid)
                if not arr:
                    break
            time.sleep(0.01)
        if not self.squid.alive():
            return "abort:squid-died"
        if arr:
            a = arr[0]
            o = "o: fr=%s len=%d fnv=%s end=%s n=%d" % (a["fr"], len(a["body"]), fnv(a["body"]), a["end"] if a.get("done") else "timeout", len(arr))
        else:
            o = "o: fr=none len=0 fnv=%s end=none n=0" % fnv(b"")
        return "%s | c: st=%s got100=%d" % (o, st, got100)

    def run(self, lines):
        if not self.squid.alive():
            self._start(self.squid)
        with ThreadPoolExecutor(max_workers=self.workers) as ex:
            return list(ex.map(rig.guarded(self.one, [self.squid]), lines))

    def close(self):
        self.squid.stop()
        self.origin.close()
