// C30 harness: the real AnyP::Uri::parse / parseHost / parsePort / authority / absolute / absolutePath (src/anyp/Uri.cc),
// AnyP::UriScheme (src/anyp/UriScheme.cc) and Ip::Address::fromHost/toHostStr (src/ip/Address.cc) from the staged tree, built with
// ASan/UBSan.  src/anyp/Uri.cc is pulled into this translation unit so that (a) its file-static tables can be dumped for the
// translator and (b) its debugs() lines can be captured: they tell *which* check rejected a URI.
//
//   P <method> <cfg> <appenddomain-hex|-> <url-hex>
//        cfg = <check_hostnames 0|1><allow_underscore 0|1><uri_whitespace 0..4>
//     -> "reject:<class>"
//      | "ok proto=<NAME> img=<hex> ui=<hex> host=<hex> num=<0|1> port=<n|none> path=<hex> canon=<hex> re=<R>"
//        canon = authority(true) for CONNECT, absolute() otherwise (a fresh parse of the same input is used so that
//        cached strings cannot leak); R = "reject:<class>" or "proto=..,img=..,host=..,num=..,port=..,path=.." of
//        a fresh AnyP::Uri parsing canon with the same method and configuration
//   I <hex>   -> "ip=<hex of toHostStr>|any|none"     Ip::Address::fromHost on the bytes (NUL-free), as AnyP::Uri::host() uses it
//   --dump    -> tables and constants for translate/uri_parse.py
#include "squid.h"
#include "debug/Stream.h"

#include <sstream>
#include <string>
#include <vector>

static std::vector<std::string> c30Notes;
static void c30Note(int section, int, const std::string &s) { if (section == 23) c30Notes.push_back(s); }
#undef debugs
#define debugs(SECTION, LEVEL, CONTENT) \
    do { std::ostringstream c30os_; c30os_ << CONTENT; c30Note((SECTION), (LEVEL), c30os_.str()); } while (0)

#define private public
#define protected public
#include "anyp/Uri.h"
#undef private
#undef protected
#include "anyp/Uri.cc"

#include "anyp/ProtocolType.h"
#include "base/CharacterSet.h"
#include "http/RequestMethod.h"
#include "ip/Address.h"
#include "mem/forward.h"
#include "sbuf/SBuf.h"

#include <cstdio>
#include <cstring>
#include <iostream>

static bool unhex(const std::string &h, std::string &r) {
    r.clear();
    if (h == "-") return true;
    if (h.size() % 2) return false;
    auto val = [](char c) -> int {
        if (c >= '0' && c <= '9') return c - '0';
        if (c >= 'a' && c <= 'f') return c - 'a' + 10;
        if (c >= 'A' && c <= 'F') return c - 'A' + 10;
        return -1;
    };
    for (size_t i = 0; i + 1 < h.size(); i += 2) {
        const int a = val(h[i]), b = val(h[i + 1]);
        if (a < 0 || b < 0) return false;
        r.push_back(static_cast<char>(a * 16 + b));
    }
    return true;
}
static std::string hex(const char *p, size_t n) {
    if (!n) return "-";
    static const char *d = "0123456789abcdef";
    std::string r;
    for (size_t i = 0; i < n; ++i) { const unsigned char c = p[i]; r.push_back(d[c >> 4]); r.push_back(d[c & 15]); }
    return r;
}
static std::string hex(const std::string &s) { return hex(s.data(), s.size()); }
static std::string hex(const SBuf &s) { return hex(s.rawContent(), s.length()); }

/// which check of AnyP::Uri::parse() said no, from the debugs() lines it wrote
static std::string rejectClass() {
    static const struct { const char *needle; const char *cls; } map[] = {
        {"URL too large", "too-large"},
        {"invalid URI scheme", "scheme"},
        {"NID too long or missing", "urn-delimiter"},
        {"NID not found", "urn-nid"},
        {"NID too short", "urn-short"},
        {"NID prefix", "urn-prefix"},
        {"NID suffix", "urn-suffix"},
        {"Missing hostname", "no-host"},
        {"Illegal character in hostname", "host-chars"},
        {"URL domain too large", "append-domain"},
        {"Illegal hostname", "host-dots"},
        {"Invalid port", "port-range"},
        {"missing required :port", "connect-no-port"},
        {"garbage after host:port", "connect-garbage"},
        {"malformed or unsupported bracketed", "host-bracket-chars"},
        {"missing a closing bracket", "host-bracket-open"},
        {"missing a colon", "host-bracket-nocolon"},
        {"malformed bracketed IPv6", "host-bracket-ip"},
        {"malformed IPv4 address or host name", "host-empty"},
        {"zero or zero-prefixed port", "port-zero"},
        {"malformed or missing port", "port-syntax"},
        {"huge port", "port-huge"},
        {"garbage after port", "port-garbage"},
        {"rawHost.length()", "host-too-long"},
    };
    bool sawWhitespace = false;
    for (const auto &n : c30Notes) {
        for (const auto &m : map)
            if (n.find(m.needle) != std::string::npos)
                return m.cls;
        if (n.find("URI has whitespace") != std::string::npos)
            sawWhitespace = true;
        else if (n.find("error: ") == 0)
            return "exception"; // an exception this table does not know (a changed tree)
    }
    if (sawWhitespace)
        return "whitespace-denied";
    return "no-double-slash"; // the only silent `return false` that can be reached
}

struct Cfg { int check = 0, underscore = 0, ws = 0; std::string appendDomain; };
static std::string appendDomainStorage;

static void applyCfg(const Cfg &c) {
    Config.onoff.check_hostnames = c.check;
    Config.onoff.allow_underscore = c.underscore;
    Config.uri_whitespace = c.ws;
    Config.onoff.relaxed_header_parser = 0;
    appendDomainStorage = c.appendDomain;
    if (c.appendDomain.empty()) {
        Config.appendDomain = nullptr;
        Config.appendDomainLen = 0;
    } else {
        Config.appendDomain = const_cast<char *>(appendDomainStorage.c_str());
        Config.appendDomainLen = appendDomainStorage.size();
    }
}

static std::string fields(const AnyP::Uri &u, const char *sep, bool withUserInfo) {
    std::string r;
    const auto scheme = u.getScheme();
    r += "proto="; r += AnyP::ProtocolType_str[static_cast<AnyP::ProtocolType>(scheme)];
    r += sep; r += "img=" + hex(scheme.image());
    if (withUserInfo) { r += sep; r += "ui=" + hex(u.userInfo()); }
    r += sep; r += "host=" + hex(std::string(u.host()));
    r += sep; r += std::string("num=") + (u.hostIsNumeric() ? "1" : "0");
    r += sep; r += "port=" + (u.port() ? std::to_string(*u.port()) : std::string("none"));
    r += sep; r += "path=" + hex(u.path());
    return r;
}

static bool parseFresh(AnyP::Uri &u, const HttpRequestMethod &m, const std::string &bytes) {
    c30Notes.clear();
    // exact-size heap storage so that ASan sees any over-read of the input
    char *raw = new char[bytes.size() ? bytes.size() : 1];
    memcpy(raw, bytes.data(), bytes.size());
    SBuf in;
    in.append(raw, bytes.size());
    delete[] raw;
    return u.parse(m, in);
}

static std::string doParse(const std::string &methodStr, const Cfg &cfg, const std::string &url) {
    applyCfg(cfg);
    const HttpRequestMethod method{SBuf(methodStr)};
    AnyP::Uri u;
    if (!parseFresh(u, method, url))
        return "reject:" + rejectClass();
    std::string out = "ok " + fields(u, " ", true);
    AnyP::Uri again; // the canonical form is computed on an object that was never asked anything else
    (void)parseFresh(again, method, url);
    const SBuf canon = (method == Http::METHOD_CONNECT) ? again.authority(true) : again.absolute();
    out += " canon=" + hex(canon);
    AnyP::Uri re;
    if (!parseFresh(re, method, std::string(canon.rawContent(), canon.length())))
        out += " re=reject:" + rejectClass();
    else
        out += " re=" + fields(re, ",", false);
    return out;
}

static std::string doIp(const std::string &bytes) {
    if (bytes.find('\0') != std::string::npos)
        return "reject:nul";
    Ip::Address a;
    if (!a.fromHost(bytes.c_str()))
        return "none";
    if (a.isAnyAddr())
        return "any";
    char buf[MAX_IPSTRLEN];
    const auto n = a.toHostStr(buf, sizeof(buf));
    return "ip=" + hex(buf, n);
}

static void dumpSetByProbe(const char *name, bool (*member)(unsigned char)) {
    printf("set %s ", name);
    for (int i = 0; i < 256; ++i) putchar(member(static_cast<unsigned char>(i)) ? '1' : '0');
    putchar('\n');
}

static bool inSchemeChars(unsigned char c) {
    // uriParseScheme() keeps its set in a function-local static: probe it with "a<c>:" -> image "a<c>"
    const char raw[3] = {'a', static_cast<char>(c), ':'};
    Parser::Tokenizer tok(SBuf(raw, 3));
    try {
        const auto s = uriParseScheme(tok);
        return tok.atEnd();
    } catch (...) {
        return false;
    }
}
static bool inSchemeFirst(unsigned char c) {
    const char raw[2] = {static_cast<char>(c), ':'};
    Parser::Tokenizer tok(SBuf(raw, 2));
    try {
        (void)uriParseScheme(tok);
        return tok.atEnd();
    } catch (...) {
        return false;
    }
}
static bool inIpv6Chars(unsigned char c) {
    // parseHost() keeps IPv6chars in a function-local static: "[<c>" fails with "malformed or unsupported" iff c is outside
    const char raw[2] = {'[', static_cast<char>(c)};
    Parser::Tokenizer tok(SBuf(raw, 2));
    AnyP::Uri u;
    try {
        (void)u.parseHost(tok);
    } catch (const std::exception &e) {
        return !strstr(e.what(), "malformed or unsupported");
    }
    return true;
}
static bool inRegNameChars(unsigned char c) {
    const char raw[1] = {static_cast<char>(c)};
    Parser::Tokenizer tok(SBuf(raw, 1));
    AnyP::Uri u;
    try {
        return u.parseHost(tok).length() == 1;
    } catch (...) {
        return false;
    }
}
static bool inNidChars(unsigned char c) {
    // parseUrn() keeps nidChars/alphanum in function-local statics: "a<c>a:" is a valid NID iff c is in nidChars
    const char raw[4] = {'a', static_cast<char>(c), 'a', ':'};
    Parser::Tokenizer tok(SBuf(raw, 4));
    AnyP::Uri u;
    try {
        u.parseUrn(tok);
        return true;
    } catch (...) {
        return false;
    }
}
static bool inUrnAlnum(unsigned char c) {
    const char raw[3] = {static_cast<char>(c), 'a', ':'};
    Parser::Tokenizer tok(SBuf(raw, 3));
    AnyP::Uri u;
    try {
        u.parseUrn(tok);
        return true;
    } catch (...) {
        return false;
    }
}
static bool inHostnameChars(unsigned char c) { return c && strchr(valid_hostname_chars, c); }
static bool inHostnameCharsU(unsigned char c) { return c && strchr(valid_hostname_chars_u, c); }
static bool inPathChars(unsigned char c) { return PathChars()[c]; }
static bool inUserInfoChars(unsigned char c) { return UserInfoChars()[c]; }
static bool isXSpace(unsigned char c) { return xisspace(c); }
static bool isWSpace(unsigned char c) { return c && strchr(w_space, c); }
static bool lowerChanges(unsigned char c) { return static_cast<unsigned char>(xtolower(c)) != c; }

static void dump() {
    dumpSetByProbe("SCHEME", inSchemeChars);
    dumpSetByProbe("SCHEME_FIRST", inSchemeFirst);
    dumpSetByProbe("IPV6CHARS", inIpv6Chars);
    dumpSetByProbe("REGNAME", inRegNameChars);
    dumpSetByProbe("NIDCHARS", inNidChars);
    dumpSetByProbe("ALNUM", inUrnAlnum);
    dumpSetByProbe("HOSTNAME", inHostnameChars);
    dumpSetByProbe("HOSTNAME_U", inHostnameCharsU);
    dumpSetByProbe("PATHCHARS", inPathChars);
    dumpSetByProbe("USERINFO", inUserInfoChars);
    dumpSetByProbe("XSPACE", isXSpace);
    dumpSetByProbe("WSPACE", isWSpace);
    dumpSetByProbe("UPPER", lowerChanges);
    printf("lower ");
    for (int i = 0; i < 256; ++i) printf("%02x", static_cast<unsigned char>(xtolower(i)));
    putchar('\n');
    printf("const MAX_URL %d\n", MAX_URL);
    printf("const SQUIDHOSTNAMELEN %d\n", SQUIDHOSTNAMELEN);
    printf("const INT_BITS %d\n", static_cast<int>(sizeof(int) * 8));
    printf("const LONG_BITS %d\n", static_cast<int>(sizeof(long) * 8));
    // scheme registry: every protocol type, its lower-case image and default port
    AnyP::UriScheme::Init();
    for (int i = AnyP::PROTO_NONE; i <= AnyP::PROTO_MAX; ++i) {
        const auto t = static_cast<AnyP::ProtocolType>(i);
        std::string port = "none";
        std::string img = "-";
        if (i < AnyP::PROTO_MAX) {
            const AnyP::UriScheme s(t, nullptr);
            if (const auto p = s.defaultPort()) port = std::to_string(*p);
            img = hex(s.image());
        }
        const SBuf name(AnyP::ProtocolType_str[i]);
        const bool findable = i > AnyP::PROTO_NONE && i < AnyP::PROTO_UNKNOWN;
        printf("proto %d %s %s %s %d\n", i, AnyP::ProtocolType_str[i], img.c_str(), port.c_str(), findable ? 1 : 0);
    }
    printf("const PROTO_NONE %d\nconst PROTO_URN %d\nconst PROTO_UNKNOWN %d\nconst PROTO_HTTP %d\nconst PROTO_HTTPS %d\nconst PROTO_FTP %d\n",
           AnyP::PROTO_NONE, AnyP::PROTO_URN, AnyP::PROTO_UNKNOWN, AnyP::PROTO_HTTP, AnyP::PROTO_HTTPS, AnyP::PROTO_FTP);
}

int main(int argc, char **argv) {
    Mem::Init();
    if (argc > 1 && !strcmp(argv[1], "--dump")) {
        dump();
        return 0;
    }
    std::string line;
    while (std::getline(std::cin, line)) {
        std::vector<std::string> w;
        {
            size_t p = 0;
            while (p < line.size()) {
                while (p < line.size() && line[p] == ' ') ++p;
                size_t q = p;
                while (q < line.size() && line[q] != ' ') ++q;
                if (q > p) w.push_back(line.substr(p, q - p));
                p = q;
            }
        }
        std::string out = "bad-line";
        std::string a, b;
        if (w.size() == 5 && w[0] == "P" && w[2].size() == 3 && unhex(w[3], a) && unhex(w[4], b)
                && a.find('\0') == std::string::npos) {
            Cfg c;
            c.check = w[2][0] == '1';
            c.underscore = w[2][1] == '1';
            c.ws = w[2][2] - '0';
            c.appendDomain = a;
            if (c.ws >= 0 && c.ws <= 4)
                out = doParse(w[1], c, b);
        } else if (w.size() == 2 && w[0] == "I" && unhex(w[1], a)) {
            out = doIp(a);
        }
        puts(out.c_str());
        fflush(stdout);
    }
    return 0;
}
