"""C19 end-to-end harness: several SMP workers (own listening port each) share a memory cache and a rock cache_dir.

Scenario line (space separated):
  <inst> <nkeys> <ops>
    inst    m   workers 3, shared memory cache only (objects up to 512 KB)
            r   workers 2 + disker, shared memory cache for objects up to 32 KB, rock cache_dir (slot-size 4096) for everything
    ops     comma separated, run one after the other except where noted:
      U<w>.<k>.<n>.<m>.<j>   the origin gets a new version of key k (n body bytes); a client reloads it through worker w
                             (Cache-Control: no-cache).  m = how the origin sends it: 0 at once; 1 header + first third, pause, rest;
                             2 like 1 but the connection is closed after the first third (Content-Length announced: truncated);
                             3 chunked, closed before the last-chunk (truncated).  j = number of FOLLOWING operations that are
                             started while the origin pauses (m >= 1); they must not be paced themselves
      R<w>.<k>               plain GET of key k through worker w
      P<w>.<k>               PURGE of key k through worker w
Observation: one token per operation, comma separated
      U=<status>:<ver>:<C|I>[!what]          R=<status>:<ver>:<C|I>:<hit|miss>[!what]          P=<status>
   ver = the version the response names (X-Ver), C complete / I cut short, hit|miss from Cache-Status;
   `!what` = body bytes or headers differ from that origin version (complete: must be equal; cut short: must be a prefix).
"""
import re, threading, time, socket
from e2e import rig

INSTANCES = ("m", "r")
NWORKERS = {"m": 3, "r": 2}
MEMLIMIT = {"m": 512 * 1024, "r": 32 * 1024}
COMMON = ("acl PURGE method PURGE\nhttp_access allow PURGE\nmime_table /dev/null\nmemory_cache_shared on\nquick_abort_min -1 KB\n"
          "server_persistent_connections off\ncollapsed_forwarding off\n")
CONF = {
    "m": "cache_mem 256 MB\nmaximum_object_size_in_memory 512 KB\nmaximum_object_size 512 KB\n",
    "r": "cache_mem 64 MB\nmaximum_object_size_in_memory 32 KB\nmaximum_object_size 600 KB\n"
         "cache_dir rock {dir}/rock 256 max-size=600000 slot-size=4096\n",
}
SETTLE = 0.03


def parse_line(line):
    t = line.split(" ")
    if len(t) != 3 or t[0] not in INSTANCES or not t[1].isdigit():
        return None
    nk = int(t[1])
    nw = NWORKERS[t[0]]
    if not (1 <= nk <= 4):
        return None
    ops = []
    for o in t[2].split(","):
        m = re.fullmatch(r"U(\d)\.(\d)\.(\d{1,6})\.([0-3])\.([0-3])", o)
        if m:
            w, k, n, mode, j = (int(x) for x in m.groups())
            if not (1 <= w <= nw) or k >= nk or n > 400000 or (mode == 0 and j) or (mode >= 2 and n < 3):
                return None
            ops.append(("U", w, k, n, mode, j))
            continue
        m = re.fullmatch(r"([RP])(\d)\.(\d)", o)
        if m:
            w, k = int(m.group(2)), int(m.group(3))
            if not (1 <= w <= nw) or k >= nk:
                return None
            ops.append((m.group(1), w, k))
            continue
        return None
    if not ops or len(ops) > 24:
        return None
    # operations inside a pause window are not paced themselves and the window stays inside the line
    i = 0
    while i < len(ops):
        op = ops[i]
        if op[0] == "U" and op[4] >= 1 and op[5] > 0:
            j = op[5]
            if i + j >= len(ops):
                return None
            for x in ops[i + 1:i + 1 + j]:
                if x[0] == "U" and x[4] != 0:
                    return None
            i += j + 1
        else:
            i += 1
    return {"inst": t[0], "nkeys": nk, "ops": ops}


def body_of(sid, k, ver, n):
    tag = b"<%s key %d version %d>" % (sid.encode(), k, ver)
    unit = tag + bytes(range(48, 123))
    return (unit * (n // len(unit) + 1))[:n]


class Scenario:
    def __init__(self, h, sc, sid):
        self.h, self.sc, self.sid = h, sc, sid
        self.inst = h.inst[sc["inst"]]
        self.cur = {k: 1 for k in range(sc["nkeys"])}                    # the origin starts with version 1 of every key
        self.size = {(k, 1): 100 + 7 * k for k in range(sc["nkeys"])}     # (k, ver) -> n
        self.plan = {}          # (k, ver) -> (mode, held, go)
        self.lock = threading.Lock()
        self.date = rig.date_now()
        self.nbar = 0
        h.origin.on(sid, self.handler)

    def url(self, k):
        return self.h.origin.url(self.sid, "k%d" % k)

    def headers(self, k, ver):
        return [("Date", self.date), ("Cache-Control", "max-age=86400"), ("ETag", '"%s-%d-%d"' % (self.sid, k, ver)), ("X-Ver", "k%dv%d" % (k, ver))]

    def handler(self, req):
        if re.search(r"/b\d+ ", req["first"]):
            return [("send", rig.simple_response(200, b"barrier", [("Cache-Control", "no-store")]))]
        m = re.search(r"/k(\d+) ", req["first"])
        k = int(m.group(1)) if m else 0
        with self.lock:
            ver = self.cur.get(k, 1)
            mode, held, go = self.plan.pop((k, ver), (0, None, None))
        b = body_of(self.sid, k, ver, self.size[(k, ver)])
        hd = self.headers(k, ver)
        if mode == 0:
            return [("send", rig.simple_response(200, b, hd, date=False))]
        cut = max(1, len(b) // 3)
        if mode in (1, 2):
            msg = rig.simple_response(200, b, hd, date=False)
            hl = msg.index(b"\r\n\r\n") + 4
            if mode == 1 and cut >= len(b):
                return [("send", msg), ("call", held.set)]
            acts = [("send", msg[:hl + cut]), ("call", held.set), ("waitev", go)]
            return acts + ([("send", msg[hl + cut:])] if mode == 1 else [("close",)])
        head = rig.simple_response(200, b"", hd + [("Transfer-Encoding", "chunked")], cl=False, date=False)
        first = b[:cut]
        return [("send", head + b"%x\r\n" % len(first) + first + b"\r\n"), ("call", held.set), ("waitev", go), ("close",)]

    def check(self, r, k):
        xv = rig.hget(r["hdrs"], "x-ver") or ""
        m = re.fullmatch(r"k(\d+)v(\d+)", xv)
        if not m or int(m.group(1)) != k or (k, int(m.group(2))) not in self.size:
            return "?", "!unknown-version"
        ver = int(m.group(2))
        b = body_of(self.sid, k, ver, self.size[(k, ver)])
        bad = ""
        if r["complete"]:
            if r["body"] != b:
                bad += "!body(%d/%d)" % (len(r["body"]), len(b))
        elif r["body"] != b[:len(r["body"])]:
            bad += "!prefix(%d)" % len(r["body"])
        for n, v in self.headers(k, ver)[1:]:
            if v not in rig.hall(r["hdrs"], n.lower()):
                bad += "!hdr-" + n
        return str(ver), bad

    def barrier(self, w=None):
        for x in ([w] if w else range(1, self.inst.nworkers + 1)):
            self.nbar += 1
            rig.get(self.inst.port(x), self.h.origin.url(self.sid, "b%d" % self.nbar), timeout=30)
        time.sleep(SETTLE * rig.VERIF_SLOW)

    # ------------------------------------------------------------------------------------------------ operations
    def request(self, w, k, headers=(), method="GET", started=None):
        """one request on its own connection; `started` is set when the response head is there (or the request failed)"""
        try:
            c = rig.Client(self.inst.port(w), timeout=40)
            lines = ["%s %s HTTP/1.1" % (method, self.url(k)), "Host: 127.0.0.1:%d" % self.h.origin.port]
            lines += ["%s: %s" % hv for hv in headers] + ["Connection: close"]
            c.send(("\r\n".join(lines) + "\r\n\r\n").encode())
            head, c.rest = rig.read_head(c.s, b"", 40)
        finally:
            if started:
                started.set()
        if head is None:
            c.close()
            return None
        first, hdrs = rig.parse_head(head)
        m = re.match(r"HTTP/\d\.\d (\d{3})", first)
        status = int(m.group(1)) if m else 0
        b, rest, complete, framing = rig.read_body(c.s, hdrs, c.rest, 40, is_response=True, status=status)
        c.close()
        return {"status": status, "hdrs": hdrs, "body": b, "complete": complete}

    def op_update(self, op, started, held, go):
        _, w, k, n, mode, j = op
        with self.lock:
            self.cur[k] += 1
            ver = self.cur[k]
            self.size[(k, ver)] = n
            if mode:
                self.plan[(k, ver)] = (mode, held, go)
        r = self.request(w, k, headers=[("Cache-Control", "no-cache")], started=started)
        if held:
            held.set()
        if r is None:
            return "U=none"
        v, bad = self.check(r, k) if r["status"] == 200 else ("-", "")
        return "U=%d:%s:%s%s" % (r["status"], v, "C" if r["complete"] else "I", bad)

    def op_read(self, op, started):
        _, w, k = op
        r = self.request(w, k, started=started)
        if r is None:
            return "R=none"
        v, bad = self.check(r, k) if r["status"] == 200 else ("-", "")
        cs = rig.hget(r["hdrs"], "cache-status") or ""
        return "R=%d:%s:%s:%s%s" % (r["status"], v, "C" if r["complete"] else "I", "hit" if ";hit" in cs else "miss", bad)

    def op_purge(self, op, started):
        _, w, k = op
        r = self.request(w, k, method="PURGE", started=started)
        return "P=%s" % (r["status"] if r else "none")

    def run(self):
        ops = self.sc["ops"]
        n = len(ops)
        results = [None] * n
        T = 30 * rig.VERIF_SLOW

        def runner(i, started, held=None, go=None):
            op = ops[i]
            try:
                if op[0] == "U":
                    results[i] = self.op_update(op, started, held, go)
                elif op[0] == "R":
                    results[i] = self.op_read(op, started)
                else:
                    results[i] = self.op_purge(op, started)
            except (OSError, RuntimeError) as e:
                results[i] = "%s=io-error:%s" % (op[0], type(e).__name__)
            finally:
                started.set()
                if held:
                    held.set()

        i = 0
        while i < n:
            op = ops[i]
            if op[0] == "U" and op[4] >= 1 and op[5] > 0:
                held, go = threading.Event(), threading.Event()
                th0 = threading.Thread(target=runner, args=(i, threading.Event(), held, go), daemon=True)
                th0.start()
                held.wait(T)                      # the origin sent the first part (or the reload ended)
                self.barrier()                    # ... and every worker has handled what reached it
                ths = []
                for x in range(i + 1, i + 1 + op[5]):
                    st = threading.Event()
                    th = threading.Thread(target=runner, args=(x, st), daemon=True)
                    th.start()
                    ths.append(th)
                    st.wait(3.0 * rig.VERIF_SLOW)   # it has its response head, or is waiting for the paused fetch
                    self.barrier()
                go.set()
                for th in [th0] + ths:
                    th.join(T)
                self.barrier()
                i += op[5] + 1
            else:
                go = threading.Event()
                go.set()
                runner(i, threading.Event(), threading.Event(), go)
                if op[0] == "U" and self.sc["inst"] == "r" and op[3] > MEMLIMIT["r"]:
                    time.sleep(0.15 * rig.VERIF_SLOW)      # the disker finishes the rock write
                i += 1
        return ",".join(x or "%s=timeout" % ops[j][0] for j, x in enumerate(results))


class Instance:
    """one multi-worker squid; worker w listens on its own port"""

    def __init__(self, stage, name):
        self.name = name
        self.nworkers = NWORKERS[name]
        self.ports = {w: rig.free_port() for w in range(1, self.nworkers + 1)}
        conf = "workers %d\n" % self.nworkers
        for w, p in self.ports.items():
            conf += "if ${process_number} = %d\nhttp_port 127.0.0.1:%d\nendif\n" % (w, p)
        self.squid = rig.Squid(stage, conf=conf + COMMON + CONF[name], workers=self.nworkers)
        if "cache_dir" in CONF[name]:
            self.squid.init_dirs()

    def port(self, w):
        return self.ports[w]

    def start(self):
        self.squid.start(wait=120)
        t0 = time.time()
        while time.time() - t0 < 120 * rig.VERIF_SLOW:
            log = self.squid.cache_log()
            ok = all(("127.0.0.1:%d" % p) in log for p in self.ports.values())
            if ok and ("cache_dir" not in CONF[self.name] or "Finished rebuilding storage from disk" in log):
                break
            if not self.squid.alive():
                raise RuntimeError("squid exited at start: " + log[-1500:])
            time.sleep(0.1)
        # every worker answers
        for w in self.ports:
            for attempt in range(50):
                try:
                    s = socket.create_connection(("127.0.0.1", self.ports[w]), timeout=2)
                    s.close()
                    break
                except OSError:
                    time.sleep(0.1)
        return self


class Harness:
    def __init__(self, stage):
        from harness.c18 import Origin
        self.origin = Origin()
        self.inst = {}
        for name in INSTANCES:
            for attempt in range(3):
                try:
                    self.inst[name] = Instance(stage, name).start()
                    break
                except RuntimeError:
                    if attempt == 2:
                        raise
        self.n = 0
        self.lock = threading.Lock()
        self.crashes = 0

    def squids(self):
        return [i.squid for i in self.inst.values()]

    def one(self, line):
        sc = parse_line(line)
        if sc is None:
            return "bad-op"
        with self.lock:
            self.n += 1
            sid = "v%d" % self.n
        s = Scenario(self, sc, sid)
        try:
            return s.run()
        finally:
            self.origin.handlers.pop(sid, None)
            for (mode, held, go) in list(s.plan.values()):
                go.set()

    def run(self, lines):
        from concurrent.futures import ThreadPoolExecutor
        with ThreadPoolExecutor(max_workers=8) as ex:
            outs = list(ex.map(rig.guarded(self.one, self.squids()), lines))
        for s in self.squids():
            if not s.alive():
                self.crashes += 1
        return outs

    def close(self):
        for s in self.squids():
            s.stop()
        self.origin.close()
