// Scheduler-controlled replacement for std::atomic used on *copies* of src/ipc sources.
// Every operation (a) parks the calling virtual thread until the deterministic scheduler resumes it and
// (b) appends (thread, object, kind, old, new) to the log. Operations evaluated inside an assert are executed
// inline: they are neither scheduling points nor logged.
#pragma once
#include <atomic>
#include <cstdint>
#include <type_traits>

namespace verif {
extern bool in_assert;
void op_begin();                                                        // scheduling point
void op_log(const void *obj, const char *kind, uint64_t old, uint64_t nw);
void assert_failed(const char *expr);

template <class T> inline uint64_t as_u64(T v) {
    if constexpr (std::is_pointer<T>::value) return reinterpret_cast<uint64_t>(v);
    else return static_cast<uint64_t>(v);
}

template <class T>
class atomic {
public:
    atomic() noexcept = default;
    constexpr atomic(T x) noexcept : v(x) {}
    atomic(const atomic &) = delete;
    atomic &operator=(const atomic &) = delete;

    T load(std::memory_order = std::memory_order_seq_cst) const { pre(); T r = v; post("load", r, r); return r; }
    operator T() const { return load(); }
    void store(T x, std::memory_order = std::memory_order_seq_cst) { pre(); T o = v; v = x; post("store", o, x); }
    T operator=(T x) { store(x); return x; }
    T exchange(T x, std::memory_order = std::memory_order_seq_cst) { pre(); T o = v; v = x; post("xchg", o, x); return o; }
    bool compare_exchange_strong(T &expected, T desired, std::memory_order = std::memory_order_seq_cst, std::memory_order = std::memory_order_seq_cst) {
        pre();
        T o = v;
        if (o == expected) { v = desired; post("cas", o, desired); return true; }
        expected = o; post("casf", o, o); return false;
    }
    bool compare_exchange_weak(T &e, T d, std::memory_order a = std::memory_order_seq_cst, std::memory_order b = std::memory_order_seq_cst) { return compare_exchange_strong(e, d, a, b); }
    T fetch_add(T x, std::memory_order = std::memory_order_seq_cst) { pre(); T o = v; v = static_cast<T>(o + x); post("add", o, v); return o; }
    T fetch_sub(T x, std::memory_order = std::memory_order_seq_cst) { pre(); T o = v; v = static_cast<T>(o - x); post("sub", o, v); return o; }
    T fetch_or(T x, std::memory_order = std::memory_order_seq_cst) { pre(); T o = v; v = static_cast<T>(o | x); post("or", o, v); return o; }
    T fetch_and(T x, std::memory_order = std::memory_order_seq_cst) { pre(); T o = v; v = static_cast<T>(o & x); post("and", o, v); return o; }
    T operator++() { return static_cast<T>(fetch_add(1) + 1); }
    T operator++(int) { return fetch_add(1); }
    T operator--() { return static_cast<T>(fetch_sub(1) - 1); }
    T operator--(int) { return fetch_sub(1); }
    T operator+=(T x) { return static_cast<T>(fetch_add(x) + x); }
    T operator-=(T x) { return static_cast<T>(fetch_sub(x) - x); }
    T operator|=(T x) { return static_cast<T>(fetch_or(x) | x); }
    T operator&=(T x) { return static_cast<T>(fetch_and(x) & x); }
    bool is_lock_free() const noexcept { return true; }
    T raw() const { return v; }            // harness-only peek (no scheduling, no log)
    void raw_set(T x) { v = x; }
private:
    void pre() const { if (!in_assert) op_begin(); }
    void post(const char *k, T o, T n) const { if (!in_assert) op_log(this, k, as_u64(o), as_u64(n)); }
    T v{};
};

class atomic_flag {
public:
    atomic_flag() noexcept = default;
    constexpr atomic_flag(bool b) noexcept : v(b) {}
    bool test_and_set(std::memory_order = std::memory_order_seq_cst) { if (!in_assert) op_begin(); bool o = v; v = true; if (!in_assert) op_log(this, "tas", o, 1); return o; }
    void clear(std::memory_order = std::memory_order_seq_cst) { if (!in_assert) op_begin(); bool o = v; v = false; if (!in_assert) op_log(this, "clear", o, 0); }
    bool raw() const { return v; }
private:
    bool v = false;
};
} // namespace verif

#define VERIF_ASSERT(EX) do { verif::in_assert = true; const bool verif_ok_ = static_cast<bool>(EX); verif::in_assert = false; \
    if (!verif_ok_) verif::assert_failed(#EX); } while (0)
