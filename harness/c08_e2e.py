"""C08 end-to-end half: mixes of concurrent transactions with client/server aborts against the rebuilt squid, and the descriptor
monitor (/proc/<pid>/fd, mgr:filedescriptors, liveness, cache.log).

A scenario line:  e <cache 0|1> <txn> <txn> ...      all transactions of the line run concurrently on one squid instance
  txn = ok | okka | post | hit            complete transactions (origin keep-alive; okka: the client connection is persistent too)
        cabq:<off>                        the client sends the first <off> bytes of its request and closes
        cstall:<off>                      the client sends the first <off> bytes and stalls (squid's request timeout ends it)
        cabr:<k> | crst:<k>               the client reads <k> bytes of a long, slowly sent response and closes / resets
        sclose:<k> | srst:<k>             the origin sends <k> bytes of its response and closes / resets
        sstall:<k>                        the origin sends <k> bytes and stalls (squid's read timeout ends it)
Observation:  delta=<open descriptors after all timeouts expired - before the scenario, by /proc/<pid>/fd>
              mgr=<the same difference by the rows of mgr:filedescriptors>  idle=<difference right after the last transaction ended>
"""
import os, re, socket, threading, time
from e2e import rig

CONF = ("read_timeout 2 seconds\nrequest_timeout 2 seconds\nrequest_start_timeout 2 seconds\nclient_idle_pconn_timeout 2 seconds\n"
        "server_idle_pconn_timeout 2 seconds\nconnect_timeout 2 seconds\nforward_timeout 8 seconds\nclient_lifetime 30 seconds\n")
EXPIRY = 4.5          # idle/read/request timeouts (2 s) + squid's one-second timeout granularity + margin
BODY = (b"0123456789abcdef" * 64) * 24     # 24 KB


class Instance:
    def __init__(self, stage, cache):
        self.cache = cache
        conf = CONF + ("" if cache else "cache deny all\n")
        last = None
        for _ in range(4):
            try:
                self.sq = rig.Squid(stage, conf=conf).start(wait=90)
                break
            except RuntimeError as e:
                last = e
        else:
            raise last
        self.lock = threading.Lock()
        self.warm = False
        self.nprob = 0


class Rig:
    def __init__(self, stage, n_each=2):
        self.origin = rig.Origin()
        self.inst = [Instance(stage, c) for c in (0, 1) for _ in range(n_each)]
        self.n = 0
        self.nlock = threading.Lock()
        self.rr = {0: 0, 1: 0}

    def sid(self):
        with self.nlock:
            self.n += 1
            return "w%d" % self.n

    def squids(self):
        return [i.sq for i in self.inst]

    def close(self):
        for i in self.inst:
            try:
                i.sq.stop()
            except Exception:
                pass
        self.origin.close()

    # ------------------------------------------------------------------ monitors
    @staticmethod
    def mgr_rows(sq):
        for _ in range(3):
            try:
                r = rig.get(sq.port, "http://verif.squid.test:%d/squid-internal-mgr/filedescriptors" % sq.port, timeout=8)
            except OSError:
                r = None
            if r and r["status"] == 200:
                rows = re.findall(rb"(?m)^\s*(\d+) (?:Log|File|Socket|Pipe|MsgHdr|None|Unknown)\b", r["body"])
                return len(rows) - 1       # the connection that carries this very report
            time.sleep(0.2)
        return None

    @staticmethod
    def stable(sq):
        """the descriptor count once three readings 0.1 s apart agree (a just-closed monitor connection may still be going away)"""
        last, same = sq.fd_count(), 0
        for _ in range(60):
            time.sleep(0.1)
            cur = sq.fd_count()
            same = same + 1 if cur == last else 0
            last = cur
            if same >= 2:
                break
        return last

    def settle(self, sq, want=None, extra=14.0):
        """after the timeouts: the descriptor count once it stops changing (or as soon as it equals `want`)"""
        time.sleep(EXPIRY * rig.VERIF_SLOW)
        end = time.time() + extra * rig.VERIF_SLOW
        last, same = sq.fd_count(), 0
        while time.time() < end:
            if want is not None and last == want:
                return last
            time.sleep(0.5)
            cur = sq.fd_count()
            same = same + 1 if cur == last else 0
            last = cur
            if want is None and same >= 3:
                return last
        return last

    # ------------------------------------------------------------------ transactions
    def request(self, sid, method="GET", extra=b"", body=b""):
        head = ("%s %s HTTP/1.1\r\nHost: 127.0.0.1:%d\r\n" % (method, self.origin.url(sid, "o"), self.origin.port)).encode() + extra
        if body:
            head += b"Content-Length: %d\r\n" % len(body)
        return head + b"\r\n" + body

    def txn(self, sq, spec):
        kind, _, par = spec.partition(":")
        k = int(par) if par else 0
        sid = self.sid()
        o = self.origin
        full = rig.simple_response(200, BODY, headers=[("Cache-Control", "max-age=600")])
        if kind in ("ok", "okka", "post", "hit"):
            o.on(sid, lambda req: [("send", rig.simple_response(200, b"fine" * 50, headers=[("Cache-Control", "max-age=600")]))])
            c = rig.Client(sq.port, timeout=8)
            try:
                reps = 2 if kind in ("okka", "hit") else 1
                for i in range(reps):
                    last = i + 1 == reps
                    c.send(self.request(sid, "POST" if kind == "post" else "GET", b"Connection: close\r\n" if last and kind != "okka" else b"",
                                        b"x" * 700 if kind == "post" else b""))
                    c.response()
            finally:
                c.close()
        elif kind in ("cabq", "cstall"):
            o.on(sid, lambda req: [("send", full)])
            data = self.request(sid, "POST", b"X-Pad: " + b"p" * 200 + b"\r\n", b"y" * 600)
            c = rig.Client(sq.port, timeout=8)
            try:
                c.send(data[:max(1, min(k, len(data) - 1))])
                if kind == "cstall":
                    c.closed_by_peer(wait=6.0)        # squid's request timeout closes it
                else:
                    time.sleep(0.05 * rig.VERIF_SLOW)
            finally:
                c.close()
        elif kind in ("cabr", "crst"):
            # a long response sent in slices, so that the abort lands mid-response
            acts = [("send", full[:400])] + [x for i in range(400, len(full), 3000) for x in (("sleep", 0.03), ("send", full[i:i + 3000]))]
            o.on(sid, lambda req: acts)
            c = rig.Client(sq.port, timeout=8)
            try:
                c.send(self.request(sid))
                got = 0
                c.s.settimeout(6 * rig.VERIF_SLOW)
                while got < max(1, k):
                    try:
                        d = c.s.recv(min(4096, max(1, k) - got))
                    except OSError:
                        break
                    if not d:
                        break
                    got += len(d)
                if kind == "crst":
                    c.s.setsockopt(socket.SOL_SOCKET, socket.SO_LINGER, b"\x01\x00\x00\x00\x00\x00\x00\x00")
            finally:
                c.close()
        elif kind in ("sclose", "srst", "sstall"):
            part = full[:max(0, min(k, len(full) - 1))]
            tail = {"sclose": [("close",)], "srst": [("reset",)], "sstall": [("sleep", 5.0), ("close",)]}[kind]
            o.on(sid, lambda req: ([("send", part)] if part else []) + tail)
            c = rig.Client(sq.port, timeout=9)
            try:
                c.send(self.request(sid, extra=b"Connection: close\r\n"))
                c.response(timeout=9)
            finally:
                c.close()
        else:
            raise ValueError(spec)

    # ------------------------------------------------------------------ one scenario
    def scenario(self, line):
        p = line.split(" ")
        if len(p) < 3 or p[0] != "e" or p[1] not in ("0", "1"):
            return "bad-op"
        specs = p[2:]
        for s in specs:
            if not re.fullmatch(r"(ok|okka|post|hit)|(cabq|cstall|cabr|crst|sclose|srst|sstall):\d{1,6}", s):
                return "bad-op"
        cache = int(p[1])
        with self.nlock:
            cands = [i for i in self.inst if i.cache == cache]
            inst = cands[self.rr[cache] % len(cands)]
            self.rr[cache] += 1
        with inst.lock:
            sq = inst.sq
            if not sq.alive():
                return "abort:squid-died"
            if not inst.warm:
                # lazily opened descriptors (DNS sockets, error page files, the first mgr report) must be part of the baseline
                for s in ("ok", "sclose:0"):
                    try:
                        self.txn(sq, s)
                    except OSError:
                        pass
                self.mgr_rows(sq)
                self.settle(sq)
                inst.warm = True
            base = self.stable(sq)
            mgr_base = self.mgr_rows(sq)
            errs = []

            def run(s):
                try:
                    self.txn(sq, s)
                except (OSError, ValueError) as e:
                    errs.append(type(e).__name__)
            ths = [threading.Thread(target=run, args=(s,), daemon=True) for s in specs]
            for t in ths:
                t.start()
            for t in ths:
                t.join(timeout=40 * rig.VERIF_SLOW)
            idle = sq.fd_count()
            final = self.settle(sq, want=base)
            mgr_final = self.mgr_rows(sq)
            if not sq.alive():
                probs = sq.problems()
                return "abort:squid-died " + (re.sub(r"\s+", "_", probs[-1])[:160] if probs else "")
            probs = [x for x in sq.problems() if not x.startswith("BUG")]
            new = probs[inst.nprob:]
            inst.nprob = len(probs)
            if new:
                return "abort:log " + re.sub(r"\s+", "_", new[0])[:160]
            bugs = [x for x in sq.problems() if x.startswith("BUG")]
            if mgr_base is None or mgr_final is None:
                return "abort:no-mgr-report"
            return "delta=%d mgr=%d idle=%d" % (final - base, mgr_final - mgr_base, idle - base) + (" bug=" + re.sub(r"\s+", "_", bugs[0])[:80] if bugs else "")
