// C51 harness: the real ClpMap template (src/base/ClpMap.h) from the staged tree, instantiated with a key whose
// length() and a value whose MemoryUsedBy() are chosen by the test line (so that every branch of the size arithmetic,
// including the uint64_t overflow checks of NaturalSum, can be reached without allocating that much memory).
//
// One input line = one whole history:
//   <limit> <defaultTtl|x> <clock0> op op op ...
//     a:<key>:<klen>:<val>:<vsz>:<ttl>   add(key, value, ttl)
//     b:<key>:<klen>:<val>:<vsz>         add(key, value)            (map-default TTL)
//     g:<key>                            get(key)
//     x:<key>                            del(key)
//     l:<limit>                          setMemLimit(limit)
//     T:<abs>                            squid_curtime = abs        (any time_t value)
// One output line: one token per op (plus a leading token for the constructor):
//   <result>/<memoryUsed>/<memLimit>/<entries()>/<k=v@expires#memCounted,...>   (traversal cbegin()..cend())
//   result: add -> 1|0, get -> v<value>|n, others -> -
//   --dump-consts prints the sizes and limits the model needs.
#include "squid.h"
#include "base/ClpMap.h"

#include <cstdio>
#include <cstring>
#include <iostream>
#include <sstream>
#include <string>
#include <vector>
#include <limits>
#include <memory>

struct Key {
    uint64_t id = 0;
    uint64_t len = 0;
    uint64_t length() const { return len; }
    bool operator ==(const Key &o) const { return id == o.id; }
};
namespace std {
template <> struct hash<Key> {
    size_t operator()(const Key &k) const noexcept { return std::hash<uint64_t>()(k.id % 7); } // few buckets: collisions are the norm
};
}
struct Val {
    int64_t v = 0;
    uint64_t sz = 0;
};
static uint64_t ValSize(const Val &v) { return v.sz; }

using Map = ClpMap<Key, Val, ValSize>;
using IndexItem = std::pair<const Key, Map::EntriesIterator>;

static bool parseU64(const std::string &s, uint64_t &r) {
    if (s.empty() || s.size() > 20) return false;
    unsigned __int128 v = 0;
    for (char c : s) { if (c < '0' || c > '9') return false; v = v * 10 + (c - '0'); }
    if (v > std::numeric_limits<uint64_t>::max()) return false;
    r = static_cast<uint64_t>(v);
    return true;
}
static bool parseI64(const std::string &s, int64_t &r) {
    bool neg = !s.empty() && s[0] == '-';
    uint64_t m;
    if (!parseU64(neg ? s.substr(1) : s, m)) return false;
    if (neg) { if (m > (uint64_t(1) << 63)) return false; r = static_cast<int64_t>(0 - m); }
    else { if (m > static_cast<uint64_t>(std::numeric_limits<int64_t>::max())) return false; r = static_cast<int64_t>(m); }
    return true;
}
static std::vector<std::string> split(const std::string &s, char d) {
    std::vector<std::string> r; std::string cur;
    for (char c : s) { if (c == d) { r.push_back(cur); cur.clear(); } else cur.push_back(c); }
    r.push_back(cur);
    return r;
}

static void snapshot(std::ostringstream &o, const char *res, const Map &m) {
    o << res << '/' << m.memoryUsed() << '/' << m.memLimit() << '/' << m.entries() << '/';
    bool first = true;
    for (auto i = m.cbegin(); i != m.cend(); ++i) {
        if (!first) o << ',';
        first = false;
        o << i->key.id << '=' << i->value.v << '@' << static_cast<long long>(i->expires) << '#' << i->memCounted;
    }
    if (first) o << '-';
}

struct Call {
    char op = 0;
    Key k;
    Val v;
    int ttl = 0;
    uint64_t limit = 0;
    int64_t clock = 0;
};

static bool parseCall(const std::string &tok, Call &c) {
    const auto f = split(tok, ':');
    const std::string &op = f[0];
    if (op.size() != 1) return false;
    c.op = op[0];
    if ((op == "a" && f.size() == 6) || (op == "b" && f.size() == 5)) {
        int64_t ttl = 0;
        if (!parseU64(f[1], c.k.id) || !parseU64(f[2], c.k.len) || !parseI64(f[3], c.v.v) || !parseU64(f[4], c.v.sz)) return false;
        if (op == "a") {
            if (!parseI64(f[5], ttl) || ttl < std::numeric_limits<int>::min() || ttl > std::numeric_limits<int>::max()) return false;
            c.ttl = static_cast<int>(ttl);
        }
        return true;
    }
    if ((op == "g" || op == "x") && f.size() == 2) return parseU64(f[1], c.k.id);
    if (op == "l" && f.size() == 2) return parseU64(f[1], c.limit);
    if (op == "T" && f.size() == 2) return parseI64(f[1], c.clock);
    return false;
}

static std::string runLine(const std::string &line) {
    std::vector<std::string> tk;
    { std::istringstream is(line); std::string w; while (is >> w) tk.push_back(w); }
    if (tk.size() < 3) return "bad-op";
    uint64_t limit; int64_t clock0; int64_t dttl = 0;
    const bool oneArg = tk[1] == "x";
    if (!parseU64(tk[0], limit) || !parseI64(tk[2], clock0)) return "bad-op";
    if (!oneArg && (!parseI64(tk[1], dttl) || dttl < std::numeric_limits<int>::min() || dttl > std::numeric_limits<int>::max())) return "bad-op";
    std::vector<Call> calls(tk.size() - 3);
    for (size_t i = 3; i < tk.size(); ++i)
        if (!parseCall(tk[i], calls[i - 3])) return "bad-op";
    if (!oneArg && dttl < 0) return "reject:default-ttl";   // the constructor asserts defaultTtl >= 0

    squid_curtime = static_cast<time_t>(clock0);
    std::unique_ptr<Map> mp;
    if (oneArg) mp.reset(new Map(limit));
    else mp.reset(new Map(limit, static_cast<int>(dttl)));
    Map &m = *mp;
    std::ostringstream o;
    snapshot(o, "-", m);
    for (const auto &c : calls) {
        std::string res = "-";
        switch (c.op) {
        case 'a': res = m.add(c.k, c.v, c.ttl) ? "1" : "0"; break;
        case 'b': res = m.add(c.k, c.v) ? "1" : "0"; break;
        case 'g': { const Val *p = m.get(c.k); res = p ? "v" + std::to_string(p->v) : "n"; } break;
        case 'x': m.del(c.k); break;
        case 'l': m.setMemLimit(c.limit); break;
        case 'T': squid_curtime = static_cast<time_t>(c.clock); break;
        }
        o << ' ';
        snapshot(o, res.c_str(), m);
    }
    return o.str();
}

int main(int argc, char **argv) {
    if (argc > 1 && !strcmp(argv[1], "--dump-consts")) {
        static_assert(sizeof(time_t) == 8, "time_t is 64 bit");
        static_assert(std::is_same<Map::Ttl, int>::value, "Ttl is int");
        printf("entrySize %zu\n", sizeof(Map::Entries::value_type));
        printf("indexSize %zu\n", sizeof(IndexItem));
        printf("u64Max %llu\n", static_cast<unsigned long long>(std::numeric_limits<uint64_t>::max()));
        printf("timeMax %lld\n", static_cast<long long>(std::numeric_limits<time_t>::max()));
        printf("ttlMax %d\n", std::numeric_limits<Map::Ttl>::max());
        printf("ttlMin %d\n", std::numeric_limits<Map::Ttl>::min());
        // behavioural cross-check of the two sizes: one entry with zero-length key and zero-size value
        squid_curtime = 0;
        Map m(1 << 20);
        Key k; Val v;
        m.add(k, v, 0);
        printf("overhead %llu\n", static_cast<unsigned long long>(m.memoryUsed()));
        // the map-default TTL of the one-argument constructor
        Map d(1 << 20);
        d.add(k, v);
        printf("defaultTtl %lld\n", static_cast<long long>(d.cbegin()->expires));
        return 0;
    }
    std::string line;
    while (std::getline(std::cin, line)) {
        const std::string out = runLine(line);
        fputs(out.c_str(), stdout);
        fputc('\n', stdout);
        fflush(stdout);
    }
    return 0;
}
