"""C39 end-to-end part: a squid whose UDP handlers are address-sanitized, with icp_port, htcp_port and snmp_port enabled.

The binary is the staged squid relinked with ASan-instrumented objects of src/icp_v2.cc, icp_v3.cc, htcp.cc, snmp_core.cc,
snmp_agent.cc and lib/snmplib/*.c (ASan's allocator and libc interceptors serve the whole process; globals, stack frames and
memory accesses of those translation units are instrumented, in particular the three static receive buffers).

   e <i|h|s> <hex datagram>   -> alive reply=<octets|none> | <first octets of the reply>
                              -> abort:squid-died <sanitizer summary>      (squid is restarted for the next line)
Liveness: after every batch of datagrams an HTTP request is sent through the proxy to the rig's origin and must be answered 200.
"""
import os, re, socket, subprocess, time, threading
from concurrent.futures import ThreadPoolExecutor
from vf.util import VERIF, unhx, log
from vf.stage import BuildError
from e2e import rig

ASAN_UNITS = ["src/icp_v2.cc", "src/icp_v3.cc", "src/htcp.cc", "src/snmp_core.cc", "src/snmp_agent.cc"]
SNMPLIB = ["asn1", "coexistance", "mib", "parse", "snmp_api", "snmp_api_error", "snmp_error", "snmp_msg", "snmp_pdu", "snmp_vars", "snmplib_debug"]
ASAN = ["-fsanitize=address", "-fno-omit-frame-pointer", "-fno-common"]
BATCH = 20


def build_asan_squid(stage):
    from props.C33 import link_whole_squid
    built = getattr(stage, "built", None)
    if built is None:
        built = stage.built = {}
    if "c39-asan-squid" in built:
        return built["c39-asan-squid"]
    with ThreadPoolExecutor(max_workers=4) as ex:
        fo = [ex.submit(stage.compile, u, os.path.join(stage.work, "c39e_" + os.path.basename(u) + ".o"), False, ASAN) for u in ASAN_UNITS]
        fl = [ex.submit(stage.compile, "lib/snmplib/%s.c" % f, os.path.join(stage.work, "c39e_snmplib_%s.o" % f), False, ASAN, True) for f in SNMPLIB]
        objs = [f.result() for f in fo]
        lobjs = [f.result() for f in fl]
    lib = os.path.join(stage.work, "libc39e_snmplib.a")
    if os.path.exists(lib):
        os.unlink(lib)
    subprocess.run(["ar", "rcs", lib] + lobjs, check=True)
    stub = os.path.join(stage.work, "c39e_ltstub.c")
    with open(stub, "w") as f:
        f.write("struct s { const char *name; void *address; };\n"
                "const struct s lt__PROGRAM__LTX_preloaded_symbols[] = {{\"@PROGRAM@\", 0}, {0, 0}};\n")
    ostub = stage.compile(stub, os.path.join(stage.work, "c39e_ltstub.o"), False, (), True)
    repl = {"icp_v2.o": objs[0], "icp_v3.o": objs[1], "htcp.o": objs[2], "snmp_core.o": objs[3], "snmp_agent.o": objs[4],
            "../lib/snmplib/libsnmplib.la": lib}
    exe = link_whole_squid(stage, os.path.join(stage.work, "c39-asan-squid"), repl, [ostub])
    built["c39-asan-squid"] = exe
    return exe


class AsanSquid(rig.Squid):
    exe = None

    def binary(self):
        return self.exe


def free_udp_port():
    s = socket.socket(socket.AF_INET, socket.SOCK_DGRAM)
    s.bind(("127.0.0.1", 0))
    p = s.getsockname()[1]
    s.close()
    return p


CONF = """icp_port {icp}
htcp_port {htcp}
snmp_port {snmp}
acl snmppublic snmp_community public
snmp_access allow snmppublic
snmp_access deny all
icp_access allow all
htcp_access allow all
htcp_clr_access allow all
log_icp_queries on
icp_hit_stale on
cache_mem 8 MB
cache_peer 127.0.0.1 sibling {peerhttp} {peericp} htcp no-digest no-netdb-exchange name=vfpeer
cache_peer_access vfpeer deny all
mime_table /dev/null
"""


class E2E:
    def __init__(self, stage):
        self.stage = stage
        AsanSquid.exe = build_asan_squid(stage)
        self.origin = rig.Origin()
        self.origin.on("c39", lambda req: [("send", rig.simple_response(200, b"hello C39", [("Cache-Control", "max-age=3600")]))])
        # the "peer" squid believes in: our client socket, so that ICP/HTCP replies are taken as coming from a configured neighbor
        self.client = socket.socket(socket.AF_INET, socket.SOCK_DGRAM)
        self.client.bind(("127.0.0.1", 0))
        self.peer_port = self.client.getsockname()[1]
        self.squid = None
        self.crashes = 0
        self.probe_n = 0
        self.start()

    def start(self):
        last = None
        for attempt in range(4):
            self.ports = {"i": free_udp_port(), "h": free_udp_port(), "s": free_udp_port()}
            conf = CONF.format(icp=self.ports["i"], htcp=self.ports["h"], snmp=self.ports["s"], peerhttp=self.origin.port, peericp=self.peer_port)
            sq = AsanSquid(self.stage, conf=conf, env={
                "ASAN_OPTIONS": "detect_leaks=0:abort_on_error=0:exitcode=86:detect_container_overflow=0:detect_odr_violation=0:symbolize=0:handle_segv=1",
            })
            try:
                sq.start(wait=120)
                self.squid = sq
                # something cacheable, so that ICP/HTCP queries can hit
                self.hit_url = self.origin.url("c39", "cached")
                rig.get(sq.port, self.hit_url)
                return
            except (RuntimeError, OSError) as e:
                last = e
                try:
                    sq.stop(kill=True)
                except Exception:
                    pass
        raise BuildError("the address-sanitized squid does not start: %s" % last)

    def probe(self):
        """squid still serves HTTP"""
        if not self.squid.alive():
            return False
        self.probe_n += 1
        for attempt in range(3):
            try:
                r = rig.get(self.squid.port, self.origin.url("c39", "probe%d" % self.probe_n), timeout=20)
                if r is not None and r.get("status") == 200:
                    return True
            except (OSError, RuntimeError):
                pass
            if not self.squid.alive():
                return False
            time.sleep(0.2)
        return False

    def send(self, proto, dg):
        # drain replies to earlier datagrams
        self.client.settimeout(0)
        try:
            while True:
                self.client.recvfrom(65536)
        except (BlockingIOError, OSError):
            pass
        try:
            self.client.sendto(dg, ("127.0.0.1", self.ports[proto]))
        except OSError as e:      # e.g. a datagram larger than the loopback MTU allows: nothing was sent
            return "notsent:%s" % type(e).__name__
        self.client.settimeout(0.03 * rig.VERIF_SLOW)
        try:
            r, _ = self.client.recvfrom(65536)
            return "reply=%d | %s" % (len(r), r[:24].hex())
        except (socket.timeout, OSError):
            return "reply=none |"

    def death(self):
        """one canonical line about why squid is gone: ASan error kind, innermost functions, the global the address belongs to"""
        probs = self.squid.problems()
        try:
            err = open(os.path.join(self.squid.dir, "stderr.log"), errors="replace").read()
        except OSError:
            err = ""
        m = re.search(r"AddressSanitizer: (\S+) on address", err) or re.search(r"SUMMARY: AddressSanitizer: (\S+)", err)
        if not m:
            what = probs[0] if probs else "rc=%s" % (self.squid.proc.returncode if self.squid.proc else "?")
            return "abort:squid-died " + re.sub(r"\s+", "_", what)[:160]
        out = "abort:squid-died AddressSanitizer:" + m.group(1)
        m2 = re.search(r"\n(READ|WRITE) of size (\d+)", err)
        if m2:
            out += " %s%s" % (m2.group(1).lower(), m2.group(2))
        offs = re.findall(r"#\d+ 0x[0-9a-f]+\s+\(%s\+(0x[0-9a-f]+)\)" % re.escape(AsanSquid.exe), err)[:4]
        if offs:
            try:
                r = subprocess.run(["addr2line", "-f", "-C", "-e", AsanSquid.exe] + offs, capture_output=True, text=True, timeout=120)
                fns = r.stdout.splitlines()[0::2]
                out += " in=" + "<".join(re.sub(r"\(.*", "", f) for f in fns)
            except Exception:
                pass
        m3 = re.search(r"is located (\d+) bytes to the right of global variable '(\w+)' defined in '[^']*?/(src/[\w./]+|lib/[\w./]+):(\d+)[^']*' \([^)]*\) of size (\d+)", err)
        if m3:
            out += " where=%s_bytes_right_of_%s[%s]@%s:%s" % (m3.group(1), m3.group(2), m3.group(5), m3.group(3), m3.group(4))
        return out

    def run_batch(self, items):
        """items: [(proto, datagram)] -> observations; None = the batch must be re-run one by one"""
        outs = [self.send(p, dg) for p, dg in items]
        if self.probe():
            return ["alive " + o for o in outs]
        return None

    def restart(self):
        self.crashes += 1
        try:
            self.squid.stop(kill=True)
        except Exception:
            pass
        self.start()

    def run(self, lines):
        items = []
        for l in lines:
            p = l.split(" ")
            items.append((p[1], unhx(p[2])))
        outs = [None] * len(items)
        i = 0
        while i < len(items):
            chunk = items[i:i + BATCH]
            r = self.run_batch(chunk)
            if r is not None:
                outs[i:i + len(chunk)] = r
                i += len(chunk)
                continue
            # squid died or stopped serving during this batch: find the datagram, one at a time on a fresh squid
            msg = self.death()
            self.restart()
            for k, it in enumerate(chunk):
                r1 = self.run_batch([it])
                if r1 is not None:
                    outs[i + k] = r1[0]
                else:
                    outs[i + k] = self.death()
                    self.restart()
            if all(o.startswith("alive") for o in outs[i:i + len(chunk)]):
                # not reproducible with single datagrams: report the batch's first line with the original message
                outs[i] = msg + " (batch of %d, not reproduced one by one)" % len(chunk)
            i += len(chunk)
        return outs

    def close(self):
        try:
            if self.squid:
                self.squid.stop(kill=True)
        except Exception:
            pass
        try:
            self.origin.close()
        except Exception:
            pass
