"""C12 end-to-end harness: one scenario = fill the cache through the rebuilt squid, then ask again.

Scenario line (13 tokens, all times relative, so a scenario is replayable at any wall-clock time):
  cfg date age smaxage maxage expires lastmod rflags dt qmaxage qmaxstale qminfresh qflags
    cfg      which squid instance: b = no refresh_pattern (built-in rule), d = the refresh_pattern lines shipped in squid.conf,
             o = `refresh_pattern . 5 20% 4320 override-expire override-lastmod`, r = `... reload-into-ims`, i = `... ignore-reload`
    date     `-` no Date header | N: Date = (time of the first exchange) - N   (negative N: a Date in the future)
    age      `-` | N: Age: N
    smaxage, maxage   `-` | N
    expires  `-` | `bad` (Expires: 0) | N: Expires = (time of the first exchange) + N
    lastmod  `-` | N: Last-Modified = (time of the first exchange) - N
    rflags   `-` or letters: m must-revalidate, p proxy-revalidate, n no-cache, i immutable, u public, z empty body
    dt       whole seconds of real time between the first exchange and the second request (0..3)
    qmaxage, qminfresh `-` | N;  qmaxstale `-` | `any` | N
    qflags   `-` or letters: n no-cache, o only-if-cached, g Pragma: no-cache, c an unrelated directive (no-transform)

Optional third exchange (9 more tokens): nsmaxage nmaxage nexpires nflags dt2 qmaxage2 qmaxstale2 qminfresh2 qflags2
    n*       what the origin's 304 (the answer to any conditional request) carries besides `Date: <now>`: Cache-Control
             s-maxage / max-age / flags (m p n i u) and Expires (`-` | `bad` | N seconds after the 304)
    dt2      whole seconds of real time between the second and the third request; q*2 as above
  The observation then has a second part `C=... x=...` for the third request.

Observation: `B=<hit|reval|miss|oic504> x=<n|->`
    hit    second request answered without any request reaching the origin; x = the Age header squid put on it
    reval  a conditional request (If-Modified-Since / If-None-Match) reached the origin; x = first exchange time minus the
           If-Modified-Since value
    miss   an unconditional request reached the origin
    oic504 nothing reached the origin and squid answered 504

Squid's clock cannot be set, so the harness makes the second-granular clock value known instead: both exchanges of a scenario
must start and end within one wall-clock second each (`s0` and `s0+dt`), otherwise the scenario is repeated on a fresh URL.
"""
import calendar, re, threading, time
from concurrent.futures import ThreadPoolExecutor
from e2e import rig

CONFS = {
    "b": "",
    "d": None,   # filled from the staged cf.data.pre
    "o": "refresh_pattern . 5 20% 4320 override-expire override-lastmod\n",
    "r": "refresh_pattern . 0 20% 4320 reload-into-ims\n",
    "i": "refresh_pattern . 0 20% 4320 ignore-reload\n",
}


def shipped_refresh_lines(stage):
    text = stage.read("src/cf.data.pre")
    m = re.search(r"^NAME: refresh_pattern\b.*?^CONFIG_START\n(.*?)^CONFIG_END", text, re.S | re.M)
    lines = [l for l in (m.group(1).splitlines() if m else []) if l.startswith("refresh_pattern")]
    if not lines:
        raise RuntimeError("no shipped refresh_pattern lines in cf.data.pre")
    return "\n".join(lines) + "\n"


def fmt(t):
    return time.strftime("%a, %d %b %Y %H:%M:%S GMT", time.gmtime(t))


def parse_date(s):
    try:
        return calendar.timegm(time.strptime(s, "%a, %d %b %Y %H:%M:%S GMT"))
    except (ValueError, TypeError):
        return None


def opt(tok):
    return None if tok == "-" else int(tok)


class Scenario:
    def __init__(self, line):
        t = line.split(" ")
        if len(t) not in (13, 22):
            raise ValueError("tokens")
        (self.cfg, date, age, sm, ma, ex, lm, self.rf, dt, qma, qms, qmf, self.qf) = t[:13]
        self.three = len(t) == 22
        self.nsm = self.nma = self.nex = None
        self.nex_bad = False
        self.nrf = "-"
        self.step2 = None
        if self.three:
            nsm, nma, nex, self.nrf, dt2, qma2, qms2, qmf2, qf2 = t[13:]
            self.nsm, self.nma = opt(nsm), opt(nma)
            self.nex_bad = nex == "bad"
            self.nex = None if self.nex_bad else opt(nex)
            if not re.fullmatch(r"-|[mpniu]+", self.nrf):
                raise ValueError("flags")
            self.step2 = Req(dt2, qma2, qms2, qmf2, qf2)
        if self.cfg not in CONFS:
            raise ValueError("cfg")
        self.date, self.age, self.sm, self.ma, self.lm = opt(date), opt(age), opt(sm), opt(ma), opt(lm)
        self.ex_bad = ex == "bad"
        self.ex = None if self.ex_bad else opt(ex)
        self.step1 = Req(dt, qma, qms, qmf, self.qf)
        self.dt, self.qma, self.qmf, self.qms_any, self.qms = self.step1.dt, self.step1.qma, self.step1.qmf, self.step1.qms_any, self.step1.qms
        if not re.fullmatch(r"-|[mpniuz]+", self.rf):
            raise ValueError("flags")

    def steps(self):
        return [self.step1] + ([self.step2] if self.three else [])

    def headers_304(self, now):
        h = [("Date", fmt(now))]
        cc = []
        if self.nsm is not None:
            cc.append("s-maxage=%d" % self.nsm)
        if self.nma is not None:
            cc.append("max-age=%d" % self.nma)
        for c, name in (("m", "must-revalidate"), ("p", "proxy-revalidate"), ("n", "no-cache"), ("i", "immutable"), ("u", "public")):
            if c in self.nrf:
                cc.append(name)
        if cc:
            h.append(("Cache-Control", ", ".join(cc)))
        if self.nex_bad:
            h.append(("Expires", "0"))
        elif self.nex is not None:
            h.append(("Expires", fmt(now + self.nex)))
        return h

    def reply_headers(self, s0):
        h = []
        if self.date is not None:
            h.append(("Date", fmt(s0 - self.date)))
        if self.age is not None:
            h.append(("Age", str(self.age)))
        cc = []
        if self.sm is not None:
            cc.append("s-maxage=%d" % self.sm)
        if self.ma is not None:
            cc.append("max-age=%d" % self.ma)
        for c, name in (("m", "must-revalidate"), ("p", "proxy-revalidate"), ("n", "no-cache"), ("i", "immutable"), ("u", "public")):
            if c in self.rf:
                cc.append(name)
        if cc:
            h.append(("Cache-Control", ", ".join(cc)))
        if self.ex_bad:
            h.append(("Expires", "0"))
        elif self.ex is not None:
            h.append(("Expires", fmt(s0 + self.ex)))
        if self.lm is not None:
            h.append(("Last-Modified", fmt(s0 - self.lm)))
        return h

    def request_headers(self):
        return self.step1.request_headers()


class Req:
    """one follow-up request: real-time gap and Cache-Control / Pragma directives"""

    def __init__(self, dt, qma, qms, qmf, qf):
        self.dt = int(dt)
        if not 0 <= self.dt <= 5:
            raise ValueError("dt")
        self.qma, self.qmf = opt(qma), opt(qmf)
        self.qms_any = qms == "any"
        self.qms = None if self.qms_any else opt(qms)
        self.qf = qf
        if not re.fullmatch(r"-|[nogc]+", self.qf):
            raise ValueError("flags")

    def request_headers(self):
        cc = []
        if self.qma is not None:
            cc.append("max-age=%d" % self.qma)
        if self.qms_any:
            cc.append("max-stale")
        elif self.qms is not None:
            cc.append("max-stale=%d" % self.qms)
        if self.qmf is not None:
            cc.append("min-fresh=%d" % self.qmf)
        for c, name in (("n", "no-cache"), ("o", "only-if-cached"), ("c", "no-transform")):
            if c in self.qf:
                cc.append(name)
        h = []
        if cc:
            h.append(("Cache-Control", ", ".join(cc)))
        if "g" in self.qf:
            h.append(("Pragma", "no-cache"))
        return h


class Harness:
    def __init__(self, stage, cfgs=("b", "d", "o", "r", "i")):
        CONFS["d"] = shipped_refresh_lines(stage)
        self.origin = rig.Origin()
        self.squids = {}
        for c in cfgs:
            self.squids[c] = rig.Squid(stage, conf=CONFS[c]).start(wait=90.0)   # a loaded machine can take long to start five instances
        self.n = 0
        self.lock = threading.Lock()
        self.crashes = 0
        self.retries = 0

    def _sid(self):
        with self.lock:
            self.n += 1
            return "f%d" % self.n

    def attempt(self, sc, late=0.55):
        """-> observation, or None when the wall clock crossed a second boundary inside an exchange"""
        squid = self.squids[sc.cfg]
        sid = self._sid()
        state = {}

        def handler(req):
            now = int(time.time())
            if req["n"] == 0:
                state["s0"] = now
                body = b"" if "z" in sc.rf else b"v0"
                return [("send", rig.simple_response(200, body, sc.reply_headers(now), date=False))]
            cond = rig.hget(req["hdrs"], "if-modified-since") is not None or rig.hget(req["hdrs"], "if-none-match") is not None
            if cond:
                return [("send", rig.simple_response(304, b"", sc.headers_304(now), date=False, cl=False))]
            return [("send", rig.simple_response(200, b"v1", [("Date", fmt(now)), ("Cache-Control", "no-store")], date=False))]

        self.origin.on(sid, handler)
        url = self.origin.url(sid, "o")
        # every exchange must fall inside one wall-clock second
        while time.time() % 1.0 > late:
            time.sleep(0.02)
        r1 = rig.get(squid.port, url)
        s0 = state.get("s0")
        if r1 is None or s0 is None:
            return "no-fill" if squid.alive() else "abort:squid-died"
        if int(time.time()) != s0:
            return None
        obs = []
        at = s0
        seen = 1
        for tag, st in zip("BC", sc.steps()):
            at += st.dt
            if st.dt > 0:
                time.sleep(max(0.0, at + 0.03 - time.time()))
            elif time.time() % 1.0 > 0.9:
                return None
            if int(time.time()) != at:
                return None
            r2 = rig.get(squid.port, url, headers=st.request_headers())
            if int(time.time()) != at:
                return None
            if not squid.alive():
                return "abort:squid-died"
            if r2 is None:
                return "no-response"
            reqs = self.origin.requests(sid)
            later = reqs[seen:]
            seen = len(reqs)
            if len(later) > 1:
                obs.append("%s=multi x=%d" % (tag, len(later)))
            elif not later:
                if r2["status"] == 504:
                    obs.append("%s=oic504 x=-" % tag)
                elif r2["status"] != 200:
                    obs.append("%s=local%d x=-" % (tag, r2["status"]))
                else:
                    age = rig.hget(r2["hdrs"], "age")
                    obs.append("%s=hit x=%s" % (tag, age if age is not None else "-"))
            else:
                q = later[0]
                ims = rig.hget(q["hdrs"], "if-modified-since")
                inm = rig.hget(q["hdrs"], "if-none-match")
                if ims is not None or inm is not None:
                    t = parse_date(ims) if ims is not None else None
                    obs.append("%s=reval x=%s" % (tag, (s0 - t) if t is not None else "-"))
                else:
                    obs.append("%s=miss x=-" % tag)
        return " ".join(obs)

    def one(self, line):
        try:
            sc = Scenario(line)
        except (ValueError, IndexError):
            return "bad-op"
        if sc.cfg not in self.squids:
            return "bad-op"
        try:
            for i in range(10):
                # start earlier in the second after every failed attempt (a loaded machine needs more room)
                obs = self.attempt(sc, late=max(0.1, 0.55 - 0.1 * i))
                if obs is not None:
                    return obs
                with self.lock:
                    self.retries += 1
            return "no-stable-clock"
        except OSError as e:
            return "abort:io-%s" % type(e).__name__

    def run(self, lines):
        with ThreadPoolExecutor(max_workers=24) as ex:
            return list(ex.map(self.one, lines))

    def problems(self):
        out = []
        for c, s in self.squids.items():
            out += s.problems()
        return out

    def close(self):
        for s in self.squids.values():
            s.stop()
        self.origin.close()
