// C43 harness: the real ACLIntRange (src/acl/IntRange.cc) fed through the real ConfigParser::strtokFile and
// the real xatos/xatol/xatoll (src/Parsing.cc), all compiled from the stage with ASan/UBSan.
//
//   a|s <tok>,<tok>,...|-  <int>,<int>,...|-
//        a = squid's default parser mode (configuration_includes_quoted_values off: RecognizeQuotedValues and
//        StrictMode false); s = configuration_includes_quoted_values on (both true).
//        tokens are hex byte strings (the ACL parameters, in configuration order); the harness joins them with
//        single spaces into one configuration line, seeds ConfigParser with it and calls ACLIntRange::parse().
//        Then ACLIntRange::match(i) is called for every probe integer.
//     -> ok <dump>|- <bits>|-     dump = ACLIntRange::dump() joined with ','; bits = one 0/1 per probe
//     -> reject:<class>           self_destruct() was called; class is derived from the ERROR text squid logged:
//                                 no-digits | trailing | negative | too-large | descending | other
//     -> reject:harness-token     a token that ConfigParser would not hand to parse() verbatim (empty, NUL,
//                                 config white space, leading '#', '"' or '\''; in mode s additionally any
//                                 character outside [A-Za-z0-9.,)=_/:+-])
//
//   --dump-constants  -> the platform/parser constants the model depends on (see translate/int_range.py)
//
// self_destruct() and the debug sink are provided here (instead of tests/stub_cache_cf.o, tests/stub_debug.o):
// self_destruct() throws, which stands for "squid refuses the configuration".
#include "squid.h"
#include "acl/IntRange.h"
#include "acl/Acl.h"
#include "acl/Gadgets.h"
#include "cache_cf.h"
#include "ConfigParser.h"
#include "debug/Stream.h"
#include "sbuf/SBuf.h"
#include "wordlist.h"
#include "Parsing.h"

#include <cctype>
#include <climits>
#include <cstdio>
#include <cstring>
#include <iostream>
#include <sstream>
#include <string>
#include <vector>

// ---- cache_cf.cc surface (what tests/stub_cache_cf.o provides), with a throwing self_destruct ----------------
const char *cfg_directive = nullptr;
const char *cfg_filename = nullptr;
int config_lineno = 0;
char config_input_line[BUFSIZ] = {};
struct SelfDestruct {};
void self_destruct(void) { throw SelfDestruct(); }
static void notNeeded(const char *what) { fprintf(stderr, "harness: unexpected call of %s\n", what); abort(); }
void parse_int(int *) { notNeeded("parse_int"); }
void parse_onoff(int *) { notNeeded("parse_onoff"); }
void parse_eol(char *volatile *) { notNeeded("parse_eol"); }
void parse_wordlist(wordlist **) { notNeeded("parse_wordlist"); }
void requirePathnameExists(const char *, const char *) {}
void parse_time_t(time_t *) { notNeeded("parse_time_t"); }
void ConfigParser::ParseUShort(unsigned short *) { notNeeded("ParseUShort"); }
void ConfigParser::ParseWordList(wordlist **) { notNeeded("ParseWordList"); }
void parseBytesOptionValue(size_t *, const char *, char const *) { notNeeded("parseBytesOptionValue"); }
void dump_acl_access(StoreEntry *, const char *, acl_access *) { notNeeded("dump_acl_access"); }
void dump_acl_list(StoreEntry *, ACLList *) { notNeeded("dump_acl_list"); }

// ---- debug sink (what tests/stub_debug.o provides) that remembers the important messages ----------------------
static std::string LastMessages;
char *Debug::debugOptions;
char *Debug::cache_log = nullptr;
int Debug::rotateNumber = 0;
int Debug::Levels[MAX_DEBUG_SECTIONS];
int Debug::override_X = 0;
bool Debug::log_syslog = false;
void Debug::ForceAlert() {}
void ResyncDebugLog(FILE *) {}
FILE *DebugStream() { return stderr; }
void _db_rotate_log(void) {}
void Debug::FormatStream(std::ostream &buf)
{
    const static std::ostringstream cleanStream;
    buf.flags(cleanStream.flags() | std::ios::fixed);
    buf.width(cleanStream.width());
    buf.precision(2);
    buf.fill(' ');
}
void Debug::LogMessage(const Context &context)
{
    if (context.level > DBG_IMPORTANT)
        return;
    LastMessages += context.buf.str();
    LastMessages += "\n";
}
std::ostream &Debug::Extra(std::ostream &os) { FormatStream(os); os << "\n    "; return os; }
bool Debug::StderrEnabled() { return false; }
void Debug::PrepareToDie() {}
void Debug::parseOptions(char const *) {}
Debug::Context *Debug::Current = nullptr;
Debug::Context::Context(const int aSection, const int aLevel):
    section(aSection), level(aLevel), sectionLevel(Levels[aSection]), upper(Current), forceAlert(false)
{
    FormatStream(buf);
}
std::ostringstream &Debug::Start(const int section, const int level)
{
    Current = new Context(section, level);
    return Current->buf;
}
void Debug::Finish()
{
    if (Current) {
        LogMessage(*Current);
        delete Current;
        Current = nullptr;
    }
}
std::ostream &ForceAlert(std::ostream &s) { return s; }

// ---- line protocol ---------------------------------------------------------------------------------------
static bool unhex(const std::string &h, std::string &out)
{
    out.clear();
    if (h == "-") return true;
    if (h.size() % 2) return false;
    for (size_t i = 0; i < h.size(); i += 2) {
        int v = 0;
        for (int k = 0; k < 2; ++k) {
            const char c = h[i + k];
            int d;
            if (c >= '0' && c <= '9') d = c - '0';
            else if (c >= 'a' && c <= 'f') d = c - 'a' + 10;
            else if (c >= 'A' && c <= 'F') d = c - 'A' + 10;
            else return false;
            v = v * 16 + d;
        }
        out.push_back(static_cast<char>(v));
    }
    return true;
}

static std::vector<std::string> splitOn(const std::string &s, char sep)
{
    std::vector<std::string> r;
    size_t p = 0;
    for (;;) {
        const size_t q = s.find(sep, p);
        if (q == std::string::npos) { r.push_back(s.substr(p)); break; }
        r.push_back(s.substr(p, q - p));
        p = q + 1;
    }
    return r;
}

/// whether ConfigParser::strtokFile() hands this byte string to the caller unchanged, as one token
static bool verbatimToken(const std::string &t, const bool strict)
{
    if (t.empty()) return false;
    if (t[0] == '#' || t[0] == '"' || t[0] == '\'') return false;
    for (const char c : t) {
        if (c == '\0' || c == ' ' || c == '\t' || c == '\n' || c == '\r') return false;
        if (strict) {
            const bool alnum = (c >= '0' && c <= '9') || (c >= 'a' && c <= 'z') || (c >= 'A' && c <= 'Z');
            if (!alnum && !strchr(".,)-=_/:+", c)) return false;
        }
    }
    return true;
}

static std::string classify(const std::string &log)
{
    if (log.find("No digits were found") != std::string::npos) return "no-digits";
    if (log.find("is supposed to be a number") != std::string::npos) return "trailing";
    if (log.find("cannot be less than 0") != std::string::npos) return "negative";
    if (log.find("is larger than the type") != std::string::npos) return "too-large";
    if (log.find("Invalid port value") != std::string::npos) return "descending";
    return "other";
}

static std::string handle(const std::string &line)
{
    std::istringstream is(line);
    std::string op, toks, probes, extra;
    if (!(is >> op >> toks >> probes) || (is >> extra) || (op != "a" && op != "s"))
        return "bad-op";

    std::vector<std::string> tokens;
    if (toks != "-") {
        for (const auto &h : splitOn(toks, ',')) {
            std::string t;
            if (h == "-" || !unhex(h, t)) return "bad-op";
            tokens.push_back(t);
        }
    }
    std::vector<int> ints;
    if (probes != "-") {
        for (const auto &p : splitOn(probes, ',')) {
            if (p.empty() || p.size() > 12) return "bad-op";
            char *end = nullptr;
            const long long v = strtoll(p.c_str(), &end, 10);
            if (*end || end == p.c_str() || v < INT_MIN || v > INT_MAX) return "bad-op";
            ints.push_back(static_cast<int>(v));
        }
    }
    for (const auto &t : tokens)
        if (!verbatimToken(t, op == "s")) return "reject:harness-token";
    ConfigParser::RecognizeQuotedValues = ConfigParser::StrictMode = (op == "s");

    std::string cfg;
    for (size_t i = 0; i < tokens.size(); ++i) {
        if (i) cfg += ' ';
        cfg += tokens[i];
    }
    // exact-size heap buffer so that ASan sees over-reads; ConfigParser keeps pointers into it only during parse()
    char *buf = new char[cfg.size() + 1];
    memcpy(buf, cfg.c_str(), cfg.size() + 1);
    ConfigParser::SetCfgLine(buf);
    LastMessages.clear();

    ACLIntRange acl;
    std::string result;
    try {
        acl.parse();
    } catch (const SelfDestruct &) {
        result = "reject:" + classify(LastMessages);
    }
    ConfigParser::SetCfgLine(nullptr); // frees the token copies the parser made
    delete[] buf;
    if (!result.empty())
        return result;

    std::string dump;
    for (const auto &s : acl.dump()) {
        if (!dump.empty()) dump += ',';
        dump.append(s.rawContent(), s.length());
    }
    if (dump.empty()) dump = "-";
    if (acl.empty() != tokens.empty())
        return "harness-inconsistency:empty()";
    std::string bits;
    for (const int i : ints)
        bits += acl.match(i) ? '1' : '0';
    if (bits.empty()) bits = "-";
    return "ok " + dump + " " + bits;
}

static void dumpConstants()
{
    printf("int_max %d\nint_min %d\n", INT_MAX, INT_MIN);
    printf("long_max %ld\nlong_min %ld\n", LONG_MAX, LONG_MIN);
    printf("llong_max %lld\nllong_min %lld\n", LLONG_MAX, LLONG_MIN);
    printf("w_space");
    for (const char *p = w_space; *p; ++p) printf(" %d", static_cast<unsigned char>(*p));
    printf("\nisspace");
    for (int c = 1; c < 256; ++c) if (isspace(c)) printf(" %d", c);
    printf("\nisdigit");
    for (int c = 1; c < 256; ++c) if (isdigit(c)) printf(" %d", c);
    printf("\n");
    // the largest value xatos() lets through, by asking the real function around every power of two
    for (int k = 1; k <= 40; ++k) {
        for (const long long v : { (1LL << k) - 1, (1LL << k) }) {
            const std::string t = std::to_string(v);
            bool ok = true;
            unsigned short got = 0;
            try { got = xatos(t.c_str()); } catch (const SelfDestruct &) { ok = false; }
            printf("xatos %lld %s %u\n", v, ok ? "ok" : "reject", static_cast<unsigned>(got));
        }
    }
}

int main(int argc, char **argv)
{
    if (argc > 1 && !strcmp(argv[1], "--dump-constants")) {
        dumpConstants();
        return 0;
    }
    for (auto &l : Debug::Levels) l = DBG_IMPORTANT; // ERROR texts of Parsing.cc are logged at level 1
    std::string line;
    while (std::getline(std::cin, line)) {
        std::string out;
        try {
            out = handle(line);
        } catch (const std::exception &e) {
            out = std::string("exception:") + e.what();
        }
        puts(out.c_str());
        fflush(stdout);
    }
    return 0;
}
