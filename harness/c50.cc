// C50 harness: the real CharacterSet and Parser::Tokenizer of the staged tree (built with ASan/UBSan).
//
// Set descriptors (SET):  [!]m<hex>   members added one by one with add()           ("m-" = empty)
//                         [!]s<hex>   CharacterSet(label, const char*) of the bytes + NUL (stops at the first NUL; "s-" = "")
//                         [!]r<hex>   pairs lo,hi: CharacterSet(label, lo, hi) for the first pair, addRange() for the rest
//                         [!]i<hex>   pairs lo,hi through the initializer-list style loop (addRange on an empty set)
//                         [!]n<NAME>  a public constant (ALPHA, DIGIT, ...)
//                         a leading '!' takes complement()
// Lines:
//   cs <op> <SET> [<SET>|<hex>]   op = union diff compl addassign subassign add remove addrange eq ne chain(A B C: ((A+B)-C).complement())
//        -> "<members of A> [<members of B> [<members of C>]] <result>": the operands as observed through operator[] before
//           the operation, then the members of the result in increasing order ("-" = none) or 0/1 for eq/ne;
//           "operand-changed" if a by-value operator modified an operand
//   tk <hex buffer> <op>...       ops run in sequence on one Tokenizer:
//        prefix:SET:LIMIT suffix:SET:LIMIT token:SET skipall:SET skipalltrail:SET skipone:SET skiponetrail:SET
//        skip:<hex> skipsuffix:<hex> skipchar:<2 hex> skipreq:<hex> prefixthrow:SET:LIMIT
//        -> per op "<result>/<hex remaining>/<parsedSize>" where result = T<hex token> | T | F | N<count> | throw:insufficient | throw:parse
//           (processing of the line stops after a throw)
#include "squid.h"
#include "base/CharacterSet.h"
#include "base/TextException.h"
#include "parser/Tokenizer.h"
#include "parser/forward.h"
#include "sbuf/SBuf.h"

#include <cstdio>
#include <cstring>
#include <iostream>
#include <map>
#include <sstream>
#include <string>
#include <vector>

static bool unhex(const std::string &h, std::string &r) {
    r.clear();
    if (h == "-") return true;
    if (h.size() % 2) return false;
    for (size_t i = 0; i < h.size(); i += 2) {
        int v = 0;
        for (int k = 0; k < 2; ++k) {
            const char c = h[i + k];
            int d;
            if (c >= '0' && c <= '9') d = c - '0';
            else if (c >= 'a' && c <= 'f') d = c - 'a' + 10;
            else if (c >= 'A' && c <= 'F') d = c - 'A' + 10;
            else return false;
            v = v * 16 + d;
        }
        r.push_back(static_cast<char>(v));
    }
    return true;
}
static std::string hex(const char *p, size_t n) {
    if (!n) return "-";
    static const char *d = "0123456789abcdef";
    std::string r;
    for (size_t i = 0; i < n; ++i) { const unsigned char c = p[i]; r.push_back(d[c >> 4]); r.push_back(d[c & 15]); }
    return r;
}
static std::string hex(const SBuf &s) { return hex(s.rawContent(), s.length()); }
static std::string members(const CharacterSet &s) {
    std::string m;
    for (int i = 0; i < 256; ++i)
        if (s[static_cast<unsigned char>(i)]) m.push_back(static_cast<char>(i));
    return hex(m.data(), m.size());
}

static const CharacterSet *named(const std::string &n) {
#define N(x) if (n == #x) return &CharacterSet::x;
    N(ALPHA) N(BIT) N(CR) N(CTL) N(DIGIT) N(DQUOTE) N(HEXDIG) N(HTAB) N(LF) N(SP) N(VCHAR) N(WSP)
    N(CTEXT) N(TCHAR) N(SPECIAL) N(QDTEXT) N(OBSTEXT) N(ETAGC) N(TOKEN68C)
#undef N
    if (n == "RFC3986_UNRESERVED") return &CharacterSet::RFC3986_UNRESERVED();
    return nullptr;
}

static bool parseSet(std::string d, CharacterSet &out) {
    bool neg = false;
    if (!d.empty() && d[0] == '!') { neg = true; d.erase(0, 1); }
    if (d.empty()) return false;
    const char kind = d[0];
    const std::string arg = d.substr(1);
    CharacterSet s("verif", "");
    std::string bytes;
    if (kind == 'n') {
        const CharacterSet *c = named(arg);
        if (!c) return false;
        s = *c;
    } else if (!unhex(arg, bytes)) {
        return false;
    } else if (kind == 'm') {
        for (const char c : bytes) s.add(static_cast<unsigned char>(c));
    } else if (kind == 's') {
        char *z = new char[bytes.size() + 1]; // exact size
        memcpy(z, bytes.data(), bytes.size());
        z[bytes.size()] = 0;
        s = CharacterSet("verif", z);
        delete[] z;
    } else if (kind == 'r' || kind == 'i') {
        if (bytes.size() % 2) return false;
        for (size_t i = 0; i + 1 < bytes.size(); i += 2) {
            const unsigned char lo = bytes[i], hi = bytes[i + 1];
            if (i == 0 && kind == 'r')
                s = CharacterSet("verif", lo, hi);
            else
                s.addRange(lo, hi);
        }
    } else {
        return false;
    }
    out = neg ? s.complement("verif-neg") : s;
    return true;
}

static std::vector<std::string> split(const std::string &s, char sep) {
    std::vector<std::string> r;
    std::string cur;
    for (const char c : s) {
        if (c == sep) { r.push_back(cur); cur.clear(); } else cur.push_back(c);
    }
    r.push_back(cur);
    return r;
}

static std::string doSet(const std::vector<std::string> &w) {
    if (w.size() < 3) return "bad-op";
    const std::string &op = w[1];
    CharacterSet a("a", ""), b("b", ""), c("c", "");
    if (!parseSet(w[2], a)) return "bad-op";
    const CharacterSet a0 = a;
    const std::string ma = members(a0);
    if (op == "compl") {
        const CharacterSet r = a.complement();
        if (a != a0) return "operand-changed";
        return ma + " " + members(r);
    }
    if (w.size() < 4) return "bad-op";
    if (op == "add" || op == "remove" || op == "addrange") {
        std::string bytes;
        if (!unhex(w[3], bytes)) return "bad-op";
        if (op == "addrange") {
            if (bytes.size() != 2) return "bad-op";
            a.addRange(static_cast<unsigned char>(bytes[0]), static_cast<unsigned char>(bytes[1]));
        } else {
            for (const char ch : bytes) {
                if (op == "add") a.add(static_cast<unsigned char>(ch));
                else a.remove(static_cast<unsigned char>(ch));
            }
        }
        return ma + " " + members(a);
    }
    if (!parseSet(w[3], b)) return "bad-op";
    const CharacterSet b0 = b;
    const std::string mab = ma + " " + members(b0) + " ";
    std::string out;
    if (op == "union") {
        const CharacterSet r = a + b;
        out = members(r);
    } else if (op == "diff") {
        const CharacterSet r = a - b;
        out = members(r);
    } else if (op == "addassign") {
        a += b;
        return b != b0 ? "operand-changed" : mab + members(a);
    } else if (op == "subassign") {
        a -= b;
        return b != b0 ? "operand-changed" : mab + members(a);
    } else if (op == "eq") {
        out = (a == b) ? "1" : "0";
    } else if (op == "ne") {
        out = (a != b) ? "1" : "0";
    } else if (op == "chain") {
        if (w.size() < 5 || !parseSet(w[4], c)) return "bad-op";
        const CharacterSet r = ((a + b) - c).complement();
        out = members(c) + " " + members(r);
    } else {
        return "bad-op";
    }
    if (a != a0 || b != b0) return "operand-changed";
    return mab + out;
}

static bool parseLimit(const std::string &s, SBuf::size_type &v) {
    if (s.empty()) return false;
    char *e = nullptr;
    errno = 0;
    const unsigned long long x = strtoull(s.c_str(), &e, 10);
    if (errno || !e || *e || x > 0xffffffffULL) return false;
    v = static_cast<SBuf::size_type>(x);
    return true;
}

static std::string doTok(const std::vector<std::string> &w) {
    if (w.size() < 2) return "bad-op";
    std::string bytes;
    if (!unhex(w[1], bytes)) return "bad-op";
    const SBuf buf(bytes.data(), bytes.size());
    Parser::Tokenizer tk(buf);
    std::string out;
    for (size_t i = 2; i < w.size(); ++i) {
        const auto f = split(w[i], ':');
        const std::string &op = f[0];
        std::string res;
        CharacterSet set("s", "");
        SBuf::size_type limit = SBuf::npos;
        std::string arg;
        bool thrown = false;
        const bool usesSet = op == "prefix" || op == "suffix" || op == "token" || op == "skipall" || op == "skipalltrail" ||
                             op == "skipone" || op == "skiponetrail" || op == "prefixthrow";
        if (usesSet) {
            if (f.size() < 2 || !parseSet(f[1], set)) return "bad-op";
            if (op == "prefix" || op == "suffix" || op == "prefixthrow") {
                if (f.size() != 3 || !parseLimit(f[2], limit)) return "bad-op";
            }
        } else {
            if (f.size() != 2 || !unhex(f[1], arg)) return "bad-op";
        }
        try {
            SBuf token;
            if (op == "prefix") res = tk.prefix(token, set, limit) ? "T" + hex(token) : "F";
            else if (op == "suffix") res = tk.suffix(token, set, limit) ? "T" + hex(token) : "F";
            else if (op == "token") res = tk.token(token, set) ? "T" + hex(token) : "F";
            else if (op == "skipall") res = "N" + std::to_string(tk.skipAll(set));
            else if (op == "skipalltrail") res = "N" + std::to_string(tk.skipAllTrailing(set));
            else if (op == "skipone") res = tk.skipOne(set) ? "T" : "F";
            else if (op == "skiponetrail") res = tk.skipOneTrailing(set) ? "T" : "F";
            else if (op == "skip") res = tk.skip(SBuf(arg.data(), arg.size())) ? "T" : "F";
            else if (op == "skipsuffix") res = tk.skipSuffix(SBuf(arg.data(), arg.size())) ? "T" : "F";
            else if (op == "skipchar") { if (arg.size() != 1) return "bad-op"; res = tk.skip(arg[0]) ? "T" : "F"; }
            else if (op == "skipreq") { tk.skipRequired("verif", SBuf(arg.data(), arg.size())); res = "T"; }
            else if (op == "prefixthrow") res = "T" + hex(tk.prefix("verif", set, limit));
            else return "bad-op";
        } catch (const Parser::InsufficientInput &) {
            res = "throw:insufficient"; thrown = true;
        } catch (const TextException &) {
            res = "throw:parse"; thrown = true;
        }
        if (!out.empty()) out += " ";
        if (thrown) { out += res; break; }
        out += res + "/" + hex(tk.remaining()) + "/" + std::to_string(tk.parsedSize());
    }
    return out.empty() ? "-" : out;
}

int main(int, char **) {
    std::string line;
    while (std::getline(std::cin, line)) {
        std::vector<std::string> w;
        std::istringstream is(line);
        std::string x;
        while (is >> x) w.push_back(x);
        std::string out;
        if (w.empty()) out = "bad-op";
        else if (w[0] == "cs") out = doSet(w);
        else if (w[0] == "tk") out = doTok(w);
        else out = "bad-op";
        puts(out.c_str());
        fflush(stdout);
    }
    return 0;
}
