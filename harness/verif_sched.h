// Deterministic cooperative scheduler for virtual threads (ucontext coroutines, one OS thread).
// A *step* of thread t resumes it: it performs the atomic operation it is parked at and runs on until it is
// about to perform its next atomic operation (or its body ends). prime() runs every thread up to its first operation.
#pragma once
#include <functional>
#include <string>
#include <vector>
#include <map>
#include <ucontext.h>
#include <cstdio>
#include <cstdlib>
#include <cstdint>

namespace verif {

struct VThread {
    ucontext_t ctx;
    std::vector<char> stack;
    std::function<void()> body;
    bool done = false;
    bool started = false;
};

struct Sched {
    std::vector<VThread *> threads;
    ucontext_t main_ctx;
    int current = -1;
    std::vector<std::string> log;
    std::map<const void *, std::string> names;
    std::string violation;

    ~Sched() { for (auto t : threads) delete t; }
    int spawn(std::function<void()> f) {
        auto *t = new VThread;
        t->body = std::move(f);
        t->stack.resize(256 * 1024);
        threads.push_back(t);
        return static_cast<int>(threads.size()) - 1;
    }
    void name(const void *p, const std::string &n) { names[p] = n; }
    bool step(int tid);     // false when the thread was already done (nothing happened)
    void prime() { for (size_t i = 0; i < threads.size(); ++i) resume(static_cast<int>(i)); }
    bool allDone() const { for (auto t : threads) if (!t->done) return false; return true; }
    void resume(int tid);
    void note(const std::string &v) { if (violation.empty()) violation = v; }
};

extern Sched *sched;   // the scenario being executed (nullptr outside scenarios: atomics then run inline)

} // namespace verif
