"""Gen/Reusable.lean: the tables the C11 model (SquidModel/Cache/Reusable*.lean) depends on, read from the staged source text.

* the status-code groups of the `switch (rep->sline.status())` in `HttpStateData::reusableReply` (src/http.cc): every run of
  `case Http::scX:` labels is classified by the (normalised) text of the statements it leads to; a body that is not one of the
  known shapes stops the translation (the code was restructured: adapt the model);
* the numeric values of `Http::StatusCode` (src/http/StatusCode.h);
* `attrsList` of src/HttpHdrCc.cc (directive name -> HttpHdrCcType);
* the method classes of src/http/RequestMethod.cc (`isHttpSafe`, `isIdempotent`, `respMaybeCacheable`, `shouldInvalidate`)
  after resolving the `#if NAME` blocks against include/autoconf.h;
* whether `HttpHeader::getCc` (src/HttpHeader.cc) parses the joined list or each field line (flag `ccParsedPerLine`);
* whether the 304 branch of `clientReplyContext::handleIMSReply` (src/client_side_reply.cc) releases an entry refreshed by a 304
  that carries no-store/private (flag `notModifiedHonoursNoStore`);
* `delim[2]` of `strListGetItem` (src/StrList.cc), the bytes skipped before a list item;
* which form `httpHeaderParseInt` (src/HttpHeaderTools.cc) has (flag `parseIntStrict`);
* USE_HTTP_VIOLATIONS (include/autoconf.h), `neighbors_do_private_keys` (src/globals.cc), the defaults of `negative_ttl`,
  `minimum_expiry_time`, `max_stale` and the stock `refresh_pattern` lines (src/cf.data.pre), REFRESH_DEFAULT_* of the built-in rule.
"""
import re


class Restructured(RuntimeError):
    pass


def _need(m, what):
    if not m:
        raise Restructured("translate/reusable.py: cannot find %s in the staged source (the code was restructured; adapt the translator and the model)" % what)
    return m


def strip_comments(text):
    out, i, n = [], 0, len(text)
    while i < n:
        if text.startswith("/*", i):
            j = text.find("*/", i + 2)
            i = n if j < 0 else j + 2
            out.append(" ")
        elif text.startswith("//", i):
            j = text.find("\n", i)
            i = n if j < 0 else j
        elif text[i] == '"':
            j = i + 1
            while j < n and text[j] != '"':
                j += 2 if text[j] == "\\" else 1
            out.append(text[i:j + 1])
            i = j + 1
        elif text[i] == "'":
            j = i + 1
            while j < n and text[j] != "'":
                j += 2 if text[j] == "\\" else 1
            out.append(text[i:j + 1])
            i = j + 1
        else:
            out.append(text[i])
            i += 1
    return "".join(out)


def defined_macros(stage):
    """macros of include/autoconf.h defined to a non-zero value"""
    res = {}
    for m in re.finditer(r"^#define\s+(\w+)\s+(\S+)", stage.read("include/autoconf.h"), flags=re.M):
        res[m.group(1)] = m.group(2)
    return res


def resolve_ifs(text, macros):
    """Resolve `#if NAME` / `#if !NAME` / `#else` / `#endif` (the only forms used inside the functions we read)."""
    out, stack = [], []   # stack of (active_before, cond)
    for line in text.split("\n"):
        s = line.strip()
        m = re.match(r"#\s*if\s+(!?)\s*(\w+)\s*$", s)
        if m:
            val = macros.get(m.group(2), "0") not in ("0", "")
            if m.group(1):
                val = not val
            stack.append([all(c for _, c in stack) if stack else True, val])
            continue
        if re.match(r"#\s*(if|ifdef|ifndef|elif)\b", s):
            raise Restructured("translate/reusable.py: unsupported preprocessor line %r" % s)
        if re.match(r"#\s*else\b", s):
            _need(stack, "#if for #else")
            stack[-1][1] = not stack[-1][1]
            continue
        if re.match(r"#\s*endif\b", s):
            _need(stack, "#if for #endif")
            stack.pop()
            continue
        if all(c for _, c in stack):
            out.append(line)
    if stack:
        raise Restructured("translate/reusable.py: unbalanced #if")
    return "\n".join(out)


def block_after(text, start):
    """text of the brace block whose '{' is the first one at or after `start` (without the outer braces)"""
    i = text.index("{", start)
    depth, j, n = 0, i, len(text)
    while j < n:
        c = text[j]
        if c == '"':
            j += 1
            while text[j] != '"':
                j += 2 if text[j] == "\\" else 1
        elif c == "'":
            j += 1
            while text[j] != "'":
                j += 2 if text[j] == "\\" else 1
        elif c == "{":
            depth += 1
        elif c == "}":
            depth -= 1
            if depth == 0:
                return text[i + 1:j]
        j += 1
    raise Restructured("translate/reusable.py: unbalanced braces")


def function_body(text, header_re, what):
    m = _need(re.search(header_re, text), what)
    return block_after(text, m.end() - 1)


def norm(s):
    return re.sub(r"\s+", " ", s).strip()


SHAPES = {
    'if (refreshIsCachable(entry) || REFRESH_OVERRIDE(store_stale)) decision.make(ReuseDecision::cachePositively, "refresh check returned cacheable"); '
    'else decision.make(ReuseDecision::doNotCacheButShare, "refresh check returned non-cacheable"); break;': "refresh",
    'if (rep->date <= 0) decision.make(ReuseDecision::doNotCacheButShare, "Date is missing/invalid"); '
    'else if (rep->expires > rep->date) decision.make(ReuseDecision::cachePositively, "Expires > Date"); '
    'else decision.make(ReuseDecision::doNotCacheButShare, "Expires <= Date"); break;': "expiresDate",
    'statusAnswer = ReuseDecision::doNotCacheButShare; statusReason = shareableError; [[fallthrough]];': "negShare+",
    'if (Config.negativeTtl > 0) decision.make(ReuseDecision::cacheNegatively, "Config.negativeTtl > 0"); else decision.make(statusAnswer, statusReason); break;': "negNoShare",
    'decision.make(statusAnswer, statusReason); break;': "negNoShare",   # the same group built without USE_HTTP_VIOLATIONS
    'decision.make(ReuseDecision::doNotCacheButShare, shareableError); break;': "shareOnly",
    'decision.make(ReuseDecision::reuseNot, nonShareableError); break;': "never",
    'decision.make(ReuseDecision::reuseNot, "unknown status code"); break;': "unknown",
}


def status_groups(stage, macros):
    codes = {}
    for m in re.finditer(r"\b(sc\w+)\s*=\s*(\d+)", strip_comments(stage.read("src/http/StatusCode.h"))):
        codes[m.group(1)] = int(m.group(2))
    src = strip_comments(stage.read("src/http.cc"))
    body = resolve_ifs(function_body(src, r"HttpStateData::reusableReply\s*\([^)]*\)\s*\{", "HttpStateData::reusableReply"), macros)
    _need(re.search(r'static const char \*shareableError = "shareable error status code";', body), "shareableError")
    _need(re.search(r'static const char \*nonShareableError = "non-shareable error status code";', body), "nonShareableError")
    _need(re.search(r"ReuseDecision::Answers statusAnswer = ReuseDecision::reuseNot;\s*const char \*statusReason = nonShareableError;", body), "statusAnswer initialisation")
    m = _need(re.search(r"switch\s*\(\s*rep->sline\.status\(\)\s*\)\s*\{", body), "the status switch of reusableReply")
    sw = block_after(body, m.end() - 1)
    groups, labels, pos = [], [], 0
    lab = re.compile(r"\s*(?:case\s+Http::(sc\w+)\s*:|(default)\s*:)")
    while True:
        m = lab.match(sw, pos)
        if m:
            labels.append(m.group(1) or "default")
            pos = m.end()
            continue
        rest = sw[pos:]
        if not rest.strip():
            break
        ends = [e for e in (rest.find("break;"), rest.find("[[fallthrough]];")) if e >= 0]
        _need(ends, "the end of a case body")
        e = min(ends)
        e += len("break;") if rest.startswith("break;", e) else len("[[fallthrough]];")
        stmt = norm(rest[:e])
        if stmt not in SHAPES:
            raise Restructured("translate/reusable.py: unknown case body in reusableReply for %s: %r" % (labels, stmt))
        groups.append((labels, SHAPES[stmt]))
        labels = []
        pos += e
    if labels:
        raise Restructured("translate/reusable.py: labels without body")
    table, have_default, pending = [], False, False
    for labs, kind in groups:
        if pending and kind != "negNoShare":
            raise Restructured("translate/reusable.py: the shareable-error group no longer falls through into the negative-caching decision")
        pending = kind.endswith("+")
        k = kind.rstrip("+")
        for l in labs:
            if l == "default":
                if k != "unknown":
                    raise Restructured("translate/reusable.py: default: is not the unknown-status group")
                have_default = True
            else:
                if k == "unknown":
                    raise Restructured("translate/reusable.py: a named status in the default group")
                table.append((_need(codes.get(l), "value of Http::" + l), l, k))
    if pending or not have_default:
        raise Restructured("translate/reusable.py: status switch without default or with a dangling fallthrough")
    if len(set(c for c, _, _ in table)) != len(table):
        raise Restructured("translate/reusable.py: duplicate status code")
    return sorted(table), codes


CC_CTOR = {"CC_PUBLIC": "pub", "CC_PRIVATE": "priv", "CC_NO_CACHE": "noCache", "CC_NO_STORE": "noStore", "CC_NO_TRANSFORM": "noTransform",
           "CC_MUST_REVALIDATE": "mustRevalidate", "CC_PROXY_REVALIDATE": "proxyRevalidate", "CC_MAX_AGE": "maxAge", "CC_S_MAXAGE": "sMaxage",
           "CC_MAX_STALE": "maxStale", "CC_MIN_FRESH": "minFresh", "CC_ONLY_IF_CACHED": "onlyIfCached", "CC_STALE_IF_ERROR": "staleIfError",
           "CC_IMMUTABLE": "immutable", "CC_OTHER": "other"}


def cc_attrs(stage):
    src = strip_comments(stage.read("src/HttpHdrCc.cc"))
    m = _need(re.search(r"attrsList\[\]\s*=\s*\{(.*?)\n\};", src, flags=re.S), "attrsList")
    rows = re.findall(r'\{\s*"([^"]*)"\s*,\s*HttpHdrCcType::(\w+)\s*\}', m.group(1))
    _need(rows, "rows of attrsList")
    for name, ty in rows:
        if ty not in CC_CTOR:
            raise Restructured("translate/reusable.py: new Cache-Control directive type %s (extend CcType in the model)" % ty)
    return rows


def method_names(stage):
    src = strip_comments(stage.read("src/http/MethodType.h"))
    m = _need(re.search(r"typedef\s+enum\s+_method_t\s*\{(.*?)\}", src, flags=re.S) or re.search(r"enum\s+\w*\s*\{(.*?METHOD_ENUM_END.*?)\}", src, flags=re.S), "the method enum")
    names = re.findall(r"\b(METHOD_\w+)\b", m.group(1))
    return [n for n in names if n != "METHOD_ENUM_END"]


def method_class(src, fn, all_methods, macros):
    body = resolve_ifs(function_body(src, r"HttpRequestMethod::%s\s*\(\s*\)\s*const\s*\{" % fn, "HttpRequestMethod::" + fn), macros)
    m = _need(re.search(r"switch\s*\(\s*theMethod\s*\)\s*\{", body), "switch in " + fn)
    sw = block_after(body, m.end() - 1)
    res, labels, pos = [], [], 0
    lab = re.compile(r"\s*(?:case\s+Http::(METHOD_\w+)\s*:|(default)\s*:)")
    default = None
    while True:
        m = lab.match(sw, pos)
        if m:
            labels.append(m.group(1) or "default")
            pos = m.end()
            continue
        rest = sw[pos:]
        if not rest.strip():
            break
        m2 = _need(re.match(r"\s*return\s+(true|false)\s*;", rest), "`return true/false;` in " + fn)
        val = m2.group(1) == "true"
        for l in labels:
            if l == "default":
                default = val
            elif val:
                res.append(l)
        labels = []
        pos += m2.end()
    if default is not False:
        raise Restructured("translate/reusable.py: %s no longer defaults to false" % fn)
    for l in res:
        if l not in all_methods:
            raise Restructured("translate/reusable.py: unknown method %s" % l)
    return res


def conf_defaults(stage):
    text = stage.read("src/cf.data.pre")
    def default_of(name):
        m = _need(re.search(r"^NAME: %s\b.*?^DEFAULT:\s*(.*?)$" % re.escape(name), text, flags=re.S | re.M), "DEFAULT of " + name)
        return m.group(1).strip()
    def seconds(v, name):
        m = _need(re.match(r"(-?\d+)\s*(second|seconds|minute|minutes|hour|hours|day|days|week|weeks)?$", v), "a time value for " + name)
        mult = {None: 1, "second": 1, "seconds": 1, "minute": 60, "minutes": 60, "hour": 3600, "hours": 3600, "day": 86400, "days": 86400, "week": 604800, "weeks": 604800}[m.group(2)]
        return int(m.group(1)) * mult
    neg = seconds(default_of("negative_ttl"), "negative_ttl")
    mint = seconds(default_of("minimum_expiry_time"), "minimum_expiry_time")
    maxstale = seconds(default_of("max_stale"), "max_stale")
    m = _need(re.search(r"^NAME: refresh_pattern\b.*?^CONFIG_START\n(.*?)^CONFIG_END", text, flags=re.S | re.M), "stock refresh_pattern lines")
    pats = []
    for line in m.group(1).splitlines():
        mm = re.match(r"refresh_pattern\s+(-i\s+)?(\S+)\s+(\d+)\s+(\d+)%\s+(\d+)\s*(.*)$", line.strip())
        if mm:
            pats.append((bool(mm.group(1)), mm.group(2), int(mm.group(3)), int(mm.group(4)), int(mm.group(5)), mm.group(6).split()))
    _need(pats, "refresh_pattern lines")
    return neg, mint, maxstale, pats


def refresh_codes(stage):
    src = strip_comments(stage.read("src/refresh.cc"))
    m = _need(re.search(r"enum\s*\{\s*(FRESH_REQUEST_MAX_STALE_ALL.*?)\}", src, flags=re.S), "the FRESH_/STALE_ enum of refresh.cc")
    res, nxt = [], 0
    for item in m.group(1).split(","):
        item = item.strip()
        if not item:
            continue
        mm = _need(re.match(r"(\w+)(?:\s*=\s*(\d+))?$", item), "an enumerator in refresh.cc")
        if mm.group(2) is not None:
            nxt = int(mm.group(2))
        res.append((mm.group(1), nxt))
        nxt += 1
    return res


def cc_per_line(stage):
    """how HttpHeader::getCc feeds HttpHdrCc::parse: the joined list (false) or one field line at a time into the same object (true)"""
    src = strip_comments(stage.read("src/HttpHeader.cc"))
    body = norm(function_body(src, r"HttpHeader::getCc\s*\(\s*\)\s*const\s*\{", "HttpHeader::getCc"))
    _need("if (!CBIT_TEST(mask, Http::HdrType::CACHE_CONTROL)) return nullptr;" in body, "the presence test of getCc")
    joined = "getList(Http::HdrType::CACHE_CONTROL, &s); HttpHdrCc *cc=new HttpHdrCc(); if (!cc->parse(s)) { delete cc; cc = nullptr; }" in body
    per_line = ("HttpHdrCc *cc=new HttpHdrCc(); bool parsedSome = false; for (const auto e: entries) { if (e && e->id == Http::HdrType::CACHE_CONTROL && cc->parse(e->value)) "
                "parsedSome = true; } if (!parsedSome) { delete cc; cc = nullptr; }") in body
    if joined == per_line:
        raise Restructured("translate/reusable.py: HttpHeader::getCc is neither the joined-list nor the per-line form (adapt the model)")
    return per_line


def nm_honours_no_store(stage):
    """whether the 304 branch of clientReplyContext::handleIMSReply releases the refreshed entry when the 304 carries no-store/private"""
    src = strip_comments(stage.read("src/client_side_reply.cc"))
    body = norm(function_body(src, r"clientReplyContext::handleIMSReply\s*\([^)]*\)\s*\{", "clientReplyContext::handleIMSReply"))
    m = _need(re.search(r"if \(status == Http::scNotModified\) \{(.*?)sendClientOldEntry\(\); return; \}", body), "the 304 branch of handleIMSReply")
    branch = m.group(1)
    _need("Store::Root().updateOnNotModified(old_entry, *http->storeEntry())" in branch, "updateOnNotModified in the 304 branch")
    guard = "if (const auto cc = new_rep.cache_control) { if (cc->hasNoStore() || cc->hasPrivate()) old_entry->releaseRequest(); }"
    if guard in branch:
        return True
    if "release" in branch.replace("old_entry->release(true); restoreState();", "") or "hasNoStore" in branch or "hasPrivate" in branch:
        raise Restructured("translate/reusable.py: the 304 branch of handleIMSReply treats no-store/private in a way the model does not know")
    return False


def parse_int_strict(stage):
    """httpHeaderParseInt: the strtol form that rejects "no digits" and values outside int (true), or the older atoi form (false)"""
    src = strip_comments(stage.read("src/HttpHeaderTools.cc"))
    body = norm(function_body(src, r"\bhttpHeaderParseInt\s*\(const char \*start, int \*value\)\s*\{", "httpHeaderParseInt"))
    tail = "if (!*value && !xisdigit(*start)) {"
    _need(tail in body, "the leading-digit test of httpHeaderParseInt")
    old = "*value = atoi(start);" in body
    new = ("const long res = strtol(start, &end, 10); if (end == start || errno == ERANGE || res < INT_MIN || res > INT_MAX) {" in body
           and "*value = static_cast<int>(res);" in body)
    if old == new:
        raise Restructured("translate/reusable.py: httpHeaderParseInt is neither the atoi nor the range-checked strtol form (adapt the model)")
    return new


def list_skip_bytes(stage):
    """delim[2] of strListGetItem with the placeholder replaced by ',' : the bytes skipped before an item"""
    src = strip_comments(stage.read("src/StrList.cc"))
    body = function_body(src, r"\bstrListGetItem\s*\([^)]*\)\s*\{", "strListGetItem")
    m = _need(re.search(r'static char delim\[3\]\[\d+\]\s*=\s*\{\s*"((?:[^"\\]|\\.)*)"\s*,\s*"((?:[^"\\]|\\.)*)"\s*,\s*"((?:[^"\\]|\\.)*)"\s*\}', body), "delim[3][..] of strListGetItem")
    if m.group(1) != '\\"?,' or m.group(2) != '\\"\\\\':
        raise Restructured("translate/reusable.py: delim[0]/delim[1] of strListGetItem changed (adapt scanItem)")
    _need("delim[0][1] = del;" in norm(body) and "delim[2][1] = del;" in norm(body), "the delimiter substitution of strListGetItem")
    esc = {"t": 9, "r": 13, "n": 10, "v": 11, "f": 12, "\\": 92, '"': 34}
    out, lit, i = [], m.group(3), 0
    while i < len(lit):
        if lit[i] == "\\":
            out.append(esc[lit[i + 1]])
            i += 2
        else:
            out.append(ord(lit[i]))
            i += 1
    if len(out) < 2 or out[1] != ord("?"):
        raise Restructured("translate/reusable.py: delim[2] of strListGetItem lost its placeholder")
    out[1] = 44
    return out


def lean_bytes(s):
    return "[" + ", ".join(str(b) for b in s.encode("latin-1")) + "]"


def mname(m):
    return m[len("METHOD_"):].replace("_", "-")


def generate(stage):
    macros = defined_macros(stage)
    table, codes = status_groups(stage, macros)
    attrs = cc_attrs(stage)
    methods = method_names(stage)
    rm = strip_comments(stage.read("src/http/RequestMethod.cc"))
    classes = {fn: method_class(rm, fn, methods, macros) for fn in ("isHttpSafe", "isIdempotent", "respMaybeCacheable", "shouldInvalidate")}
    violations = macros.get("USE_HTTP_VIOLATIONS", "0") not in ("0", "")
    g = _need(re.search(r"int\s+neighbors_do_private_keys\s*=\s*(\d+)\s*;", stage.read("src/globals.cc")), "neighbors_do_private_keys")
    neg, mint, maxstale, pats = conf_defaults(stage)
    rp = strip_comments(stage.read("src/RefreshPattern.h"))
    bi = _need(re.search(r"min\((\d+)\)\s*,\s*pct\(0?\.(\d\d)\)\s*,\s*max\(REFRESH_DEFAULT_MAX\)", rp), "the built-in refresh rule (RefreshPattern constructor)")
    bimax = int(_need(re.search(r"#define\s+REFRESH_DEFAULT_MAX\s+static_cast<time_t>\((\d+)\)", rp), "REFRESH_DEFAULT_MAX").group(1))
    lines = ["-- GENERATED by translate/reusable.py from src/http.cc, src/http/StatusCode.h, src/HttpHdrCc.cc, src/http/RequestMethod.cc,",
             "-- include/autoconf.h, src/globals.cc, src/cf.data.pre (do not edit)",
             "import SquidModel.Cache.ReusableTypes",
             "namespace SquidModel.Gen.Reusable",
             "open SquidModel.Cache",
             "",
             "/-- status code -> group of the `switch (rep->sline.status())` in HttpStateData::reusableReply; codes not listed take `default:` -/",
             "def statusGroups : List (Nat × StatusGroup) := ["]
    lines.append(",\n".join("  (%d, .%s) /- %s -/" % (c, k, l) for c, l, k in table) + "]")
    lines += ["",
              "/-- attrsList of HttpHdrCc.cc: directive name (bytes, compared case-insensitively by the code) -> type -/",
              "def ccAttrs : List (List UInt8 × CcType) := ["]
    lines.append(",\n".join("  (%s, .%s) /- %s -/" % (lean_bytes(n), CC_CTOR[t], n) for n, t in attrs) + "]")
    lines.append("")
    for fn, var in (("isHttpSafe", "methodsSafe"), ("isIdempotent", "methodsIdempotent"), ("respMaybeCacheable", "methodsRespMaybeCacheable"), ("shouldInvalidate", "methodsShouldInvalidate")):
        lines.append("/-- methods for which HttpRequestMethod::%s() returns true -/" % fn)
        lines.append("def %s : List String := [%s]" % (var, ", ".join('"%s"' % mname(m) for m in classes[fn])))
    lines += ["",
              "/-- every registered method name (Http::MethodType), METHOD_OTHER stands for unregistered names -/",
              "def methodNames : List String := [%s]" % ", ".join('"%s"' % mname(m) for m in methods),
              "",
              "/-- the bytes `strListGetItem(str, ',', ...)` skips before an item (its delim[2]) -/",
              "def listSkipBytes : List UInt8 := [%s]" % ", ".join(str(b) for b in list_skip_bytes(stage)),
              "def useHttpViolations : Bool := %s" % ("true" if violations else "false"),
              "/-- httpHeaderParseInt rejects values without digits or outside int (strtol form) instead of truncating them (atoi form) -/",
              "def parseIntStrict : Bool := %s" % ("true" if parse_int_strict(stage) else "false"),
              "/-- HttpHeader::getCc parses every Cache-Control field line on its own (true) or the \", \"-joined list of all lines (false) -/",
              "def ccParsedPerLine : Bool := %s" % ("true" if cc_per_line(stage) else "false"),
              "/-- the 304 branch of clientReplyContext::handleIMSReply releases the refreshed entry when the 304 carries no-store or private -/",
              "def notModifiedHonoursNoStore : Bool := %s" % ("true" if nm_honours_no_store(stage) else "false"),
              "def neighborsDoPrivateKeys : Bool := %s" % ("true" if int(g.group(1)) else "false"),
              "def defaultNegativeTtl : Int := %d" % neg,
              "def defaultMinimumExpiryTime : Int := %d" % mint,
              "def defaultMaxStale : Int := %d" % maxstale,
              "/-- the built-in rule used when no refresh_pattern matches: (min seconds, percent, max seconds) -/",
              "def builtinRefresh : Nat × Nat × Nat := (%d, %d, %d)" % (int(bi.group(1)), int(bi.group(2)), bimax),
              "",
              "/-- the FRESH_* / STALE_* reason codes of refresh.cc -/",
              "def refreshCodes : List (String × Nat) := [%s]" % ", ".join('("%s", %d)' % (n, v) for n, v in refresh_codes(stage)),
              "",
              "/-- the stock refresh_pattern lines: (case-insensitive, regex, min minutes, percent, max minutes, option names) -/",
              "def stockRefreshPatterns : List (Bool × String × Nat × Nat × Nat × List String) := [",
              ",\n".join('  (%s, "%s", %d, %d, %d, [%s])' % ("true" if ci else "false", rx.replace("\\", "\\\\"), mn, pct, mx, ", ".join('"%s"' % o for o in opts)) for ci, rx, mn, pct, mx, opts in pats) + "]",
              "",
              "end SquidModel.Gen.Reusable", ""]
    info = {"status_codes": len(table), "cc_directives": len(attrs), "cacheable_methods": [mname(m) for m in classes["respMaybeCacheable"]],
            "violations": violations, "cc_parsed_per_line": cc_per_line(stage), "negative_ttl": neg, "minimum_expiry_time": mint}
    return "SquidModel/Gen/Reusable.lean", "\n".join(lines), info
