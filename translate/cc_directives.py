"""Gen/CcDirectives.lean: the Cache-Control directive table (attrsList of src/HttpHdrCc.cc), the enumerator order of
HttpHdrCcType (src/HttpHdrCc.h), the integer constants the model depends on and the C-locale character classes, extracted
from the staged source text and cross-checked / completed by executing the staged code (harness/c29.cc --dump).
Never raises on surprising values: what is found is emitted and the proofs / the differential run disagree."""
import re, subprocess

ENUM_TO_CTOR = {
    "CC_PUBLIC": "public_", "CC_PRIVATE": "private_", "CC_NO_CACHE": "noCache", "CC_NO_STORE": "noStore",
    "CC_NO_TRANSFORM": "noTransform", "CC_MUST_REVALIDATE": "mustRevalidate", "CC_PROXY_REVALIDATE": "proxyRevalidate",
    "CC_MAX_AGE": "maxAge", "CC_S_MAXAGE": "sMaxage", "CC_MAX_STALE": "maxStale", "CC_MIN_FRESH": "minFresh",
    "CC_ONLY_IF_CACHED": "onlyIfCached", "CC_STALE_IF_ERROR": "staleIfError", "CC_IMMUTABLE": "immutable",
    "CC_OTHER": "other", "CC_ENUM_END": "enumEnd",
}
# harness label (harness/c29.cc AllTypes) -> constructor
LABEL_TO_CTOR = {
    "public": "public_", "private": "private_", "no-cache": "noCache", "no-store": "noStore", "no-transform": "noTransform",
    "must-revalidate": "mustRevalidate", "proxy-revalidate": "proxyRevalidate", "max-age": "maxAge", "s-maxage": "sMaxage",
    "max-stale": "maxStale", "min-fresh": "minFresh", "only-if-cached": "onlyIfCached", "stale-if-error": "staleIfError",
    "immutable": "immutable", "other": "other",
}


def ctor(enum_name):
    # an enumerator the model does not know yields an identifier that does not exist: the Lean build fails, which is the signal
    return ENUM_TO_CTOR.get(enum_name, "unknown_" + enum_name)


def parse_attrs(text):
    m = re.search(r"attrsList\[\]\s*=\s*\{(.*?)\n\};", text, re.S)
    rows = []
    if not m:
        return rows
    for name, en in re.findall(r"\{\s*(\"(?:[^\"\\]|\\.)*\"|nullptr)\s*,\s*HttpHdrCcType::(\w+)\s*\}", m.group(1)):
        if name == "nullptr":
            break
        rows.append((bytes(name[1:-1], "latin-1").decode("unicode_escape").encode("latin-1"), en))
    return rows


def parse_enum(text):
    m = re.search(r"enum\s+HttpHdrCcType[^{]*\{(.*?)\};", text, re.S)
    if not m:
        return []
    body = re.sub(r"/\*.*?\*/", "", m.group(1), flags=re.S)
    body = re.sub(r"//[^\n]*", "", body)
    names, val = [], 0
    for part in body.split(","):
        part = part.strip()
        if not part:
            continue
        mm = re.match(r"(\w+)(?:\s*=\s*(\d+))?$", part)
        if not mm:
            continue
        if mm.group(2) is not None:
            val = int(mm.group(2))
        names.append((mm.group(1), val))
        val += 1
    return names


def numeric_parser(tools_text):
    """how httpHeaderParseInt (src/HttpHeaderTools.cc) converts: 'strtol-range' (strtol + ERANGE + INT_MIN/INT_MAX check, what the
    model transcribes), 'atoi' (the earlier code) or 'other'"""
    m = re.search(r"\nhttpHeaderParseInt\(.*?\n\}\n", tools_text, re.S)
    body = m.group(0) if m else ""
    if "strtol(" in body and "ERANGE" in body and "INT_MAX" in body and "INT_MIN" in body:
        return "strtol-range"
    if "atoi(" in body:
        return "atoi"
    return "other"


def lead_delims(strlist_text):
    """delim[2] of strListGetItem (what strspn skips before an item) with `del` = ','; [] when the table is not found"""
    m = re.search(r"static\s+char\s+delim\[3\]\[\d+\]\s*=\s*\{(.*?)\};", strlist_text, re.S)
    if not m:
        return []
    lits = re.findall(r'"((?:[^"\\]|\\.)*)"', m.group(1))
    if len(lits) < 3:
        return []
    raw = bytearray(bytes(lits[2], "latin-1").decode("unicode_escape").encode("latin-1"))
    if len(raw) > 1:
        raw[1] = ord(",")      # delim[2][1] = del
    return sorted(set(raw))


def generate(stage):
    from props import C29
    cc = stage.read("src/HttpHdrCc.cc")
    hh = stage.read("src/HttpHdrCc.h")
    tools = stage.read("src/HttpHeaderTools.cc")
    leads = lead_delims(stage.read("src/StrList.cc"))
    rows = parse_attrs(cc)
    enum = parse_enum(hh)
    exe = C29.build_exe(stage)
    r = subprocess.run([exe, "--dump"], capture_output=True, text=True, env=C29.harness_env())
    consts, run_enum, run_names, classes = {}, {}, {}, {}
    for line in r.stdout.splitlines():
        w = line.split()
        if not w:
            continue
        if w[0] == "const" and len(w) == 3:
            consts[w[1]] = int(w[2])
        elif w[0] == "enum" and len(w) == 3:
            run_enum[w[1]] = int(w[2])
        elif w[0] == "enum_end":
            run_enum["__end"] = int(w[1])
        elif w[0] == "name":
            run_names[w[1]] = [int(x) for x in w[2::2]]
        elif w[0] in ("isspace", "isdigit"):
            classes[w[0]] = [int(x) for x in w[1:]]
    # cross-checks between the source text and the running code (reported, never fatal)
    mismatches = []
    src_enum = dict(enum)
    for label, c in LABEL_TO_CTOR.items():
        en = [k for k, v in ENUM_TO_CTOR.items() if v == c][0]
        if label in run_enum and src_enum.get(en) != run_enum[label]:
            mismatches.append("enum %s: source %s, running code %s" % (en, src_enum.get(en), run_enum[label]))
    for name, en in rows:
        key = name.decode("latin-1")
        if key in run_names and src_enum.get(en) is not None and any(v != src_enum[en] for v in run_names[key]):
            mismatches.append("name %s: source row says %s=%s, running code answers %s" % (key, en, src_enum[en], run_names[key]))
    order = [n for n, _ in sorted(enum, key=lambda p: p[1])]
    dense = [v for _, v in sorted(enum, key=lambda p: p[1])] == list(range(len(enum)))
    unknown = sorted(set(consts.get(k, 0) for k in ("MAX_AGE_UNKNOWN", "S_MAXAGE_UNKNOWN", "MAX_STALE_UNKNOWN",
                                                    "STALE_IF_ERROR_UNKNOWN", "MIN_FRESH_UNKNOWN")))
    lines = []
    for name, en in rows:
        lines.append("  ([%s], .%s)" % (", ".join(str(b) for b in name), ctor(en)))
    text = """-- GENERATED by translate/cc_directives.py from src/HttpHdrCc.cc, src/HttpHdrCc.h and the running code (do not edit)
import SquidModel.Cc.Types
namespace SquidModel.Gen.CcDirectives
open SquidModel.Cc

/-- rows of `attrsList` before the `nullptr` terminator, in order: (name, id) -/
def attrs : List (Bytes × CcType) := [
%s]

/-- names of the rows, for reading: %s -/
def attrsCount : Nat := %d

/-- enumerators of `HttpHdrCcType` in value order (value = position; dense from 0: %s) -/
def enumOrder : List CcType := [%s]

/-- `HttpHdrCc::MAX_STALE_ANY` -/
def MAX_STALE_ANY : Int := %d
/-- the distinct values of `MAX_AGE_UNKNOWN`, `S_MAXAGE_UNKNOWN`, `MAX_STALE_UNKNOWN`, `STALE_IF_ERROR_UNKNOWN`, `MIN_FRESH_UNKNOWN` -/
def UNKNOWN : List Int := [%s]
/-- `sizeof(int) * CHAR_BIT`, `sizeof(long) * CHAR_BIT` of the build -/
def INT_BITS : Nat := %d
def LONG_BITS : Nat := %d
/-- octets for which `xisspace` / `xisdigit` answer true in the running code (C locale) -/
def spaceChars : List UInt8 := [%s]
def digitChars : List UInt8 := [%s]
/-- `delim[2]` of `strListGetItem` with `del = ','`: the octets skipped in front of an item -/
def leadDelims : List UInt8 := [%s]
/-- `true`: `httpHeaderParseInt` converts with `strtol` and rejects `ERANGE` and values outside `INT_MIN..INT_MAX`
(found in the source text: %s) -/
def parseIntRangeChecked : Bool := %s

end SquidModel.Gen.CcDirectives
""" % (",\n".join(lines),
       " ".join(n.decode("latin-1") for n, _ in rows), len(rows),
       "yes" if dense else "NO",
       ", ".join("." + ctor(n) for n in order),
       consts.get("MAX_STALE_ANY", 0),
       ", ".join(str(u) for u in unknown),
       consts.get("INT_BITS", 0), consts.get("LONG_BITS", 0),
       ", ".join(str(c) for c in classes.get("isspace", [])),
       ", ".join(str(c) for c in classes.get("isdigit", [])),
       ", ".join(str(c) for c in leads),
       numeric_parser(tools), "true" if numeric_parser(tools) == "strtol-range" else "false")
    return "SquidModel/Gen/CcDirectives.lean", text, {"rows": len(rows), "enumerators": len(enum), "mismatches": mismatches,
                                                      "numeric_parser": numeric_parser(tools), "lead_delims": leads}
