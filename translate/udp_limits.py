"""Gen/UdpLimits.lean: buffer sizes, capacities and source-variant flags the C39 models (SquidModel/Udp) depend on.

Values are read from the staged source text (macro definitions, array declarations, literals inside the functions) and,
for the two `sizeof`s, printed by the compiled harnesses.  A value that cannot be found is emitted as 0 (the proofs then
fail and the check reports it); nothing raises.
"""
import re, subprocess


def function_text(src, header):
    try:
        i = src.index(header)
        j = src.index("\n}\n", i)
        return src[i:j]
    except ValueError:
        return ""


def lit(text, pattern, group=1):
    m = re.search(pattern, text)
    if not m:
        return 0
    try:
        return int(m.group(group), 0)
    except ValueError:
        return 0


def enum_value(text, enum_name, member):
    """value of `member` in `enum enum_name { ... }` (implicit numbering, `A = B` aliases of earlier members allowed)"""
    m = re.search(r"enum\s*" + enum_name + r"\s*\{(.*?)\}", text, re.S)
    if not m:
        return 0
    body = re.sub(r"//[^\n]*|/\*.*?\*/", "", m.group(1), flags=re.S)
    val, seen = -1, {}
    for item in body.split(","):
        item = item.strip()
        if not item:
            continue
        if "=" in item:
            name, rhs = [x.strip() for x in item.split("=", 1)]
            try:
                val = int(rhs, 0)
            except ValueError:
                val = seen.get(rhs, val)
        else:
            name = item
            val += 1
        seen[name] = val
    return seen.get(member, 0)


def generate(stage):
    from props import C39
    vals = {}
    try:
        r = subprocess.run([C39.build_snmp(stage), "--dump"], capture_output=True, text=True, timeout=60)
        for line in r.stdout.splitlines():
            p = line.split()
            if len(p) == 2 and re.fullmatch(r"\d+", p[1]):
                vals[p[0]] = int(p[1])
    except Exception:
        pass
    try:
        r = subprocess.run([C39.build_udp(stage), "--dump"], capture_output=True, text=True, timeout=60)
        for line in r.stdout.splitlines():
            p = line.split()
            if len(p) == 2 and re.fullmatch(r"\d+", p[1]):
                vals[p[0]] = int(p[1])
    except Exception:
        pass
    asn1 = stage.read("lib/snmplib/asn1.c")
    api = stage.read("lib/snmplib/snmp_api.c")
    plen = function_text(asn1, "\nasn_parse_length(")
    phdr = function_text(asn1, "\nasn_parse_header(")
    comm_a = lit(api, r"u_char\s+Community\[(\d+)\]")
    comm_b = lit(api, r"int\s+CommunityLen\s*=\s*(\d+)")
    m = re.search(r"asn_length\s*>\s*\(u_int\)\s*\(\s*(\d+)\s*<<\s*(\d+)\s*\)", phdr)
    asn_max = (int(m.group(1)) << int(m.group(2))) if m else 0
    htcp = stage.read("src/htcp.cc")
    hrecv = function_text(htcp, "\nhtcpRecv(")
    htcp_buf = lit(hrecv, r"static\s+char\s+buf\[(\d+)\]")
    if not re.search(r"comm_udp_recvfrom\(fd,\s*buf,\s*sizeof\(buf\)\s*-\s*1\s*,", hrecv):
        htcp_buf = 0
    icp = stage.read("src/icp_v2.cc")
    ihandle = function_text(icp, "\nicpHandleUdp(")
    icp_ok = bool(re.search(r"LOCAL_ARRAY\(char,\s*buf,\s*SQUID_UDP_SO_RCVBUF\)", ihandle)) and \
        bool(re.search(r"SQUID_UDP_SO_RCVBUF\s*-\s*1\s*,", ihandle))
    core = stage.read("src/snmp_core.cc")
    shandle = function_text(core, "\nsnmpHandleUdp(")
    snmp_ok = bool(re.search(r"static\s+char\s+buf\[SNMP_REQUEST_SIZE\]", shandle)) and \
        bool(re.search(r"memset\(buf,\s*'\\0',\s*sizeof\(buf\)\)", shandle)) and \
        bool(re.search(r"comm_udp_recvfrom\(sock,\s*buf,\s*sizeof\(buf\)\s*-\s*1\s*,", shandle))
    consts = [
        ("snmpRequestSize", lit(stage.read("src/snmp_core.h"), r"#define\s+SNMP_REQUEST_SIZE\s+(\d+)") if snmp_ok else 0,
         "SNMP_REQUEST_SIZE: size of snmpHandleUdp's static, zeroed receive buffer; recvfrom is given one octet less"),
        ("maxNameLen", lit(stage.read("include/snmp_vars.h"), r"#define\s+MAX_NAME_LEN\s+(\d+)"),
         "MAX_NAME_LEN: capacity (sub-identifiers) of the OID buffers snmp_var_DecodeVarBind hands to asn_parse_objid"),
        ("communityBuf", comm_a if comm_a == comm_b else 0, "size of snmp_parse()'s Community[]"),
        ("asnMaxLen", asn_max, "`asn_length > (u_int)(2 << 18)` in asn_parse_header"),
        ("sizeofInt", vals.get("sizeof_int", 0), "sizeof(int) as asn_parse_length / asn_parse_int use it (printed by the compiled harness)"),
        ("lengthCountChecked", 1 if re.search(r"if\s*\(lengthbyte\s*>\s*sizeof\(int\)\)", plen) else 0,
         "asn_parse_length checks the long-form octet count against sizeof(int) before copying (1 = yes)"),
        ("asnChecksRoomFirst", 1 if re.search(r"\nasn_parse_length\(u_char\s*\*\s*data,\s*int\s+\w+,", asn1) else 0,
         "asn_parse_* look at the remaining length before touching the type/length octets (0 = no: the tree as found)"),
        ("icpHeaderSize", vals.get("sizeof_icp_common_t", 0), "sizeof(icp_common_t) (printed by the compiled harness)"),
        ("icpBufSize", vals.get("SQUID_UDP_SO_RCVBUF", 0) if icp_ok else 0,
         "SQUID_UDP_SO_RCVBUF: size of icpHandleUdp's buffer; recvfrom is given one octet less (printed by the compiled harness)"),
        ("icpEnd", enum_value(stage.read("src/icp_opcode.h"), "icp_opcode", "ICP_END"), "ICP_END"),
        ("htcpBufSize", htcp_buf, "size of htcpRecv's static buffer; recvfrom is given one octet less"),
        ("htcpEnd", enum_value(htcp, "", "HTCP_END"), "HTCP_END"),
    ]
    text = ("-- GENERATED by translate/udp_limits.py from src/snmp_core.{h,cc}, include/snmp_vars.h, lib/snmplib/{asn1,snmp_api}.c,\n"
            "-- src/icp_v2.cc, src/icp_opcode.h, src/htcp.cc and the compiled harnesses (do not edit)\n"
            "namespace SquidModel.Gen.UdpLimits\n\n")
    for name, v, doc in consts:
        text += "/-- %s -/\ndef %s : Nat := %d\n" % (doc, name, v)
    text += "\nend SquidModel.Gen.UdpLimits\n"
    return "SquidModel/Gen/UdpLimits.lean", text, {n: v for n, v, _ in consts}
