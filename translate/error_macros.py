"""Gen/ErrorMacros.lean: the `case 'X':` blocks of ErrorState::compileLegacyCode (src/errorpage.cc) as a small statement AST
(conditions, which value source goes to `p` / `mb`, where do_quote / no_urlescape are switched), the initial flag values, the
normalised epilogue (quote / URL-escape / append / advance) and the per-byte graph of rfc1738_escape_part dumped from the staged code.

The C++ text is parsed, not pattern-matched per letter: a re-ordered or re-nested block yields a different AST with the same meaning,
an added `do_quote = 0` or a new value source shows up in the AST (new sources become `.other n`, which the model treats as hostile).
"""
import os, re, subprocess

# ---- registry: C++ expression text (whitespace-normalised) -> constructor of SquidModel.ErrPage.SrcKey ---------------------------
SRC = {
    "request->auth_user_request->username()": "username",
    "FindListeningPortAddress(request.getRaw(),nullptr)->toStr(ntoabuf,MAX_IPSTRLEN)": "listenAddr",
    "getMyPort()": "myPort",
    "Ftp::UrlWith2f(request.getRaw())": "ftpUrl",
    "errorPageName(type)": "pageName",
    "compileBody(detail->verbose(request).c_str(),false)": "detailCompiled",
    "xerrno": "xerrno",
    "strerror(xerrno)": "strerror",
    "ftp.request": "ftpRequest",
    "ftp.reply": "ftpReply",
    "ftp.listing": "ftpListing",
    "wordlistCat(ftp.server_msg)": "ftpServerMsg",
    "getMyHostname()": "myHostname",
    "request->hier.host": "hierHost",
    "request->url.host()": "urlHost",
    "src_addr.toStr(ntoabuf,MAX_IPSTRLEN)": "srcAddr",
    "request->hier.tcpServer->remote.toStr(ntoabuf,MAX_IPSTRLEN)": "serverAddr",
    "error_stylesheet": "stylesheet",
    "Config.errHtmlText": "errHtmlText",
    "auth_user_request->denyMessage(\"[not available]\")": "denyMessage",
    "request->method.image()": "method",
    "request->extacl_message.termedBuf()": "extaclMessage",
    "external_acl_message": "externalAclMessage",
    "*request->url.port()": "urlPort",
    "request->url.getScheme().image()": "scheme",
    "request->url.absolutePath()": "absolutePath",
    "request->pack(hide_auth)": "packedRequest",
    "request->effectiveRequestUri()": "effectiveUri",
    "url": "urlField",
    "visible_appname_string": "appName",
    "buildBody()": "signatureCompiled",
    "Time::FormatHttpd(squid_curtime)": "timeHttpd",
    "Time::FormatRfc1123(squid_curtime)": "timeRfc1123",
    "urlCanonicalFakeHttps(request.getRaw())": "canonicalUrl",
    "Config.adminEmail": "adminEmail",
    "Dump()": "dump",
    "detail->brief()": "detailBrief",
    "dnsError->c_str()": "dnsError",
    "ftp.cwd_msg": "ftpCwdMsg",
    "err_msg": "errMsg",
}
ATOM = {
    "building_deny_info_url": "deny",
    "build.allowRecursion": "allowRecursion",
    "page_id!=ERR_SQUID_SIGNATURE": "notSignature",
    "p": "pSet",
    "mb.contentSize()": "mbNonEmpty",
    "letter!=';'": "letterNotSemicolon",
    "request": "request",
    "request->auth_user_request": "reqAuthUser",
    "FindListeningPortAddress(request.getRaw(),nullptr)": "listenAddrKnown",
    "detail": "detail",
    "xerrno": "xerrnoNonZero",
    "ftp.request": "ftpRequest",
    "ftp.reply": "ftpReply",
    "ftp.listing": "ftpListing",
    "ftp.server_msg": "ftpServerMsg",
    "ftp.cwd_msg": "ftpCwdMsg",
    "request->hier.host[0]!='\\0'": "hierHostSet",
    "request->hier.tcpServer": "tcpServer",
    "Config.errHtmlText": "errHtmlText",
    "auth_user_request.getRaw()": "errAuthUser",
    "request->url.port()": "urlPortKnown",
    "url": "urlField",
    "Config.adminEmail": "adminEmail",
    "Config.onoff.emailErrData": "emailErrData",
    "dnsError": "dnsError",
    "err_msg": "errMsg",
}


class ParseError(Exception):
    pass


# ---- lexical helpers -------------------------------------------------------------------------------------------------------------

def strip_comments(text):
    out, i, n = [], 0, len(text)
    while i < n:
        c = text[i]
        if c == '"' or c == "'":
            j = i + 1
            while j < n and text[j] != c:
                j += 2 if text[j] == "\\" else 1
            out.append(text[i:j + 1])
            i = j + 1
        elif text.startswith("//", i):
            j = text.find("\n", i)
            i = n if j == -1 else j
        elif text.startswith("/*", i):
            j = text.find("*/", i + 2)
            out.append(" ")
            i = n if j == -1 else j + 2
        else:
            out.append(c)
            i += 1
    return "".join(out)


def preprocess(text, defines):
    """resolve #if NAME / #else / #endif with the configured macros; other directives are dropped"""
    out, stack = [], []
    for line in text.split("\n"):
        s = line.strip()
        if s.startswith("#if"):
            m = re.match(r"#if\s+(!?)\s*(\w+)\s*$", s) or re.match(r"#if(n?)def\s+(\w+)\s*$", s)
            if not m:
                raise ParseError("unsupported preprocessor line: " + s)
            val = bool(defines.get(m.group(2)))
            if m.group(1) in ("!", "n"):
                val = not val
            stack.append(val)
        elif s.startswith("#else"):
            stack[-1] = not stack[-1]
        elif s.startswith("#endif"):
            stack.pop()
        elif s.startswith("#"):
            continue
        elif all(stack):
            out.append(line)
    return "\n".join(out)


def skip_lit(t, i):
    q = t[i]
    j = i + 1
    while t[j] != q:
        j += 2 if t[j] == "\\" else 1
    return j + 1


def match_close(t, i):
    """t[i] is an opening bracket; index just after its partner"""
    op = t[i]
    cl = {"(": ")", "{": "}", "[": "]"}[op]
    depth, j = 0, i
    while j < len(t):
        c = t[j]
        if c in "\"'":
            j = skip_lit(t, j)
            continue
        if c == op:
            depth += 1
        elif c == cl:
            depth -= 1
            if depth == 0:
                return j + 1
        j += 1
    raise ParseError("unbalanced " + op)


def find_top(t, what, start=0):
    """first index of any string in `what` at bracket depth 0 outside literals, or -1"""
    depth, j = 0, start
    while j < len(t):
        c = t[j]
        if c in "\"'":
            j = skip_lit(t, j)
            continue
        if depth == 0:
            for w in what:
                if t.startswith(w, j):
                    return j
        if c in "([{":
            depth += 1
        elif c in ")]}":
            depth -= 1
        j += 1
    return -1


def split_top(t, sep):
    parts, start = [], 0
    while True:
        k = find_top(t, [sep], start)
        if k == -1:
            parts.append(t[start:])
            return parts
        parts.append(t[start:k])
        start = k + len(sep)


def norm(e):
    """whitespace-free spelling of an expression (literals kept verbatim)"""
    out, i = [], 0
    while i < len(e):
        c = e[i]
        if c in "\"'":
            j = skip_lit(e, i)
            out.append(e[i:j])
            i = j
        elif c.isspace():
            i += 1
        else:
            out.append(c)
            i += 1
    return "".join(out)


def c_string(lit):
    """bytes of a C string literal (adjacent literals concatenated)"""
    res, i = bytearray(), 0
    lit = lit.strip()
    while i < len(lit):
        if lit[i].isspace():
            i += 1
            continue
        if lit[i] != '"':
            raise ParseError("not a string literal: " + lit)
        i += 1
        while lit[i] != '"':
            if lit[i] == "\\":
                i += 1
                esc = lit[i]
                simple = {"n": 10, "r": 13, "t": 9, "0": 0, "\\": 92, '"': 34, "'": 39}
                if esc not in simple:
                    raise ParseError("unsupported escape in " + lit)
                res.append(simple[esc])
            else:
                res += lit[i].encode("latin-1")
            i += 1
        i += 1
    return bytes(res)


def is_string_lit(e):
    e = e.strip()
    return e.startswith('"') and skip_lit(e, 0) == len(e)


# ---- the little C++ statement parser ----------------------------------------------------------------------------------------------

class Parser:
    def __init__(self):
        self.locals = {}      # local variable -> initialiser text (normalised)
        self.others = []      # unknown source expressions
        self.other_atoms = []
        self.unknown = []

    def subst(self, e):
        e = norm(e)
        for _ in range(4):
            before = e
            for name, init in self.locals.items():
                e = re.sub(r"(?<![\w.>:])%s(?![\w(])" % re.escape(name), lambda m: init, e)
            if e == before:
                break
        return e

    def src(self, e):
        e = self.subst(e)
        e = re.sub(r"^(.*)\.c_str\(\)$", lambda m: m.group(1) if m.group(1) + ".c_str()" not in SRC and e not in SRC else m.group(0), e)
        if e in SRC:
            return "(.expr .%s)" % SRC[e]
        if e not in self.others:
            self.others.append(e)
        return "(.expr (.other %d))" % self.others.index(e)

    def lit(self, data):
        return "(.lit [%s])" % ", ".join(str(b) for b in data)

    def atom(self, e):
        e = norm(e)
        m = re.match(r"^(?:const)?auto(\w+)=(.*)$", e) or re.match(r"^constauto&?(\w+)=(.*)$", e)
        if m:     # declaration used as a condition
            self.locals[m.group(1)] = self.subst(m.group(2))
            e = m.group(2)
        e = self.subst(e)
        e = re.sub(r"!=nullptr$", "", e)
        if e in ATOM:
            return "(.atom .%s)" % ATOM[e]
        if e not in self.other_atoms:
            self.other_atoms.append(e)
        return "(.atom (.other %d))" % self.other_atoms.index(e)

    def cond(self, t):
        t = t.strip()
        parts = split_top(t, "||")
        if len(parts) > 1:
            r = self.cond(parts[0])
            for p in parts[1:]:
                r = "(.or %s %s)" % (r, self.cond(p))
            return r
        parts = split_top(t, "&&")
        if len(parts) > 1:
            r = self.cond(parts[0])
            for p in parts[1:]:
                r = "(.and %s %s)" % (r, self.cond(p))
            return r
        if t.startswith("!") and not t.startswith("!="):
            return "(.not %s)" % self.cond(t[1:])
        if t.startswith("(") and match_close(t, 0) == len(t):
            return self.cond(t[1:-1])
        return self.atom(t)

    def seq(self, items):
        items = [x for x in items if x != ".skip"]
        if not items:
            return ".skip"
        r = items[-1]
        for x in reversed(items[:-1]):
            r = "(.seq %s %s)" % (x, r)
        return r

    def appendf(self, args):
        fmt = c_string(args[0])
        vals = args[1:]
        out, i, lit = [], 0, bytearray()
        while i < len(fmt):
            if fmt[i] == 37:
                m = re.match(rb"%(hu|u|d|s)", fmt[i:])
                if not m:
                    raise ParseError("unsupported conversion in appendf format %r" % fmt)
                if lit:
                    out.append("(.append %s)" % self.lit(bytes(lit)))
                    lit = bytearray()
                if not vals:
                    raise ParseError("too few appendf arguments")
                out.append("(.append %s)" % self.src(vals.pop(0)))
                i += len(m.group(0))
            else:
                lit.append(fmt[i])
                i += 1
        if lit:
            out.append("(.append %s)" % self.lit(bytes(lit)))
        return self.seq(out)

    def expr_stmt(self, s):
        s = s.strip()
        n = norm(s)
        if not n:
            return ".skip"
        m = re.match(r"^(?:const\s+)?(?:auto|SBuf|int|char\s*\*)\s*&?\s*(\w+)\s*=\s*(.*)$", s, re.S)
        if m and not n.startswith("p="):
            self.locals[m.group(1)] = self.subst(m.group(2))
            return ".skip"
        if n == "do_quote=0":
            return "(.setQuote false)"
        if n == "do_quote=1":
            return "(.setQuote true)"
        if n == "no_urlescape=1":
            return "(.setNoEsc true)"
        if n == "no_urlescape=0":
            return "(.setNoEsc false)"
        if n.startswith("p="):
            rhs = s.split("=", 1)[1].strip()
            q = find_top(rhs, ["?"])
            if q != -1:
                c = find_top(rhs, [":"], q)
                return "(.ite %s %s %s)" % (self.cond(rhs[:q]), self.expr_stmt("p = " + rhs[q + 1:c]), self.expr_stmt("p = " + rhs[c + 1:]))
            if is_string_lit(rhs):
                return "(.setP %s)" % self.lit(c_string(rhs))
            return "(.setP %s)" % self.src(rhs)
        m = re.match(r"^mb\.appendf\((.*)\)$", s, re.S)
        if m:
            return self.appendf([a.strip() for a in split_top(m.group(1), ",")])
        m = re.match(r"^mb\.append\((.*)\)$", s, re.S)
        if m:
            a = [x.strip() for x in split_top(m.group(1), ",")]
            if len(a) == 2 and is_string_lit(a[0]):
                data = c_string(a[0])
                if str(len(data)) != norm(a[1]):
                    raise ParseError("mb.append literal length mismatch: " + s)
                return "(.append %s)" % self.lit(data)
            if len(a) == 2 and norm(a[0]) == "build.input" and norm(a[1]) == "2":
                return "(.append .input2)"
            if len(a) == 2:
                m1 = re.match(r"^(.*?)(\.rawContent\(\)|->content\(\)|\.content\(\))$", norm(a[0]))
                m2 = re.match(r"^(.*?)(\.length\(\)|->contentSize\(\)|\.contentSize\(\))$", norm(a[1]))
                if m1 and m2 and m1.group(1) == m2.group(1):
                    return "(.append %s)" % self.src(m1.group(1))
        if n == "wordlistCat(ftp.server_msg,&mb)":
            return "(.append %s)" % self.src("wordlistCat(ftp.server_msg)")
        if n == "request->pack(&mb,true)":
            return "(.append %s)" % self.src("request->pack(hide_auth)")
        if n == "mb.reset()":
            return ".resetMb"
        if n == "Dump(&mb)":
            return "(.append %s)" % self.src("Dump()")
        if re.match(r"^(debugs|bypassBuildErrorXXX|noteBuildError|Assure|assert)\(", n) or re.match(r"^page_id=\w+$", n):
            return ".skip"      # no effect on the produced text (page_id switching is part of the signature source's meaning)
        self.unknown.append(n)
        return "(.unknown %d)" % (len(self.unknown) - 1)

    def stmt(self, t, i):
        """parse one statement starting at t[i:]; -> (lean term, next index)"""
        while i < len(t) and t[i].isspace():
            i += 1
        if i >= len(t):
            return None, i
        if t[i] == "{":
            j = match_close(t, i)
            return self.block(t[i + 1:j - 1]), j
        if re.match(r"if\s*\(", t[i:]):
            k = t.index("(", i)
            j = match_close(t, k)
            c = self.cond(t[k + 1:j - 1])
            then, j = self.stmt(t, j)
            m = re.match(r"\s*else\b", t[j:])
            if m:
                els, j = self.stmt(t, j + m.end())
            else:
                els = ".skip"
            return "(.ite %s %s %s)" % (c, then, els), j
        if t.startswith("[[fallthrough]]", i):
            return ".fallthrough", t.index(";", i) + 1
        if re.match(r"break\s*;", t[i:]):
            return ".brk", t.index(";", i) + 1
        j = find_top(t, [";"], i)
        if j == -1:
            raise ParseError("statement without ';': " + t[i:i + 60])
        return self.expr_stmt(t[i:j]), j + 1

    def block(self, t):
        items, i = [], 0
        while True:
            s, i = self.stmt(t, i)
            if s is None:
                break
            items.append(s)
        return self.seq(items)


def extract(text, defines):
    m = re.search(r"^ErrorState::compileLegacyCode\(Build &build\)\s*\{", text, re.M)
    if not m:
        raise ParseError("compileLegacyCode not found")
    end = match_close(text, m.end() - 1)
    body = strip_comments(preprocess(text[m.end():end - 1], defines))
    sw = re.search(r"switch\s*\(\s*letter\s*\)\s*\{", body)
    if not sw:
        raise ParseError("switch (letter) not found")
    sw_end = match_close(body, sw.end() - 1)
    prologue, cases_text, epilogue = body[:sw.start()], body[sw.end():sw_end - 1], body[sw_end:]
    init = {}
    for name in ("do_quote", "no_urlescape"):
        mm = re.search(r"int\s+%s\s*=\s*(\d+)\s*;" % name, prologue)
        if not mm:
            raise ParseError("initial value of %s not found" % name)
        init[name] = mm.group(1) != "0"
    init["resets_mb"] = bool(re.search(r"\bmb\.reset\(\)\s*;", prologue)) and bool(re.search(r"static\s+MemBuf\s+mb\s*;", prologue))
    init["static_mb"] = bool(re.search(r"static\s+MemBuf\s+mb\s*;", prologue))
    if not init["static_mb"] and not re.search(r"\bMemBuf\s+mb\s*;", prologue):
        raise ParseError("declaration of mb not found")
    # split the switch body at top-level labels
    labels = []
    depth, j = 0, 0
    while j < len(cases_text):
        c = cases_text[j]
        if c in "\"'":
            j = skip_lit(cases_text, j)
            continue
        if c in "([{":
            depth += 1
        elif c in ")]}":
            depth -= 1
        if depth == 0:
            mm = re.match(r"case\s*'((?:\\.|[^'])+)'\s*:", cases_text[j:])
            if mm and (j == 0 or not (cases_text[j - 1].isalnum() or cases_text[j - 1] == "_")):
                labels.append((j, j + mm.end(), mm.group(1)))
                j += mm.end()
                continue
            mm = re.match(r"default\s*:", cases_text[j:])
            if mm and (j == 0 or not (cases_text[j - 1].isalnum() or cases_text[j - 1] == "_")):
                labels.append((j, j + mm.end(), "default"))
                j += mm.end()
                continue
        j += 1
    blocks = []
    for k, (s, e, name) in enumerate(labels):
        stop = labels[k + 1][0] if k + 1 < len(labels) else len(cases_text)
        blocks.append((name, cases_text[e:stop]))
    P = Parser()
    parsed = []
    for name, t in blocks:
        P.locals = {}
        parsed.append((name, P.block(t)))
    # fall-through: a block that does not end in break continues into the next one
    final = {}
    for k in range(len(parsed) - 1, -1, -1):
        name, term = parsed[k]
        if ".fallthrough" in term or not re.search(r"\.brk\)*$", term):
            nxt = final[parsed[k + 1][0]] if k + 1 < len(parsed) else ".skip"
            term = term.replace(".fallthrough", ".skip")
            term = "(.seq %s %s)" % (term, nxt)
        final[name] = term
    epi = [norm(s) for s in split_top(epilogue, ";") if norm(s) and not re.match(r"^(debugs|assert|Assure)\(", norm(s))]
    return init, [(n, final[n]) for n, _ in parsed], epi, P


def letter_code(name):
    if name == "\\0":
        return 0
    if len(name) == 1:
        return ord(name)
    raise ParseError("unsupported case label '%s'" % name)


def lean_str(s):
    return '"' + s.replace("\\", "\\\\").replace('"', '\\"') + '"'


def dump_escape_part(stage):
    from props import C33
    exe = C33.build_exe(stage)
    r = subprocess.run([exe, "--dump-escape-part"], capture_output=True, text=True, check=True)
    table = {0: []}
    for line in r.stdout.splitlines():
        b, hx = line.split()
        b = int(b)
        data = bytes.fromhex(hx) if hx != "-" else b""
        table[b] = [] if data == bytes([b]) else list(data)
    assert len(table) == 256
    return table


def hard_coded_signature(text):
    m = re.search(r"\{\s*ERR_SQUID_SIGNATURE\s*,((?:\s*\"(?:\\.|[^\"\\])*\")+)\s*\}", text)
    if not m:
        raise ParseError("hard-coded ERR_SQUID_SIGNATURE text not found")
    return c_string(m.group(1))


def generate(stage):
    text = stage.read("src/errorpage.cc")
    conf = stage.read("include/autoconf.h")
    defines = {m.group(1): m.group(2) != "0" for m in re.finditer(r"^#define\s+(USE_\w+)\s+(\S+)", conf, re.M)}
    init, cases, epi, P = extract(text, defines)
    table = dump_escape_part(stage)
    rows = ",\n  ".join("[" + ", ".join(str(x) for x in table[b]) + "]" for b in range(256))
    lines = []
    default = ".skip"
    for name, term in cases:
        if name == "default":
            default = term
        else:
            lines.append("  (%d, %s)" % (letter_code(name), term))
    out = """-- GENERATED by translate/error_macros.py from src/errorpage.cc ErrorState::compileLegacyCode (do not edit)
-- One entry per `case 'X':` label: the statements of the block as an AST (fall-through already inlined).
-- Unknown value sources / conditions / statements are numbered (.other n / .unknown n) and listed at the end.
import SquidModel.ErrPage.Ast
namespace SquidModel.Gen.ErrorMacros
open SquidModel.ErrPage

def initDoQuote : Bool := %s
def initNoUrlEscape : Bool := %s
/-- `mb` is a function-static buffer shared by nested invocations -/
def staticMb : Bool := %s
/-- ... that every invocation empties before the switch -/
def prologueResetsMb : Bool := %s
/-- the hard-coded ERR_SQUID_SIGNATURE template -/
def hardCodedSignature : List UInt8 := [%s]

def cases : List (UInt8 × Stmt) := [
%s
]

def defaultCase : Stmt := %s

/-- the statements after the switch, whitespace-free -/
def epilogue : List String := [
%s
]

/-- escapePartTable[b] = what rfc1738_escape_part() emits for byte b; [] = copied unchanged (entry 0 unused) -/
def escapePartTable : List (List UInt8) := [
  %s]

-- unknown sources: %s
-- unknown atoms: %s
-- unknown statements: %s
end SquidModel.Gen.ErrorMacros
""" % ("true" if init["do_quote"] else "false", "true" if init["no_urlescape"] else "false",
       "true" if init["static_mb"] else "false", "true" if init["resets_mb"] or not init["static_mb"] else "false",
       ", ".join(str(b) for b in hard_coded_signature(text)),
       ",\n".join(lines), default, ",\n".join("  " + lean_str(s) for s in epi), rows,
       "; ".join(P.others) or "none", "; ".join(P.other_atoms) or "none", "; ".join(P.unknown) or "none")
    info = {"cases": len(cases), "unknown_sources": P.others, "unknown_atoms": P.other_atoms, "unknown_statements": P.unknown,
            "escaped_bytes": sum(1 for b in table if table[b])}
    return "SquidModel/Gen/ErrorMacros.lean", out, info


if __name__ == "__main__":
    import sys
    text = open(sys.argv[1]).read()
    init, cases, epi, P = extract(text, {"USE_AUTH": True})
    for n, t in cases:
        print(n, t)
    print(epi)
    print("others", P.others, P.other_atoms, P.unknown)
