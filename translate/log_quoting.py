"""Gen/LogQuoting.lean: data of the log quoting code.

* from the source text: the unsafe/reserved character arrays of lib/rfc1738.cc (honouring `#if 0`), the RFC1738_ESCAPE_* flag values and
  the flag sets of the rfc1738_escape* macros (include/rfc1738.h), the strcspn() stop sets and `case` letters of log_quoted_string
  (src/format/Format.cc) and strwordquote (src/tools.cc), OLD_LOG_MIME;
* by executing the staged code: the per-byte graph of each of the six quoting functions (the hand-written branch-by-branch models are
  proved equal to these graphs, so a changed function turns a proof red).
"""
import re, subprocess
from translate.error_macros import strip_comments, c_string, ParseError


def char_array(text, name):
    m = re.search(r"static\s+char\s+%s\[\]\s*=\s*\{(.*?)\};" % name, text, re.S)
    if not m:
        raise ParseError("array %s not found" % name)
    body, out, skip = m.group(1), [], 0
    for line in body.split("\n"):
        s = line.strip()
        if s.startswith("#if"):
            skip += 1 if re.match(r"#if\s+0\b", s) or skip else 0
            if not re.match(r"#if\s+0\b", s) and not skip:
                raise ParseError("unsupported conditional in %s: %s" % (name, s))
            continue
        if s.startswith("#endif"):
            skip = max(0, skip - 1)
            continue
        if skip:
            continue
        for mm in re.finditer(r"\(char\)\s*0x([0-9A-Fa-f]{2})", strip_comments(line)):
            out.append(int(mm.group(1), 16))
    return out


def c_char(lit):
    lit = lit.strip()
    simple = {"\\r": 13, "\\n": 10, "\\t": 9, "\\0": 0, "\\\\": 92, "\\\"": 34, "\\'": 39}
    inner = lit[1:-1]
    return simple[inner] if inner in simple else ord(inner)


def escape_switch(text, func):
    """strcspn stop set and the escape letter written for each `case` of the switch in a quoting loop"""
    m = re.search(r"\n%s\([^)]*\)\s*\{(.*?)\n\}" % func, text, re.S)
    if not m:
        raise ParseError(func + " not found")
    body = strip_comments(m.group(1))
    stop = c_string(re.search(r"strcspn\(str,\s*(\"(?:\\.|[^\"\\])*\")\)", body).group(1))
    cases = {}
    for mm in re.finditer(r"case\s*('(?:\\.|[^'])+')\s*:(.*?)break\s*;", body, re.S):
        ch = c_char(mm.group(1))
        blk = mm.group(2)
        letters = re.findall(r"\*p\s*=\s*('(?:\\.|[^'])+')\s*;", blk)          # log_quoted_string style
        lit = re.search(r"append\((\"(?:\\.|[^\"\\])*\")\s*,\s*2\)", blk)       # strwordquote style
        if lit:
            cases[ch] = list(c_string(lit.group(1)))
        elif letters:
            cases[ch] = [c_char(x) for x in letters]
        elif ch == 0:
            continue
        else:
            raise ParseError("%s: case %r not understood" % (func, mm.group(1)))
    return list(stop), cases


def fields_asking_quote(text):
    """which `case LFT_...:` blocks of Format::Format::assemble set the per-field `quote = 1`"""
    m = re.search(r"\nFormat::Format::assemble\(", text)
    if not m:
        raise ParseError("Format::Format::assemble not found")
    body = strip_comments(text[m.end():])
    sw = body.index("switch (fmt->type)")
    end = body.index("if (dooff)", sw)
    body = body[sw:end]
    res, labels, start = {}, [], 0
    pieces = re.split(r"(case\s+LFT_\w+\s*:)", body)
    i = 1
    while i < len(pieces):
        labels.append(re.search(r"LFT_\w+", pieces[i]).group(0))
        blk = pieces[i + 1]
        if blk.strip():            # a block with statements ends the label group
            asks = bool(re.search(r"\bquote\s*=\s*1\s*;", blk))
            for l in labels:
                res[l] = asks
            labels = []
        i += 2
    return res


def generate(stage):
    from props import C34
    exe = C34.build_exe(stage)
    r = subprocess.run([exe, "--dump-tables"], capture_output=True, text=True, check=True)
    tables = {k: {0: []} for k in "qmsunp"}
    for line in r.stdout.splitlines():
        fn, b, h = line.split()
        tables[fn][int(b)] = list(bytes.fromhex(h)) if h != "-" else []
    lib = stage.read("lib/rfc1738.cc")
    hdr = stage.read("include/rfc1738.h")
    unsafe = char_array(lib, "rfc1738_unsafe_chars")
    reserved = char_array(lib, "rfc1738_reserved_chars")
    flags = {}
    for m in re.finditer(r"^#define\s+(RFC1738_ESCAPE_\w+)\s+(.+)$", hdr, re.M):
        flags[m.group(1)] = m.group(2).strip()

    def val(expr):
        expr = expr.strip().strip("()")
        return sum(val(p) for p in expr.split("|")) if "|" in expr else (int(expr) if expr.isdigit() else val(flags[expr]))
    macros = {}
    for name in ("rfc1738_escape", "rfc1738_escape_unescaped", "rfc1738_escape_part"):
        m = re.search(r"^#define\s+%s\(x\)\s+rfc1738_do_escape\(x,\s*(.+)\)\s*$" % name, hdr, re.M)
        if not m:
            raise ParseError(name + " macro not found")
        macros[name] = val(m.group(1))
    qs_stop, qs_cases = escape_switch(stage.read("src/format/Format.cc"), "log_quoted_string")
    wq_stop, wq_cases = escape_switch(stage.read("src/tools.cc"), "strwordquote")
    asks = fields_asking_quote(stage.read("src/format/Format.cc"))
    for need in ("LFT_USER_NAME", "LFT_REQUEST_HEADER", "LFT_REQUEST_METHOD", "LFT_HTTP_SENT_STATUS_CODE"):
        if need not in asks:
            raise ParseError("no case for " + need)
    old_mime = bool(re.search(r"^#define\s+OLD_LOG_MIME\s+1", stage.read("src/format/Quoting.cc") + stage.read("include/autoconf.h"), re.M))

    def lst(x):
        return "[" + ", ".join(str(v) for v in x) + "]"

    def pairs(d):
        return "[" + ", ".join("(%d, %s)" % (k, lst(v)) for k, v in sorted(d.items())) + "]"

    def table(t):
        return "[\n  " + ",\n  ".join(lst(t[b]) for b in range(256)) + "]"
    text = """-- GENERATED by translate/log_quoting.py (do not edit)
import SquidModel.Base.Bytes
namespace SquidModel.Gen.LogQuoting

-- lib/rfc1738.cc, include/rfc1738.h
def unsafeChars : List UInt8 := %s
def reservedChars : List UInt8 := %s
def flagCtrls : Nat := %d
def flagUnsafe : Nat := %d
def flagReserved : Nat := %d
def flagNoSpace : Nat := %d
def flagNoPercent : Nat := %d
def flagsEscape : Nat := %d          -- rfc1738_escape
def flagsUnescaped : Nat := %d       -- rfc1738_escape_unescaped
def flagsPart : Nat := %d            -- rfc1738_escape_part

-- log_quoted_string (src/format/Format.cc): strcspn stop set; two bytes written per `case`; other stop bytes get a backslash in front
def quotedStop : List UInt8 := %s
def quotedCases : List (UInt8 × List UInt8) := %s
-- strwordquote (src/tools.cc)
def wordStop : List UInt8 := %s
def wordCases : List (UInt8 × List UInt8) := %s
def oldLogMime : Bool := %s
-- Format::Format::assemble (src/format/Format.cc): does the `case` of this %%code set `quote = 1`?
def userNameAsksQuote : Bool := %s         -- LFT_USER_NAME (%%un)
def requestHeaderAsksQuote : Bool := %s    -- LFT_REQUEST_HEADER (%%{X}>h)
def requestMethodAsksQuote : Bool := %s    -- LFT_REQUEST_METHOD (%%rm)
def sentStatusAsksQuote : Bool := %s       -- LFT_HTTP_SENT_STATUS_CODE (%%>Hs)
-- all %%codes whose case does not ask for quoting: %s

-- per-byte graphs dumped from the running code (entry 0 unused)
def quotedTable : List (List UInt8) := %s
def mimeTable : List (List UInt8) := %s
def wordTable : List (List UInt8) := %s
def escapeTable : List (List UInt8) := %s
def unescapedTable : List (List UInt8) := %s
def partTable : List (List UInt8) := %s

end SquidModel.Gen.LogQuoting
""" % (lst(unsafe), lst(reserved), val("RFC1738_ESCAPE_CTRLS"), val("RFC1738_ESCAPE_UNSAFE"), val("RFC1738_ESCAPE_RESERVED"),
       val("RFC1738_ESCAPE_NOSPACE"), val("RFC1738_ESCAPE_NOPERCENT"), macros["rfc1738_escape"], macros["rfc1738_escape_unescaped"],
       macros["rfc1738_escape_part"], lst(qs_stop), pairs(qs_cases), lst(wq_stop), pairs(wq_cases), "true" if old_mime else "false",
       *["true" if asks[k] else "false" for k in ("LFT_USER_NAME", "LFT_REQUEST_HEADER", "LFT_REQUEST_METHOD", "LFT_HTTP_SENT_STATUS_CODE")],
       " ".join(sorted(k for k, v in asks.items() if not v)),
       table(tables["q"]), table(tables["m"]), table(tables["s"]), table(tables["u"]), table(tables["n"]), table(tables["p"]))
    return "SquidModel/Gen/LogQuoting.lean", text, {"unsafe": len(unsafe), "reserved": len(reserved), "flags": macros,
                                                     "quoted_cases": len(qs_cases), "word_cases": len(wq_cases)}
