"""Translator: regenerates lean/SquidModel/Gen/*.lean from the staged copy of /repo's working tree.

Each generator is a function gen_<name>(stage) -> (relative lean path, text, info dict) living in
translate/<name>.py. Files are rewritten only when their content changed.
"""
import importlib, os
from vf.util import LEAN_DIR, write_if_changed


def regenerate(stage, names):
    info = {}
    for n in names:
        mod = importlib.import_module("translate." + n)
        rel, text, meta = mod.generate(stage)
        changed = write_if_changed(os.path.join(LEAN_DIR, rel), text)
        meta = dict(meta or {})
        meta["rewritten"] = changed
        info[n] = meta
    return info
